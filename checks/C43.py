"""C43 - row endpoints enforce table grants.
spec/TableGrants (+_Gen).  Stages (TLC decides everything; this file only drives, projects and compares):
  1. MC: the code-shaped decision (database.Open + security.go Authorized) satisfies the statement (DecisionSound,
     NoUngrantedAccess, NoUngrantedTableChange, Unlimited, Isolation) on every state reachable in MaxSteps requests
  2. negative controls: the two historic defects (lookup that matches any user's row; inverted test on the abstract
     endpoints) as spec variants must violate the invariants (vacuity guard)
  3. R: TLC-generated histories (grant/revoke at table and DSN level, restricted flag flips, row and table requests by
     root / plain / identity-privileged users) are replayed against REAL `ego server` processes, in both store
     configurations (file-backed and SQLite-backed DSN service); after every request the HTTP status class must be in
     the set the statement allows (computed by TLC) and the projected real stores (table_perms, dsns_auth, restricted
     flags, the SQLite tables behind the DSNs) must equal the state TLC computed
  4. binding self-test: perturbed expected values must be rejected by the comparer
No Go harness is needed: the real route table, authentication and handlers run in the server subprocess (lib/egosrv.py).
"""
import collections, hashlib, json, os, random, re, sqlite3, threading, time
from concurrent.futures import ThreadPoolExecutor
import vf, egosrv

PROP = "C43"
SPEC = "TableGrants"
ROOT_PW = "secret"
TPERM = {"read": "ego.table.read", "write": "ego.table.write", "update": "ego.table.update",
         "delete": "ego.table.delete", "admin": "ego.table.admin"}
DPERM = {"read": "ego.dsn.read", "write": "ego.dsn.write", "admin": "ego.dsn.admin"}
COLS = [{"name": "id", "type": "int"}, {"name": "v", "type": "int"}]


# ------------------------------------------------------------------ canonical form of a projected state
def canon(st):
    """order-free canonical JSON of a projected state (sets arrive as arrays in arbitrary order)."""
    return {
        "restricted": {d: bool(b) for d, b in sorted(st["restricted"].items())},
        "dgrant": sorted([g["u"], g["d"], sorted(g["p"])] for g in st["dgrant"]),
        "tgrant": sorted([g["u"], g["d"], g["t"], sorted(g["p"])] for g in st["tgrant"]),
        "tables": sorted([t["d"], t["t"], sorted([r["k"], r["v"]] for r in t["rows"])] for t in st["tables"]),
    }


def diff_state(want, got):
    """component names (and a short description) where two canonical states differ"""
    out = []
    for comp in ("restricted", "dgrant", "tgrant", "tables"):
        if want[comp] != got[comp]:
            if isinstance(want[comp], dict):
                w, g = want[comp], got[comp]
            else:
                w = [x for x in want[comp] if x not in got[comp]]
                g = [x for x in got[comp] if x not in want[comp]]
            out.append((comp, w, g))
    return out


def judge(step, obs):
    """Compare one observed step with what TLC computed.  Returns (kind, key, what) tuples:
    kind 'violation' (the statement is broken / the real state differs), 'drift' (the statement allows the answer but the
    code-shaped model predicted the other one), 'error' (an HTTP status that is neither success nor a denial)."""
    call, res = step["call"], []
    if call["kind"] == "req":
        op, zone = call["p"], call["zone"]
        if obs["out"] not in ("ok", "denied"):
            res.append(("error", "status/%s/%s" % (op, obs["out"]),
                        "%s by %s on %s.%s answered HTTP %s (neither success nor a denial)" % (op, call["u"], call["d"], call["t"], obs["status"])))
            return res
        if obs["out"] not in call["allowed"]:
            res.append(("violation", "req/%s/%s/%s" % (op, zone, obs["out"]),
                        "%s by user %s on %s.%s (zone %s) answered HTTP %s = %s; the statement allows only %s"
                        % (op, call["u"], call["d"], call["t"], zone, obs["status"], obs["out"], sorted(call["allowed"]))))
            return res
        if obs["out"] != call["out"]:
            res.append(("drift", "drift/%s/%s/%s" % (op, zone, obs["out"]),
                        "%s by %s on %s.%s (zone %s): real=%s, code-shaped model=%s (both allowed by the statement)"
                        % (op, call["u"], call["d"], call["t"], zone, obs["out"], call["out"])))
            return res
    want, got = canon(step["st"]), canon(obs["st"])
    if want != got:
        what = call["p"] if call["kind"] == "req" else call["kind"]
        for comp, w, g in diff_state(want, got):
            suffix = "/" + obs["out"] if call["kind"] == "req" else ""
            res.append(("violation", "state/%s/%s%s" % (what, comp, suffix),
                        "after %s (%s) the real %s differs from the specification: only-in-spec=%s only-in-real=%s (HTTP %s)"
                        % (what, json.dumps({k: call[k] for k in ("u", "d", "t", "p", "k", "v", "b")}), comp,
                           json.dumps(w)[:400], json.dumps(g)[:400], obs["status"])))
    return res


# ------------------------------------------------------------------ a real server and the projection of its stores
class _Server(egosrv.Server):
    """egosrv.Server with patient timeouts (the machine is shared: a loaded host must not turn into exit 2)"""

    def req(self, method, path, body=None, auth=None, token=None, headers=None, timeout=None, raw=False):
        if timeout is not None:        # egosrv's own start-up probe: fail fast, it retries
            return super().req(method, path, body, auth, token, headers, timeout, raw)
        try:                           # no retry: a request that may have been executed must not be sent twice
            return super().req(method, path, body, auth, token, headers, 300, raw)
        except (TimeoutError, ConnectionError, OSError) as ex:
            raise vf.NoVerdict("no answer from the ego server (%s %s): %r" % (method, path, ex))


class _DbUsersServer(_Server):
    def write_users(self):     # users live in the SQLite credential table, created through the admin API
        pass


class Real:
    """one `ego server` subprocess; mode 'file' = JSON user/DSN stores + SQLite table_perms, 'db' = everything in SQLite"""

    def __init__(self, sd, ego, mode, cfg, idx):
        self.mode, self.cfg, self.idx = mode, cfg, idx
        users = {cfg["root"]: (ROOT_PW, ["ego.root", "ego.logon"])}
        for u in cfg["users"]:
            perms = ["ego.logon"]
            perms += ["ego.dsn.read"] if u in cfg["identRead"] else []
            perms += ["ego.dsn.write"] if u in cfg["identWrite"] else []
            perms += ["ego.dsn.admin"] if u in cfg["identAdmin"] else []
            users[u] = ("pw-" + u, perms)
        self.users = users
        name = "srv-%s-%d" % (mode, idx)
        self.sysdb = os.path.join(sd, name, "system.db")
        # generous server-side timeouts: on a loaded host the default 30 s read timeout expired before a handler read
        # its body (seen once as 400 "unexpected end of JSON input") - an artefact of the host, not of the code under test
        settings = {"ego.server.userdata": "sqlite://" + self.sysdb,
                    "ego.server.read.timeout": "900s", "ego.server.read.header.timeout": "900s",
                    "ego.server.write.timeout": "900s", "ego.server.idle.timeout": "900s"}
        if mode == "file":
            self.srv = _Server(sd, ego, users=users, settings=settings, name=name)
        else:
            self.srv = _DbUsersServer(sd, ego, users={}, settings=settings, name=name,
                                      args=["--default-credential", "%s:%s" % (cfg["root"], ROOT_PW)])
            self.srv.userfile = "sqlite://" + self.sysdb
        self.dir = self.srv.dir
        self.tok = {}

    def start(self):
        self.srv.start(wait=300)
        root = self.cfg["root"]
        self.tok[root] = self.srv.logon(root, ROOT_PW)
        if not self.tok[root]:
            raise vf.NoVerdict("cannot log on as root (%s mode)\n%s" % (self.mode, self.srv.log_text()[-1500:]))
        for u, (pw, perms) in self.users.items():
            if u == root:
                continue
            if self.mode == "db":
                r = self.srv.req("POST", "/admin/users", {"name": u, "password": pw, "permissions": perms}, token=self.tok[root])
                if r.status not in (200, 201):
                    raise vf.NoVerdict("cannot create user %s: %r" % (u, r))
            self.tok[u] = self.srv.logon(u, pw)
            if not self.tok[u]:
                raise vf.NoVerdict("cannot log on as %s (%s mode)" % (u, self.mode))
        return self

    def stop(self):
        """never lets a slow shutdown (loaded host) decide the verdict"""
        try:
            self.srv.stop()
        except Exception:
            pass
        p = self.srv.proc
        if p is not None and p.poll() is None:
            try:
                p.kill()
                p.wait(120)
            except Exception:
                pass

    # ---- mapping model ids -> concrete names of this behaviour
    def begin(self, bid):
        self.bid = bid
        self.names = {d: "b%d%s" % (bid, d) for d in self.cfg["dsns"]}
        self.back = {v: k for k, v in self.names.items()}

    def dbfile(self, d):
        return os.path.join(self.dir, self.names[d] + ".db")

    def root(self, method, path, body=None):
        return self.srv.req(method, path, body, token=self.tok[self.cfg["root"]])

    def setup(self, st):
        """bring a fresh pair of DSNs into the initial state TLC printed (root creates everything)"""
        for d in self.cfg["dsns"]:
            r = self.root("POST", "/dsns/", {"name": self.names[d], "provider": "sqlite", "database": self.dbfile(d),
                                            "restricted": bool(st["restricted"][d])})
            if r.status != 201:
                raise vf.NoVerdict("setup: cannot create DSN: %r" % r)
        for t in st["tables"]:
            r = self.root("PUT", "/dsns/%s/tables/%s" % (self.names[t["d"]], t["t"]), COLS)
            if r.status != 201:
                raise vf.NoVerdict("setup: cannot create table: %r" % r)
            for row in t["rows"]:
                self.root("PUT", "/dsns/%s/tables/%s/rows" % (self.names[t["d"]], t["t"]), [{"id": row["k"], "v": row["v"]}])

    def teardown(self):
        for d in self.cfg["dsns"]:
            try:
                self.root("DELETE", "/dsns/" + self.names[d])
            except Exception:
                pass
            for suf in ("", "-wal", "-shm"):
                try:
                    os.remove(self.dbfile(d) + suf)
                except OSError:
                    pass

    # ---- one model call -> one HTTP request
    def perform(self, call):
        k = call["kind"]
        dn = self.names.get(call["d"], call["d"])
        base = "/dsns/%s/tables/%s" % (dn, call["t"])
        if k == "tgrant":
            return self.root("PUT", base + "/permissions?user=" + call["u"], ["+" + TPERM[call["p"]]])
        if k == "trevoke":
            return self.root("PUT", base + "/permissions?user=" + call["u"], ["-" + TPERM[call["p"]]])
        if k == "trevokeall":
            return self.root("DELETE", base + "/permissions?user=" + call["u"])
        if k in ("dgrant", "drevoke"):
            sign = "+" if k == "dgrant" else "-"
            return self.root("POST", "/dsns/@permissions", {"dsn": dn, "user": call["u"], "actions": [sign + DPERM[call["p"]]]})
        if k == "setrestricted":
            return self.root("PATCH", "/dsns/" + dn, {"restricted": bool(call["b"])})
        if k != "req":
            raise vf.NoVerdict("unknown call kind %r" % k)
        op, tok, key, val = call["p"], self.tok[call["u"]], call["k"], call["v"]
        R = lambda m, p, b=None: self.srv.req(m, p, b, token=tok)
        flt = "filter=EQ(id,%d)" % key
        if op == "read":
            return R("GET", base + "/rows")
        if op == "readA":
            return R("GET", base + "/rows?abstract=true")
        if op == "describe":
            return R("GET", base)
        if op == "insert":
            return R("PUT", base + "/rows", [{"id": key, "v": 0}])
        if op == "insertA":
            return R("PUT", base + "/rows?abstract=true", {"columns": COLS, "rows": [[key, 0]], "count": 1})
        if op == "update":
            return R("PATCH", base + "/rows?" + flt, {"v": val})
        if op == "updateA":
            return R("PATCH", base + "/rows?abstract=true&" + flt, {"columns": [{"name": "v", "type": "int"}], "rows": [[val]], "count": 1})
        if op == "delete":
            return R("DELETE", base + "/rows?" + flt)
        if op == "create":
            return R("PUT", base, COLS)
        if op == "drop":
            return R("DELETE", base)
        raise vf.NoVerdict("unknown op %r" % op)

    # ---- projection of the REAL stores (read directly, not through the endpoints under test)
    def _ro(self, path):
        return sqlite3.connect("file:%s?mode=ro" % path, uri=True, timeout=10)

    def _retry(self, fn):
        err = None
        for _ in range(40):
            try:
                return fn()
            except (sqlite3.OperationalError, ValueError, OSError) as ex:   # a writer finishing; bounded settle-wait
                err = ex
                time.sleep(0.05)
        raise vf.NoVerdict("cannot read the real store: %r" % (err,))

    def project(self):
        mine = set(self.names.values())

        def tperms():
            c = self._ro(self.sysdb)
            try:
                return c.execute('select "user","dsn","table","admin","read","write","update","delete" from table_perms').fetchall()
            finally:
                c.close()
        tg = []
        for u, d, t, a, r, w, up, de in self._retry(tperms):
            if d in mine:
                p = [n for n, f in (("admin", a), ("read", r), ("write", w), ("update", up), ("delete", de)) if f]
                if p:
                    tg.append({"u": u, "d": self.back[d], "t": t, "p": p})

        if self.mode == "file":
            def dsnfile():
                txt = open(os.path.join(self.srv.home, "users_dsns.json")).read()
                j = json.loads("\n".join(l for l in txt.splitlines() if not l.startswith("//")))
                auth = [tuple(k.split("|", 1)) + (v,) for k, v in (j.get("Auth") or {}).items()]
                return auth, {n: bool(v.get("restricted")) for n, v in (j.get("Data") or {}).items()}
            auth, restr = self._retry(dsnfile)
        else:
            def dsndb():
                c = self._ro(self.sysdb)
                try:
                    return (c.execute('select "user","dsn","action" from dsns_auth').fetchall(),
                            {n: bool(r) for n, r in c.execute('select "name","restricted" from dsns').fetchall()})
                finally:
                    c.close()
            auth, restr = self._retry(dsndb)
        dg = []
        for u, d, mask in auth:
            if d in mine:
                p = [n for n, bit in (("read", 1), ("write", 2), ("admin", 8)) if mask & bit]
                if mask & ~11:
                    p.append("bits:%d" % (mask & ~11))
                if p:
                    dg.append({"u": u, "d": self.back[d], "p": p})
        restricted = {self.back[n]: restr.get(n) for n in mine}

        tables = []
        for d in self.cfg["dsns"]:
            path = self.dbfile(d)
            if not os.path.exists(path):
                continue

            def rd():
                c = self._ro(path)
                try:
                    out = []
                    for (tn,) in c.execute("select name from sqlite_master where type='table'").fetchall():
                        rows = c.execute('select "id","v" from "%s"' % tn.replace('"', '""')).fetchall()
                        out.append({"d": d, "t": tn, "rows": [{"k": k, "v": v} for k, v in rows]})
                    return out
                finally:
                    c.close()
            tables += self._retry(rd)
        return {"restricted": restricted, "dgrant": dg, "tgrant": tg, "tables": tables}


def private_overlay(sd):
    """vf.make_overlay + private copies of the two generated files (the shared cache is pruned by other checks running
    at the same time; a pruned file between generation and `go build` would be a spurious exit 2)"""
    import shutil
    for attempt in range(3):
        ov = vf.make_overlay(sd, [])
        j = json.load(open(ov))
        try:
            for k, v in list(j["Replace"].items()):
                if v.startswith(vf.CACHE):
                    dst = os.path.join(sd, os.path.basename(v))
                    shutil.copy(v, dst)
                    j["Replace"][k] = dst
            json.dump(j, open(ov, "w"), indent=1)
            return ov
        except OSError:
            continue
    raise vf.NoVerdict("generated build files keep disappearing from the shared cache")


def outcome(status):
    if 200 <= status < 300:
        return "ok"
    if status in (401, 403):
        return "denied"
    return "error:%d" % status


def replay_one(real, bid, beh, log):
    """replay one TLC behaviour; returns (steps_done, findings, observations)"""
    real.begin(bid)
    real.setup(beh[0]["st"])
    obs_all, findings = [], []
    try:
        obs = {"out": "ok", "status": 0, "st": real.project()}
        f0 = judge({"call": {"kind": "init", "u": "", "d": "", "t": "", "p": "", "k": 0, "v": 0, "b": False}, "st": beh[0]["st"]}, obs)
        obs_all.append(obs)
        if f0:
            return 0, [(k, key.replace("state/init", "state/setup"), what, 0) for k, key, what in f0], obs_all
        n = 0
        for i, step in enumerate(beh[1:], 1):
            if step["call"]["kind"] == "end":
                break
            r = real.perform(step["call"])
            obs = {"out": outcome(r.status), "status": r.status, "st": real.project(), "body": r.body[:300]}
            obs_all.append(obs)
            n += 1
            fs = judge(step, obs)
            if fs:
                findings += [(k, key, what, i) for k, key, what in fs]
                break
        return n, findings, obs_all
    finally:
        real.teardown()


def worker(sd, ego, mode, cfg, idx, jobs, out, lock):
    real = Real(sd, ego, mode, cfg, idx)
    real.start()
    try:
        for bid, beh in jobs:
            n, findings, obs = replay_one(real, bid, beh, None)
            with lock:
                out.append({"bid": bid, "mode": mode, "steps": n, "findings": findings, "obs": obs})
            if not real.srv.alive():
                raise vf.NoVerdict("ego server died during behaviour %d\n%s" % (bid, real.srv.log_text()[-2000:]))
    finally:
        real.stop()


def concrete(beh, upto):
    """human-readable request list of a behaviour prefix (for the replay file)"""
    out = []
    for s in beh[1:upto + 1]:
        c = s["call"]
        if c["kind"] == "req":
            out.append("%s: %s %s.%s%s -> model %s, statement allows %s [%s]" % (c["u"], c["p"], c["d"], c["t"],
                       (" id=%d v=%d" % (c["k"], c["v"])) if c["k"] else "", c["out"], sorted(c["allowed"]), c["zone"]))
        elif c["kind"] != "end":
            out.append("root: %s %s" % (c["kind"], json.dumps({k: c[k] for k in ("u", "d", "t", "p", "b") if c[k] not in ("", False) or k == "b" and c["kind"] == "setrestricted"})))
    return out


def gen(chk, sd, num, depth, seed, name):
    cfgtxt = open(os.path.join(vf.VERIF, "spec", SPEC, "TableGrants_Gen.cfg")).read()
    cfgtxt = re.sub(r"Depth = \d+", "Depth = %d" % depth, cfgtxt)
    r = vf.tlc(SPEC, "TableGrants_Gen", "gen_run.cfg", sd, workers=1, simulate="num=%d" % num, depth=depth + 3,
               seed=seed, timeout=3000, files={"gen_run.cfg": cfgtxt})
    if r.violated or r.error or r.rc != 0:
        raise vf.NoVerdict("behaviour generation failed: %s %s\n%s" % (r.violated, r.error, r.stdout[-2000:]))
    behs = [b for b in r.records if isinstance(b, list) and b and b[-1]["call"]["kind"] == "end"]
    if len(behs) < num:
        raise vf.NoVerdict("generator produced %d of %d behaviours" % (len(behs), num))
    return r, behs


def run_replay(path):
    """bin/verif check C43 --replay replays/C43-....json : re-run one recorded history against a real server"""
    rp = json.load(open(path))["replay"]
    beh = rp["behaviour"] + [{"call": {"kind": "end"}, "st": rp["behaviour"][-1]["st"]}]
    chk = vf.Check(PROP)
    with vf.scratch() as sd:
        ego = vf.build_ego(sd, private_overlay(sd))
        out, lock = [], threading.Lock()
        worker(sd, ego, rp.get("mode", "file"), beh[0]["cfg"], 0, [(0, beh)], out, lock)
        for kind, key, what, at in out[0]["findings"]:
            print("%s %s: %s" % (kind.upper(), key, what), flush=True)
            if kind == "violation":
                chk.violation(key, what, dict(rp, observed=out[0]["obs"][at]))
        print("replayed %d steps on a %s-store server" % (out[0]["steps"], rp.get("mode", "file")), flush=True)
        chk.cov.update(states=1, transitions=1, traces_validated_against_impl=1, evaluations=out[0]["steps"],
                       rule="single recorded history replayed (--replay)")
        chk.sample({"kind": "replayed history", "requests": concrete(beh, len(beh) - 2)})
    return chk.finish()


def run():
    if os.environ.get("VERIF_REPLAY"):
        return run_replay(os.environ["VERIF_REPLAY"])
    thorough = vf.TIER == "thorough"
    chk = vf.Check(PROP)
    chk.assumptions += [
        "histories are sequential (one request at a time per server), as the property's quantifier says; concurrent requests are not explored",
        "the permission store is available: table_perms lives in a SQLite file named by ego.server.userdata (when that setting is unset and --users names a JSON file, "
        "the code treats the store as unavailable and Authorized() allows everything - outside the quantifier)",
        "SQLite DSNs only (no PostgreSQL offline); grants are issued by root; requests are well-formed (tables exist, rows exist for update/delete)",
        "for create/drop the 'matching grant' is read as DSN-admin standing on exactly that DSN (dsns_auth record or identity-wide ego.dsn.admin), as the code and docs/SERVER.md define it",
        "where the matching grant IS recorded the statement allows both answers; there the code-shaped model's prediction (DSN-level grant also needed) is compared and a difference is reported as no-verdict, not as a violation",
        "@sql, @transaction, the tables list and ?transaction= requests are not driven"]
    with vf.scratch() as sd:
        nsrv = 8 if thorough else 4
        nbeh = (8 * 120) if thorough else 64
        depth = 60 if thorough else 40
        ngen = 8 if thorough else 1
        pool = ThreadPoolExecutor(max_workers=14)
        # everything that does not depend on anything else runs side by side
        f_build = pool.submit(lambda: vf.build_ego(sd, private_overlay(sd)))
        f_mc = pool.submit(vf.tlc, SPEC, "TableGrants", "TableGrants_MC.cfg" if thorough else "TableGrants_MCq.cfg", sd,
                           workers=8 if thorough else 4, timeout=2400)
        f_mc3 = pool.submit(vf.tlc, SPEC, "TableGrants", "TableGrants_MC3.cfg", sd, workers=8, timeout=2400) if thorough else None
        f_neg = {v: pool.submit(vf.tlc, SPEC, "TableGrants", "TableGrants_MC_%s.cfg" % v, sd, workers=2, timeout=600)
                 for v in ("anyuser", "inverted")}
        per = nbeh // ngen
        f_gen = [pool.submit(gen, chk, sd, per, depth, vf.SEED * 1000 + i, "gen%d" % i) for i in range(ngen)]

        # 1. the design satisfies C43 (exhaustive at the stated bound)
        r = vf.tlc_ok(f_mc.result(), "TableGrants MC")
        chk.add_tlc(r, "MC asis (exhaustive to MaxSteps)")
        if f_mc3:
            chk.add_tlc(vf.tlc_ok(f_mc3.result(), "TableGrants MC3"), "MC asis, 3 users incl. identity-wide dsn.admin, with row content")
        # 2. negative controls (vacuity guard)
        for v, f in f_neg.items():
            rn = f.result()
            if rn.violated not in ("DecisionSound", "NoUngrantedAccess", "Isolation"):
                raise vf.NoVerdict("negative control %s: the historic defect did not violate the invariants (%s %s)" % (v, rn.violated, (rn.error or "")[:300]))
            chk.add_tlc(rn, "negative control Impl=%s violates %s" % (v, rn.violated), count_states=False)
        # 3. R: TLC behaviours replayed on real servers
        behs = []
        for f in f_gen:
            rg, b = f.result()
            chk.add_tlc(rg, "generator (simulation, RandomElement-weighted)", count_states=False)
            behs += b
        cfg = behs[0][0]["cfg"]
        ego = f_build.result()
        jobs = [[] for _ in range(nsrv)]
        for i, b in enumerate(behs):
            jobs[i % nsrv].append((i, b))
        results, lock = [], threading.Lock()
        futs = [pool.submit(worker, sd, ego, "file" if i % 2 == 0 else "db", cfg, i, jobs[i], results, lock) for i in range(nsrv)]
        for f in futs:
            f.result()
        pool.shutdown()
        results.sort(key=lambda x: x["bid"])
        if len(results) != len(behs):
            raise vf.NoVerdict("replay stopped early: %d of %d behaviours" % (len(results), len(behs)))

        zones, pairs, steps = collections.Counter(), set(), 0
        drift, errors = [], []
        for res in results:
            beh = behs[res["bid"]]
            steps += res["steps"]
            for i in range(1, res["steps"] + 1):
                c = beh[i]["call"]
                o = res["obs"][i]
                if c["kind"] == "req":
                    zones[(c["zone"], "tab" if c["p"] in ("create", "drop") else "row", o["out"], res["mode"])] += 1
                pairs.add(hashlib.md5(json.dumps([canon(beh[i - 1]["st"]), {k: c[k] for k in ("kind", "u", "d", "t", "p", "k", "v", "b")}], sort_keys=True).encode()).hexdigest())
            for kind, key, what, at in res["findings"]:
                rep = {"mode": res["mode"], "step": at, "requests": concrete(beh, at), "observed": res["obs"][at] if at < len(res["obs"]) else None,
                       "expected_state": beh[at]["st"], "behaviour": beh[:at + 1]}
                if kind == "violation":
                    chk.violation(key, "[%s stores] %s" % (res["mode"], what), rep)
                elif kind == "drift":
                    drift.append((key, what, res["mode"]))
                else:
                    errors.append((key, what, res["mode"]))
        chk.cov["traces_validated_against_impl"] = len(results)
        chk.cov["evaluations"] = steps
        chk.cov["distinct_nontrivial"] = len(pairs)
        zsum = collections.Counter()
        for (z, kind, out, mode), n in zones.items():
            zsum["%s/%s/%s" % (z, kind, out)] += n
        chk.cov["request_zones"] = dict(sorted(zsum.items()))
        chk.cov["request_zones_by_store"] = {m: sum(n for (z, k, o, mm), n in zones.items() if mm == m) for m in ("file", "db")}
        b0 = behs[0]
        chk.sample({"kind": "replayed history (first 12 requests)", "requests": concrete(b0, 12)})
        chk.cov["rule"] = ("histories = TLC simulation of TableGrants_Gen (one RandomElement-chosen successor per step, weights = disjuncts of GenNext); "
                           "evaluations = requests executed on real servers with status class and all four projected stores compared; "
                           "distinct_nontrivial = distinct (specification state before, request) pairs executed")
        chk.cov["exhaustive"] = False
        if chk.cands:
            return chk.finish()
        if errors:
            raise vf.NoVerdict("a request answered neither success nor a denial: %s" % (errors[:3],))
        if drift:
            raise vf.NoVerdict("the code-shaped model does not predict the real answer where the statement allows both (model drift, not a violation): %s" % (drift[:3],))
        # vacuity guards: every zone the statement talks about was actually exercised on the real servers
        need = {"granted/row/ok": 20, "nogrant-other/row/denied": 20, "nogrant/row/denied": 20, "open/row/ok": 20, "root/row/ok": 10,
                "granted/tab/ok": 3, "nogrant/tab/denied": 5, "open/tab/ok": 3, "root/tab/ok": 3}
        short = {k: (zsum.get(k, 0), n) for k, n in need.items() if zsum.get(k, 0) < n}
        if short:
            raise vf.NoVerdict("replay too thin (have, need): %s" % short)
        # 4. binding self-test: perturb expected values on recorded observations; the comparer must reject each
        rng = random.Random(vf.SEED)
        cands_ok, cands_deny, cands_st = [], [], []
        for res in results:
            beh = behs[res["bid"]]
            for i in range(1, res["steps"] + 1):
                c, o = beh[i]["call"], res["obs"][i]
                if c["kind"] == "req" and c["allowed"] == ["ok"] and o["out"] == "ok":
                    cands_ok.append((beh[i], o))
                if c["kind"] == "req" and c["allowed"] == ["denied"] and o["out"] == "denied":
                    cands_deny.append((beh[i], o))
                if any(g["u"] != cfg["root"] for g in beh[i]["st"]["tgrant"]):
                    cands_st.append((beh[i], o))
        if not (cands_ok and cands_deny and cands_st):
            raise vf.NoVerdict("self-test: no suitable recorded steps")
        s, o = rng.choice(cands_ok)
        s2 = json.loads(json.dumps(s)); s2["call"]["allowed"] = ["denied"]
        t1 = any(k == "violation" and key.startswith("req/") for k, key, _ in judge(s2, o))
        s, o = rng.choice(cands_deny)
        o2 = dict(o); o2["out"] = "ok"; o2["status"] = 200
        t2 = any(k == "violation" and key.startswith("req/") for k, key, _ in judge(s, o2))
        s, o = rng.choice(cands_st)
        s3 = json.loads(json.dumps(s))
        g = next(g for g in s3["st"]["tgrant"] if g["u"] != cfg["root"])
        s3["st"]["tgrant"].remove(g)
        t3 = any(k == "violation" and key.startswith("state/") for k, key, _ in judge(s3, o))
        if not (t1 and t2 and t3):
            raise vf.NoVerdict("binding self-test failed: perturbed expectation accepted (%s %s %s)" % (t1, t2, t3))
        chk.cov["binding_selftest"] = "perturbed allowed-set, perturbed real outcome and perturbed expected grant store all rejected"
    return chk.finish()

"""C35 - langlint formatting never changes the message table.
spec/LangFile: LangFile (character-level models of the compiler and of langlint, the contract), LangFile_MC (exhaustive
enumeration of files over the line alphabet, contract on the models, emits the files), LangFile_Trace (contract on logged
I/O of the real tools).  Stages: MC fixed + file generation ; negative control (as-is model) ; real lintFile (tools/langlint)
and real compileFile (tools/lang) on every enumerated file ; TLC judges every record ; self-test with known-bad records."""
import json, os
from concurrent.futures import ThreadPoolExecutor
import vf

PROP = "C35"
SPEC = "LangFile"
HARNESS = [("langfile/lint_test.go", "tools/langlint/zz_verif_langfile_test.go"),
           ("langfile/compile_test.go", "tools/lang/zz_verif_langfile_test.go")]
CHUNK = 20000
SELFTEST = 10000000


def judge(sd, path, name):
    r = vf.tlc(SPEC, "LangFile_Trace", "LangFile_Trace.cfg", sd, workers=1, files={"io.ndjson": path}, timeout=1500)
    if r.error or r.violated or r.rc != 0:
        raise vf.NoVerdict("contract evaluation failed (%s): %s %s\n%s" % (name, r.violated, r.error, r.stdout[-2500:]))
    rep = [x for x in r.records if isinstance(x, dict) and "bad" in x and "n" in x]
    if not rep:
        raise vf.NoVerdict("LangFile_Trace printed no report (%s)\n%s" % (name, r.stdout[-1500:]))
    rep = rep[-1]
    for k in ("bad", "compile_model_mismatch"):
        if not isinstance(rep[k], list):
            rep[k] = []
    return r, rep


def run():
    thorough = vf.TIER == "thorough"
    chk = vf.Check(PROP)
    ws = "tab" if vf.SEED % 2 == 0 else "space"
    chk.assumptions += [
        "files are enumerated over a 30-line alphabet of character-token lines (spec/LangFile/LangFile.tla), nested bounds: "
        + ("<=3 lines over all 30, <=4 over 16, <=5 over 8, <=6 over 5" if thorough else "<=2 lines over all 30, <=3 over 12, <=4 over 7"),
        "plus a sampled family of long sections (TLC simulation, seed = VERIF_SEED): one section of 13..41 lines, 10 key spellings of 6 keys, "
        "message = entry number, so that equal keys occur at many distances in sections long enough for a sort routine to change algorithm",
        "white space is one class; its concrete representative in this run is a %s (VERIF_SEED parity)" % ws,
        "'a duplicate key whose winner could be affected' = a key (as the compiler sees it) defined at least twice with different messages "
        "within one run of entry lines not interrupted by a header or comment; 'reported' = some duplicate-key warning lists at least two of its lines",
        "the table clauses apply when the real compiler accepts the original file (otherwise there is no table of the original)",
        "the real compiler is tools/lang compileFile (one language file, language 'xx'); the real formatter is tools/langlint lintFile on a real file"]
    with vf.scratch() as sd:
        pool = ThreadPoolExecutor(max_workers=4)
        # negative control runs beside the generation
        neg = pool.submit(vf.tlc, SPEC, "LangFile_MC", "LangFile_MC_asis.cfg", sd, workers=2, timeout=900)
        # long-section family (one section of 13..40 entries, many duplicates of few keys): seeded TLC simulation, beside the rest
        lng = pool.submit(vf.tlc, SPEC, "LangFile_Long", "LangFile_Long.cfg", sd, workers=1,
                          simulate="num=%d" % (20 if thorough else 4), depth=42, seed=vf.SEED, timeout=2400)
        # 1. contract on the models (fixed), exhaustive at the tier's bounds; the same run emits every file
        r = vf.tlc_ok(vf.tlc(SPEC, "LangFile_MC", "LangFile_MC.cfg" if thorough else "LangFile_MCq.cfg", sd,
                             workers=min(vf.NCPU, 8), timeout=2400), "LangFile MC")
        chk.add_tlc(r, "MC: contract on the fixed models + enumeration of files")
        files = [x for x in r.records if isinstance(x, dict) and ("lines" in x or "alphabet" in x)]
        alpha = [x for x in files if "alphabet" in x]
        if len(alpha) != 1 or len(files) != r.distinct:
            raise vf.NoVerdict("generation incomplete: %d records for %d states" % (len(files), r.distinct))
        files = alpha + sorted((x for x in files if "lines" in x), key=lambda x: (len(x["lines"]), x["lines"]))
        nshort = len(files) - 1
        rl = vf.tlc_ok(lng.result(), "LangFile_Long simulation")
        chk.add_tlc(rl, "long-section family: contract on the fixed models + generation (simulation, seeded)", count_states=False)
        longs = {json.dumps(x, sort_keys=True): x for x in rl.records if isinstance(x, dict) and "toks" in x}
        longs = [longs[k] for k in sorted(longs)]
        if len(longs) < 50 or max(len(x["toks"]) for x in longs) < 40:
            raise vf.NoVerdict("long-section family too small: %d files" % len(longs))
        files += longs
        fin = vf.write_ndjson(os.path.join(sd, "files.ndjson"), files)
        nfiles = len(files) - 1
        # 2. the real tools
        ov = vf.make_overlay(sd, HARNESS)
        s1 = os.path.join(sd, "stage1.ndjson")
        wdir = os.path.join(sd, "work")
        os.makedirs(wdir)
        p = vf.run_harness(sd, ov, "./tools/langlint/", "TestVerifLangFileLint",
                           {"VERIF_IN": fin, "VERIF_OUT": s1, "VERIF_DIR": wdir, "VERIF_WS": ws, "VERIF_WORKERS": "8"},
                           timeout=1500, expect_out=s1)
        if p.returncode != 0:
            raise vf.NoVerdict("langlint harness failed\n" + p.stdout[-3000:] + p.stderr[-2000:])
        io = os.path.join(sd, "io.ndjson")
        p = vf.run_harness(sd, ov, "./tools/lang/", "TestVerifLangFileCompile",
                           {"VERIF_IN": s1, "VERIF_OUT": io, "VERIF_DIR": os.path.join(wdir, "c")}, timeout=1500, expect_out=io)
        if p.returncode != 0:
            raise vf.NoVerdict("compiler harness failed\n" + p.stdout[-3000:] + p.stderr[-2000:])
        lines = open(io).read().splitlines()
        if len(lines) != nfiles:
            raise vf.NoVerdict("harness logged %d records for %d files" % (len(lines), nfiles))
        texts = {}
        for k, l in enumerate(open(s1)):
            if k < 400 or k % 997 == 0:
                o = json.loads(l)
                texts[o["id"]] = (o["textIn"], o.get("textAfter", ""))
        # 3. self-test records (known-bad I/O pairs) ride in the last chunk
        recs_iter = (json.loads(l) for l in lines)
        st, want, ndup = [], {}, 0
        for o in recs_iter:
            if o["lintOk"] and o["tin"]["ok"] and o["tout"]["tab"] and SELFTEST + 1 not in want:
                b = json.loads(json.dumps(o)); b["id"] = SELFTEST + 1
                b["tout"]["tab"][0]["v"] = b["tout"]["tab"][0]["v"] + ["x"]
                st.append(b); want[b["id"]] = "table-changed/"
            if o["lintOk"] and len(o["after"]) > 2 and SELFTEST + 2 not in want:
                b = json.loads(json.dumps(o)); b["id"] = SELFTEST + 2
                b["after2"] = b["after2"][1:]
                st.append(b); want[b["id"]] = "not-idempotent/"
            if o["lintOk"] and o["tin"]["ok"] and o["dups"] and ndup < 12:
                ndup += 1                      # which of them has a duplicate "at risk" is for the contract to say: one must be rejected
                b = json.loads(json.dumps(o)); b["id"] = SELFTEST + 100 + ndup
                b["dups"] = []
                st.append(b)
            if not o["lintOk"] and SELFTEST + 4 not in want:
                b = json.loads(json.dumps(o)); b["id"] = SELFTEST + 4
                b["after"] = b["after"] + [[]]
                st.append(b); want[b["id"]] = "touched-on-failure/"
            if len(want) == 3 and ndup == 12:
                break
        if len(want) != 3 or ndup == 0:
            raise vf.NoVerdict("self-test: enumeration has no record to corrupt (%s, %d with duplicate warnings)" % (sorted(want), ndup))
        chunks = [lines[k:k + CHUNK] for k in range(0, len(lines), CHUNK)]
        chunks[-1] = chunks[-1] + [json.dumps(b) for b in st]
        paths = []
        for k, c in enumerate(chunks):
            pth = os.path.join(sd, "io-%03d.ndjson" % k)
            open(pth, "w").write("\n".join(c) + "\n")
            paths.append(pth)
        results = list(pool.map(lambda kp: judge(sd, kp[1], "chunk %d" % kp[0]), enumerate(paths)))
        nrec = agreeA = agreeF = 0
        bad, cmis = [], []
        for k, (rt, rep) in enumerate(results):
            chk.add_tlc(rt, "contract on real I/O, chunk %d" % k, count_states=False)
            nrec += int(rep["n"])
            agreeA += int(rep["lint_asis_model_agrees"]); agreeF += int(rep["lint_fixed_model_agrees"])
            bad += rep["bad"]; cmis += rep["compile_model_mismatch"]
        # self-test verdict
        got = {}
        for b in bad:
            if b["id"] > SELFTEST:
                got.setdefault(b["id"], []).append(b["key"])
        for i_, pref in want.items():
            if not any(k.startswith(pref) for k in got.get(i_, [])):
                raise vf.NoVerdict("binding self-test failed: known-bad record %d (%s) was not rejected (%s)" % (i_ - SELFTEST, pref, got.get(i_)))
        if not any(k.startswith("duplicate-not-reported/") for i_, ks in got.items() if i_ > SELFTEST + 100 for k in ks):
            raise vf.NoVerdict("binding self-test failed: no record with its duplicate warnings removed was rejected")
        chk.cov["binding_selftest"] = "4 known-bad records (changed table, non-idempotent, unreported duplicate, touched on failure) all rejected"
        cmis = [c for c in cmis if c <= SELFTEST]
        if cmis:
            raise vf.NoVerdict("the spec's Compile model disagrees with the real compiler on %d files, e.g. %s" %
                               (len(cmis), [files[c].get("lines") or files[c]["toks"] for c in sorted(cmis)[:5]]))
        real = [b for b in bad if b["id"] <= SELFTEST]
        byid = {}
        for b in real:
            byid.setdefault(b["key"], []).append(b["id"])
        for key, ids in sorted(byid.items()):
            fl = lambda i_: files[i_].get("lines") or files[i_]["toks"]
            ids.sort(key=lambda i_: (len(fl(i_)), json.dumps(fl(i_))))
            i0 = ids[0]
            o = json.loads(lines[i0 - 1])
            abc = files[0]["alphabet"]
            untok = lambda ls: "\n".join("".join({"S": " " if ws == "space" else "\t", "R": "\r"}.get(t, t) for t in l) for l in ls)
            ti, ta = untok(o["toks"] if o["long"] else [abc[x - 1] for x in o["lines"]]), untok(o["after"])
            chk.violation(key, "%d enumerated files fail this clause; smallest: text %r -> after langlint %r; table before %s after %s; duplicate warnings %s"
                          % (len(ids), ti, ta, json.dumps(o["tin"]), json.dumps(o["tout"]), o["dups"]),
                          {"lines": o["lines"], "text": ti, "record": o, "count": len(ids), "more": [fl(i_) for i_ in ids[1:6]]})
        rn = neg.result()
        pool.shutdown()
        if rn.violated != "Holds":
            raise vf.NoVerdict("negative control: the as-is langlint model did not violate the contract (%s %s)" % (rn.violated, rn.error))
        chk.add_tlc(rn, "negative control (as-is model: untrimmed keys) violates Holds", count_states=False)
        nlint = sum(1 for l in lines if '"lintOk":true' in l)
        ncomp = sum(1 for l in lines if '"tin":{"ok":true' in l)
        chk.cov["traces_validated_against_impl"] = nrec - len(st)
        chk.cov["evaluations"] = nrec - len(st)
        chk.cov["distinct_nontrivial"] = nlint
        chk.cov["files"] = nfiles
        chk.cov["files_exhaustive_family"] = nshort
        chk.cov["files_long_section_family"] = len(longs)
        chk.cov["long_section_lengths"] = sorted({len(x["toks"]) for x in longs})
        chk.cov["files_langlint_accepted"] = nlint
        chk.cov["files_compiler_accepted"] = ncomp
        chk.cov["lint_model_agreement"] = {"asis": agreeA, "fixed": agreeF, "of": nrec - len(st)}
        chk.cov["whitespace"] = ws
        for i_ in (5, 200, 2000):
            if i_ in texts:
                chk.sample({"kind": "enumerated file", "text": texts[i_][0], "after_langlint": texts[i_][1]})
        chk.cov["rule"] = ("files = every state of LangFile_MC (exhaustive at the nested bounds); each is formatted by the real lintFile twice and compiled by the "
                           "real compileFile before/after; every record judged by the TLA+ contract (LangFile_Trace); non-trivial = files langlint accepted")
        chk.cov["exhaustive"] = True    # the <=N-line family; the long-section family is sampled (seeded TLC simulation)
    return chk.finish()

"""C14 - table REST requests cannot inject SQL.

spec/SqlFilter:  SqlFilter (contract: documented filter meaning Eval, what a request may touch/read/change),
                 SqlFilter_Gen (bounded request space), SqlFilter_Trace (judges logged request/outcome pairs),
                 SqlLit (+_Gen): how string values are embedded as SQL literals and read back by SQLite's lexer.
Stages: MC of SqlLit (repair design) ; negative controls (as-is design) ; TLC enumerates/samples requests and turns
the as-is model's counterexamples into requests ; every request is sent to a REAL `ego server` over a SQLite database
that holds other tables ; observed: status, rows, table contents afterwards, every statement the server executed
(server SQL log) with the tables SQLite's authorizer reports for it, other tables' contents ; SqlFilter_Trace (TLC)
judges every pair ; binding self-test (corrupted outcomes must be rejected).
"""
import glob, json, os, random, re, sqlite3, threading, time, urllib.parse
import vf, egosrv

PROP = "C14"
SPEC = "SqlFilter"
DSN = "d1"

# ------------------------------------------------------------------ concretiser (atoms -> texts)
ATOM = {"q": "'", "d": '"', "s": ";", "k": " --", "p": ")", "o": " OR 1=1", "u": " UNION SELECT k,v FROM secrets",
        "x": "a", "y": "b", "b": "\\", "1": "1", "z": "(SELECT count(*) FROM secrets)"}
TRAIL = {"close": ")", "or": " OR 1=1", "orq": ") OR ((1=1'", "comma": ",", "word": " garbage"}
TBL = {"plain": "t1", "upper": "T1", "quoted": '"t1"', "main": "main.t1",
       "list": "t1,secrets", "cmt": "t1 --", "union": "t1 WHERE 1=0 UNION SELECT k,v FROM secrets --",
       "stack": "t1;DROP TABLE secrets"}
COL = {"id": "id", "name": "name", "cntinj": "count(*) FROM secrets --", "qinj": 'k" FROM secrets --',
       "nosuch": "nosuch", "subq": "(SELECT v FROM secrets)"}
SORT = {"id": "id", "~id": "~id", "name": "name", "id,name": "id,name",
        "sub": "(SELECT v FROM secrets)", "stack": "id;DELETE FROM secrets;--", "lim": "id LIMIT 1 --",
        "case": "CASE WHEN (SELECT count(*) FROM secrets)>0 THEN id ELSE name END"}
LIMIT = {"1": "1", "2": "2", "1000": "1000", "stack": "1;DROP TABLE secrets", "off": "2 OFFSET 0 --"}
START = {"1": "1", "2": "2", "7": "7", "stack": "1;DROP TABLE secrets"}
KEY = {"name": "name", "kq": 'na"me', "kinj": 'name") SELECT k,v FROM secrets --'}
TABLE0 = [(1, ["x"]), (2, ["y"]), (3, ["x", "q"]), (4, ["o", "p", "k"]), (5, ["p", "u", "k"]), (6, ["q", "x"])]
SEED_OTHERS = {"secrets": ("k TEXT, v TEXT", [("pw", "hunter2"), ("api", "s3cr3t")]),
               "audit": ("n INTEGER, who TEXT", [(1, "root")])}
TXOPS = ("txrows", "txdelete", "txupdate", "txinsert")


def text(atoms):
    return "".join(ATOM[a] for a in atoms)


def lit(leaf, qs):
    sg = leaf.get("sg", "")
    if leaf["col"] == "id":
        return sg + str(leaf["iv"])
    s = text(leaf["sv"])
    if qs == "bt" and "`" not in s:
        return sg + "`" + s + "`"
    if qs == "sq":
        return sg + "'" + s + "'"      # as a client would type it: the docs define no escapes inside single quotes
    return sg + '"' + s.replace("\\", "\\\\").replace('"', '\\"') + '"'


def leaf_text(leaf, qs):
    return "%s(%s,%s)" % (leaf["op"], leaf["col"], lit(leaf, qs))


def filter_text(f, qs):
    k = f["k"]
    if k == "leaf":
        return leaf_text(f["l"], qs)
    if k == "not":
        return "NOT(%s)" % leaf_text(f["l"], qs)
    return "%s(%s,%s)" % (k.upper(), leaf_text(f["l"], qs), leaf_text(f["r"], qs))


def concretise(req):
    """abstract request (a record of SqlFilter_Gen) -> (method, path, body)"""
    op = req["op"]
    flts = [filter_text(f, req["qs"]) for f in req["flt"]]
    if flts and req.get("trail", "-") != "-":
        flts[-1] += TRAIL[req["trail"]]
    tbl = TBL[req["tbl"]]
    payload = None
    if req["setv"] or op in ("update", "insert", "txupdate", "txinsert"):
        payload = {"name": text(req["setv"])}
        if op in ("insert", "txinsert"):
            payload["id"] = 7
        if req["key"] != "name":
            payload[KEY[req["key"]]] = "z"
    if op in TXOPS:
        if req["join"] == "comma" and len(flts) > 1:
            flts = [",".join(flts)]
        task = {"operation": {"txrows": "readrows", "txdelete": "delete", "txupdate": "update", "txinsert": "insert"}[op],
                "table": tbl}
        if flts:
            task["filters"] = flts
        if req["cols"]:
            task["columns"] = [COL[c] for c in req["cols"]]
        if payload is not None:
            task["data"] = payload
        return "POST", "/dsns/%s/tables/@transaction" % DSN, [task]
    q = []
    if op == "aread":
        q.append(("abstract", "true"))
    if flts:
        if req["join"] == "params":
            q += [("filter", f) for f in flts]
        else:
            q.append(("filter", ",".join(flts)))
    if req["cols"]:
        q.append(("columns", ",".join(COL[c] for c in req["cols"])))
    if req["sort"] != "-":
        q.append(("sort", SORT[req["sort"]]))
    if req["limit"] != "-":
        q.append(("limit", LIMIT[req["limit"]]))
    if req["start"] != "-":
        q.append(("start", START[req["start"]]))
    path = "/dsns/%s/tables/%s/rows" % (DSN, urllib.parse.quote(tbl, safe=""))
    if q:
        path += "?" + "&".join("%s=%s" % (k, urllib.parse.quote(v, safe="")) for k, v in q)
    method = {"read": "GET", "aread": "GET", "delete": "DELETE", "update": "PATCH", "insert": "PUT"}[op]
    return method, path, payload


def base_req(op):
    return {"op": op, "tbl": "plain", "flt": [], "join": "array" if op in TXOPS else "comma", "qs": "dq", "cols": [],
            "sort": "-", "limit": "-", "start": "-", "trail": "-",
            "setv": ["y"] if op in ("update", "insert", "txupdate", "txinsert") else [], "key": "name"}


def cand_requests(cands, ops=("read", "delete", "txupdate")):
    """a counterexample of the as-is SqlLit model (a list of values) -> EQ(name, value) filter lists"""
    out = []
    for c in cands:
        for op in ops:
            r = base_req(op)
            r["flt"] = [{"k": "leaf", "l": {"op": "EQ", "col": "name", "iv": 0, "sv": v, "sg": ""},
                         "r": {"op": "EQ", "col": "name", "iv": 0, "sv": v, "sg": ""}} for v in c["vals"]]
            r["pred"] = c["kind"]
            out.append(r)
    return out


# ------------------------------------------------------------------ the database and its observers
def seed_db(con):
    cur = con.cursor()
    cur.execute("BEGIN IMMEDIATE")
    try:
        for t in ["t1"] + list(SEED_OTHERS):
            cur.execute('DROP TABLE IF EXISTS "%s"' % t)
        cur.execute('CREATE TABLE "t1"("id" INTEGER, "name" TEXT)')
        cur.executemany('INSERT INTO "t1" VALUES (?,?)', [(i, text(n)) for i, n in TABLE0])
        for t, (cols, rows) in SEED_OTHERS.items():
            cur.execute('CREATE TABLE "%s"(%s)' % (t, cols))
            cur.executemany('INSERT INTO "%s" VALUES (%s)' % (t, ",".join("?" * len(rows[0]))), rows)
        cur.execute("COMMIT")
    except Exception:
        cur.execute("ROLLBACK")
        raise


class Observer:
    """Which tables does a statement open?  Asked of SQLite itself: the statement text captured from the server is
    compiled (EXPLAIN, never run) against a pristine copy of the schema with an authorizer callback installed."""
    ACT = {}
    for _n, _k in (("SQLITE_READ", "read"), ("SQLITE_UPDATE", "write"), ("SQLITE_DELETE", "write"), ("SQLITE_INSERT", "write"),
                   ("SQLITE_DROP_TABLE", "ddl"), ("SQLITE_CREATE_TABLE", "ddl"), ("SQLITE_ALTER_TABLE", "ddl"),
                   ("SQLITE_CREATE_INDEX", "ddl"), ("SQLITE_DROP_INDEX", "ddl"), ("SQLITE_CREATE_VIEW", "ddl"),
                   ("SQLITE_DROP_VIEW", "ddl"), ("SQLITE_CREATE_TRIGGER", "ddl"), ("SQLITE_DROP_TRIGGER", "ddl"),
                   ("SQLITE_ANALYZE", "ddl"), ("SQLITE_ATTACH", "ddl"), ("SQLITE_DETACH", "ddl")):
        if hasattr(sqlite3, _n):
            ACT[getattr(sqlite3, _n)] = _k

    CANON = {t.lower(): t for t in ["t1"] + list(SEED_OTHERS)}

    def __init__(self):
        self.con = sqlite3.connect(":memory:", isolation_level=None, cached_statements=0)
        seed_db(self.con)
        self.seen = []
        self.con.set_authorizer(self._auth)
        self.cache = {}

    def _auth(self, action, a1, a2, dbname, src):
        k = self.ACT.get(action)
        if k and a1:
            # READ/UPDATE: a1 = table, a2 = column; DELETE/INSERT/DDL: a1 = table or object name
            self.seen.append((k, a1 if action != getattr(sqlite3, "SQLITE_ALTER_TABLE", -1) else a2))
        return sqlite3.SQLITE_OK

    @staticmethod
    def split(sql):
        out, start = [], 0
        for i, ch in enumerate(sql):
            if ch == ";" and sqlite3.complete_statement(sql[start:i + 1]):
                out.append(sql[start:i + 1])
                start = i + 1
        if sql[start:].strip():
            out.append(sql[start:])
        return out

    def tables(self, sql):
        """-> (set of table names opened by the statements that compile, number of statements that compile)"""
        if sql in self.cache:
            return self.cache[sql]
        names, compiled = set(), 0
        for piece in self.split(sql):
            self.seen = []
            ok = False
            try:
                self.con.execute("EXPLAIN " + piece).fetchall()
                ok = True
            except sqlite3.ProgrammingError as ex:
                ok = "bindings" in str(ex)       # compiled; only the $n placeholders are unbound
            except sqlite3.Error:
                ok = False
            if ok:
                compiled += 1
                names |= {self.CANON.get(t.lower(), t) for _k, t in self.seen}      # SQLite table names are case-insensitive
        self.cache[sql] = (names, compiled)
        return self.cache[sql]


REV = None


def atoms_of(s, extra):
    """concrete text -> atom sequence (only texts the run knows: row contents and this request's payload value)"""
    global REV
    if REV is None:
        REV = {text(n): n for _i, n in TABLE0}
    if s in REV:
        return REV[s]
    for e in extra:
        if text(e) == s:
            return e
    return ["?"]


def read_table(con, extra):
    try:
        rows = con.execute('SELECT "id","name" FROM "t1"').fetchall()
    except sqlite3.Error:
        return [{"id": -1, "name": ["?"]}]
    out = []
    for i, n in rows:
        out.append({"id": i if isinstance(i, int) and 1 <= i <= 7 else -1,
                    "name": atoms_of(n, extra) if isinstance(n, str) else ["?"]})
    return out


def others_changed(con):
    bad = []
    for t, (_c, rows) in SEED_OTHERS.items():
        try:
            got = con.execute('SELECT * FROM "%s"' % t).fetchall()
        except sqlite3.Error:
            bad.append(t)
            continue
        if sorted(map(tuple, got)) != sorted(rows):
            bad.append(t)
    return bad


def proj_rows(resp, op, extra):
    """response body -> (cols, colsknown, rows projected on id/name, count)"""
    j = resp.json()
    if not isinstance(j, dict):
        return [], False, [], -1
    count = j.get("count") if isinstance(j.get("count"), int) else -1
    rows, cols, known = [], [], False
    raw = j.get("rows")
    if op == "aread":
        cdefs = j.get("columns") or []
        cols = [c.get("name") if isinstance(c, dict) else str(c) for c in cdefs]
        known = isinstance(j.get("columns"), list)
        dicts = [dict(zip(cols, r)) for r in (raw or []) if isinstance(r, list)]
    else:
        dicts = [r for r in (raw or []) if isinstance(r, dict)]
        if isinstance(j.get("columns"), list):
            cols, known = [str(c) for c in j["columns"]], True
        elif dicts:
            cols, known = sorted(dicts[0].keys()), True
    for r in dicts:
        i, n = 0, ["-"]
        if "id" in r:
            v = r["id"]
            i = v if isinstance(v, int) and not isinstance(v, bool) and 1 <= v <= 7 else -1
        if "name" in r:
            n = atoms_of(r["name"], extra) if isinstance(r["name"], str) else ["?"]
        rows.append({"id": i, "name": n})
    return [str(c) for c in cols], known, rows, count


# ------------------------------------------------------------------ driving one real server
class Target:
    def __init__(self, sd, ego, idx):
        self.srv = egosrv.Server(sd, ego, users={"admin": ("secret", ["ego.root", "ego.logon"])},
                                 env={"EGO_LOG_FORMAT": "json", "EGO_DEFAULT_LOGGING": "sql,server"}, name="c14-%d" % idx)
        self.dbfile = os.path.join(self.srv.dir, "d1.db")
        self.con = None
        self.logf = None
        self.logbuf = ""

    def start(self):
        self.con = sqlite3.connect(self.dbfile, isolation_level=None, timeout=10, check_same_thread=False)
        seed_db(self.con)
        self.srv.start(wait=240)
        # generous timeouts: the first logon upgrades the stored credential to bcrypt, slow on a loaded machine
        r = self.srv.req("POST", "/services/admin/logon", auth=("admin", "secret"), timeout=300)
        self.tok = (r.json() or {}).get("token")
        if not self.tok:
            raise vf.NoVerdict("logon failed: %r %s" % (r, self.srv.log_text()[-1500:]))
        for attempt in range(4):      # on a badly overloaded machine the server has answered 400 "unexpected end of JSON input" here
            r = self.srv.req("POST", "/dsns/", {"name": DSN, "provider": "sqlite", "database": self.dbfile, "restricted": False},
                             token=self.tok, timeout=300)
            if r.status in (200, 201, 409):
                break
        else:
            raise vf.NoVerdict("cannot create DSN: %r" % r)
        r = self.srv.req("GET", "/dsns/%s/tables/t1/rows" % DSN, token=self.tok, timeout=300)
        if r.status != 200 or len((r.json() or {}).get("rows") or []) != len(TABLE0):
            raise vf.NoVerdict("baseline read of t1 through the server failed: %r" % r)
        self._open_log()
        self._drain()
        return self

    def stop(self):
        try:
            self.srv.stop()
        finally:
            if self.con:
                self.con.close()

    def _open_log(self):
        t0 = time.time()
        while time.time() - t0 < 10:
            fs = sorted(glob.glob(os.path.join(self.srv.dir, "server*.log")))
            if fs:
                self.logname = fs[-1]
                self.logf = open(self.logname, "r", errors="replace")
                return
            time.sleep(0.05)
        raise vf.NoVerdict("server log file not found")

    def _lines(self):
        chunk = self.logf.read()
        if not chunk:
            return []
        self.logbuf += chunk
        parts = self.logbuf.split("\n")
        self.logbuf = parts.pop()
        return parts

    def _drain(self):
        # the baseline request's own completion line must have been seen before the first judged request
        t0 = time.time()
        seen = 0
        while time.time() - t0 < 60:
            for l in self._lines():
                if '"log.server.request"' in l and "/rows" in l:
                    seen += 1
            if seen:
                return
            time.sleep(0.01)
        raise vf.NoVerdict("server log does not show request completion lines (logger 'server' off?)")

    def statements(self):
        """SQL texts the server sent to the DSN's database while serving the request just answered:
        every sql-class line up to this request's completion line (single sequential client)."""
        out = []
        t0 = time.time()
        while True:
            for l in self._lines():
                if not l.startswith("{"):
                    continue
                try:
                    o = json.loads(l)
                except ValueError:
                    continue
                m, a = o.get("msg"), o.get("args") or {}
                if m in ("log.sql.exec", "log.sql.query"):
                    out.append(a.get("sql", ""))
                elif m == "log.sql.metadata.query":
                    out.append("SELECT * FROM " + a.get("table", "") + " WHERE 1=0")
                elif m == "log.server.request":
                    return out
            if time.time() - t0 > 60:
                raise vf.NoVerdict("no completion line in the server log within 60 s")
            time.sleep(0.001)

    def run(self, req, obs):
        method, path, body = concretise(req)
        extra = [req["setv"]] if req["setv"] else []
        before = read_table(self.con, extra)
        resp = self.srv.req(method, path, body, token=self.tok, timeout=180)
        stmts = self.statements()
        touched, ncomp = set(), 0
        for s in stmts:
            t, c = obs.tables(s)
            touched |= t
            ncomp += c
        after = read_table(self.con, extra)
        others = others_changed(self.con)
        cols, known, rows, count = proj_rows(resp, req["op"], extra) if 200 <= resp.status <= 299 else ([], False, [], -1)
        key = lambda r: json.dumps(r, sort_keys=True)
        if others or sorted(map(key, after)) != sorted(map(key, [{"id": i, "name": n} for i, n in TABLE0])):
            seed_db(self.con)
        out = {"status": resp.status, "count": count, "cols": cols, "colsknown": known, "rows": rows, "after": after,
               "touched": sorted(touched), "others": others}
        return {"req": {k: v for k, v in req.items() if k != "pred"}, "before": before, "out": out,
                "concrete": {"method": method, "path": path, "body": body, "statements": stmts, "compiled": ncomp,
                             "response": resp.body[:600], "pred": req.get("pred", "")}}


def drive(sd, ego, reqs, nworkers):
    """send the requests to nworkers real servers (each its own database, sequential per server)"""
    res = [None] * len(reqs)
    errs = []

    def work(w):
        tg = Target(sd, ego, w)
        try:
            tg.start()
            obs = Observer()
            for i in range(w, len(reqs), nworkers):
                res[i] = tg.run(reqs[i], obs)
        except Exception as ex:
            errs.append("%s: %s" % (type(ex).__name__, ex))
        finally:
            tg.stop()
    th = [threading.Thread(target=work, args=(w,)) for w in range(nworkers)]
    [t.start() for t in th]
    [t.join() for t in th]
    if errs:
        raise vf.NoVerdict("driver failed: " + "; ".join(errs)[:1500])
    return res


# ------------------------------------------------------------------ judging
def keystr(k):
    return "%s/%s/%s" % (k["op"], "+".join(sorted(k["failing"])), "+".join(sorted(k["classes"])) or "plain")


def judge(chk, sd, recs, name):
    io = os.path.join(sd, "io-%s.ndjson" % re.sub(r"\W+", "_", name or "selftest"))
    with open(io, "w") as f:
        for r in recs:
            f.write(json.dumps({"req": r["req"], "before": r["before"], "out": r["out"]}) + "\n")
    return vf.fio_validate(chk, SPEC, "SqlFilter_Trace", "SqlFilter_Trace.cfg", sd, io, name=name, timeout=1500)


def build_ego(sd):
    """the ego binary for vf.REPO; the generated-file cache is shared and pruned by concurrent checks, so retry once"""
    for attempt in (1, 2):
        try:
            return vf.build_ego(sd, vf.make_overlay(sd, []))
        except vf.NoVerdict as ex:
            if attempt == 2 or "verif-cache" not in str(ex):
                raise
            time.sleep(1)


def par(jobs):
    out, errs = {}, {}

    def one(k, fn):
        t0 = time.time()
        try:
            out[k] = fn()
        except Exception as ex:
            errs[k] = ex
        vf.log("stage %s: %.1fs" % (k, time.time() - t0))
    th = [threading.Thread(target=one, args=kv) for kv in jobs.items()]
    [t.start() for t in th]
    [t.join() for t in th]
    for k, ex in errs.items():
        if isinstance(ex, vf.NoVerdict):
            raise ex
        raise vf.NoVerdict("%s failed: %r" % (k, ex))
    return out


def describe(rec):
    c = rec["concrete"]
    return ("%s %s %s -> HTTP %s; rows=%s; t1 afterwards=%s; tables opened=%s; other tables changed=%s; statements=%s"
            % (c["method"], c["path"], json.dumps(c["body"]) if c["body"] is not None else "", rec["out"]["status"],
               json.dumps(rec["out"]["rows"]), json.dumps(rec["out"]["after"]), rec["out"]["touched"], rec["out"]["others"],
               json.dumps(c["statements"])))[:1800]


def run():
    thorough = vf.TIER == "thorough"
    chk = vf.Check(PROP)
    chk.assumptions += [
        "SQLite only (no PostgreSQL offline); the caller is the server administrator, the DSN is unrestricted (authorization is C15/C43)",
        "tables opened by a statement = what SQLite's authorizer reports when the captured statement text is compiled against a pristine copy of the schema (python sqlite3); statements are captured from the server's own SQL log (logger 'sql'), which database.Exec/Query write before handing the text to the driver",
        "adversarial strings are compositions of nine text atoms (' \" ; -- ) ' OR 1=1' ' UNION SELECT ..' a b); other parameters come from fixed atom sets (see SqlFilter.tla)",
        "row order is not checked (not part of the statement); HAS/HASALL and .nil are outside the bounded grammar (SQLite rejects POSITION())"]
    with vf.scratch() as sd:
        if os.environ.get("VERIF_REPLAY"):
            return run_replay(chk, sd)
        nw = 4 if thorough else 2
        litw = 8 if thorough else 2
        jobs = {
            "ego": lambda: build_ego(sd),
            "mc": lambda: vf.tlc(SPEC, "SqlLit", "SqlLit_MC.cfg" if thorough else "SqlLit_MCq.cfg", sd, workers=litw, timeout=1500),
            "asis": lambda: vf.tlc(SPEC, "SqlLit", "SqlLit_MC_asis.cfg", sd, workers=2, timeout=1500),
            "gen": lambda: vf.tlc(SPEC, "SqlFilter_Gen", "SqlFilter_Gen.cfg" if thorough else "SqlFilter_Genq.cfg", sd, workers=1,
                                  seed=vf.SEED, timeout=1500),
            "cand": lambda: vf.tlc(SPEC, "SqlLit_Gen", "SqlLit_Gen.cfg" if thorough else "SqlLit_Genq.cfg", sd, workers=1,
                                   seed=vf.SEED, timeout=1500),
        }
        if thorough:
            jobs["asisv"] = lambda: vf.tlc(SPEC, "SqlLit", "SqlLit_MC_asis_value.cfg", sd, workers=2, timeout=1500)
        R = par(jobs)
        # 1. the repair design keeps literal boundaries and values (exhaustive at the bound)
        chk.add_tlc(vf.tlc_ok(R["mc"], "SqlLit MC"), "SqlLit MC, quote-doubling design: StructKept, ValuesKept")
        # 2. negative controls: the as-is screening design must violate both (vacuity guard)
        for nm, inv in (("asis", "StructKept"), ("asisv", "ValuesKept"))[:2 if thorough else 1]:
            if R[nm].violated != inv:
                raise vf.NoVerdict("negative control %s: expected TLC to violate %s, got %s %s" % (nm, inv, R[nm].violated, (R[nm].error or "")[:300]))
            chk.add_tlc(R[nm], "negative control (as-is screening) violates %s" % inv, count_states=False)
        # 3. the request space
        vf.tlc_ok(R["gen"], "request generator")
        vf.tlc_ok(R["cand"], "counterexample generator")
        chk.add_tlc(R["gen"], "SqlFilter_Gen (requests)", count_states=False)
        chk.add_tlc(R["cand"], "SqlLit_Gen (as-is counterexamples turned into requests)", count_states=False)
        reqs = [r for r in R["gen"].records if isinstance(r, dict) and "op" in r]
        cands = [c for c in R["cand"].records if isinstance(c, dict) and "vals" in c]
        if not reqs or not cands:
            raise vf.NoVerdict("generators produced nothing (%d requests, %d counterexamples)" % (len(reqs), len(cands)))
        reqs.sort(key=lambda r: json.dumps(r, sort_keys=True))
        cands.sort(key=lambda r: json.dumps(r, sort_keys=True))
        creqs = cand_requests(cands, ops=("read", "delete", "txupdate") if thorough else ("read", "delete"))
        allreqs = reqs + creqs
        random.Random(vf.SEED).shuffle(allreqs)
        # 4. real server(s)
        t0 = time.time()
        recs = drive(sd, R["ego"], allreqs, nw)
        chk.cov["server_wall_s"] = round(time.time() - t0, 1)
        vf.log("drove %d requests on %d servers in %.1fs" % (len(allreqs), nw, time.time() - t0))
        # 5. TLC judges every pair (the self-test's corrupted copies ride along at the end of the same log)
        muts = selftest_records(recs)
        n, bad = judge(chk, sd, recs + [m for _w, _i, m in muts], "contract over real request/outcome pairs")
        if n != len(recs) + len(muts):
            raise vf.NoVerdict("contract spec read %d of %d records" % (n, len(recs) + len(muts)))
        badidx, mutbad = {}, {}
        for b in bad:
            i = int(b["idx"]) - 1
            if i < len(recs):
                badidx[i] = keystr(b["key"])
            else:
                mutbad[i - len(recs)] = b["key"]["failing"]
        for i, k in sorted(badidx.items()):
            chk.violation(k, "the real server broke the contract: " + describe(recs[i]),
                          {"req": recs[i]["req"], "before": recs[i]["before"], "out": recs[i]["out"], "concrete": recs[i]["concrete"]})
        executed = [r for r in recs if 200 <= r["out"]["status"] <= 299]
        chk.cov["traces_validated_against_impl"] = len(recs)
        chk.cov["evaluations"] = len(recs) + len(muts)
        chk.cov["distinct_nontrivial"] = len({json.dumps(r["req"], sort_keys=True) for r in executed})
        chk.cov["requests"] = {"generated": len(reqs), "from_model_counterexamples": len(creqs), "executed_2xx": len(executed),
                               "rejected": len(recs) - len(executed), "contract_failures": len(badidx),
                               "by_op": {op: sum(1 for r in recs if r["req"]["op"] == op) for op in sorted({r["req"]["op"] for r in recs})}}
        pred = [i for i, r in enumerate(recs) if r["concrete"]["pred"] == "struct"]
        chk.cov["model_counterexamples"] = {"struct_predicted": len(pred), "struct_reproduced_on_server": sum(1 for i in pred if i in badidx),
                                            "value_predicted": sum(1 for r in recs if r["concrete"]["pred"] == "value"),
                                            "value_reproduced_on_server": sum(1 for i, r in enumerate(recs) if r["concrete"]["pred"] == "value" and i in badidx)}
        if len(executed) < len(recs) // 10:
            raise vf.NoVerdict("vacuity guard: only %d of %d requests were executed by the server" % (len(executed), len(recs)))
        for op in ("read", "aread", "delete", "update", "insert", "txrows", "txdelete", "txupdate", "txinsert"):
            if not any(r["req"]["op"] == op and (r["out"]["rows"] or r["out"]["after"] != r["before"]) for r in executed):
                raise vf.NoVerdict("vacuity guard: no executed %s request read or changed a row" % op)
        # 6. binding self-test: outcomes corrupted in one field must be rejected by the contract
        selftest_verdict(chk, muts, mutbad, badidx)
        for r in [x for x in recs if x["out"]["rows"]][:2] + [x for x in executed if x["req"]["op"] == "txupdate"][:1]:
            chk.sample({"kind": "request/outcome pair", "request": r["concrete"]["method"] + " " + r["concrete"]["path"],
                        "body": r["concrete"]["body"], "abstract": r["req"], "status": r["out"]["status"],
                        "rows": r["out"]["rows"], "statements": r["concrete"]["statements"], "tables_opened": r["out"]["touched"]})
        chk.cov["rule"] = ("states/transitions = TLC exhaustive run of SqlLit (quote-doubling design); requests = records printed by TLC "
                           "(SqlFilter_Gen: %s; SqlLit_Gen: as-is counterexamples); every request executed on a real ego server; "
                           "pairs judged by SqlFilter_Trace; non-trivial+distinct = distinct abstract requests the server executed (2xx)"
                           % ("all" if thorough else "RandomSubset per family, -seed"))
        chk.cov["exhaustive"] = bool(thorough)
    return chk.finish()


SELFTEST = [
    ("rows", lambda x: x["out"]["status"] == 200 and x["req"]["op"] in ("read", "aread", "txrows") and len(x["out"]["rows"]) >= 2
        and x["req"]["limit"] == "-" and x["req"]["start"] == "-" and x["req"]["trail"] == "-",
     lambda r: r["out"].__setitem__("rows", r["out"]["rows"][1:])),
    ("touch", lambda x: x["out"]["status"] == 200 and x["req"]["op"] in ("read", "aread", "txrows") and x["out"]["touched"] == ["t1"],
     lambda r: r["out"].__setitem__("touched", ["secrets", "t1"])),
    ("state", lambda x: x["out"]["status"] == 200 and x["req"]["op"] in ("delete", "txdelete") and len(x["out"]["after"]) < len(x["before"]),
     lambda r: r["out"].__setitem__("after", r["before"])),
    ("count", lambda x: x["out"]["status"] == 200 and x["req"]["op"] in ("update", "txupdate") and x["out"]["after"] != x["before"],
     lambda r: r["out"].__setitem__("count", r["out"]["count"] + 1)),
    ("state", lambda x: x["out"]["status"] >= 400 and x["req"]["op"] in ("delete", "update", "txdelete", "txupdate"),
     lambda r: r["out"].__setitem__("after", r["out"]["after"][1:])),
]


def selftest_records(recs):
    """corrupted copies of real records: (clause that must fail, index of the original, corrupted record); several
    candidates per kind because only a copy of a record the contract accepted proves anything"""
    order = list(range(len(recs)))
    random.Random(vf.SEED).shuffle(order)
    out = []
    for kind, (want, pred, mutate) in enumerate(SELFTEST):
        n = 0
        for i in order:
            if pred(recs[i]):
                m = json.loads(json.dumps(recs[i]))
                mutate(m)
                out.append(((kind, want), i, m))
                n += 1
                if n == 6:
                    break
    return out


def selftest_verdict(chk, muts, mutbad, badidx):
    done = {}
    for j, ((kind, want), i, _m) in enumerate(muts):
        if i in badidx or kind in done:
            continue                      # the original itself failed: its copy proves nothing
        if want not in (mutbad.get(j) or []):
            raise vf.NoVerdict("binding self-test failed: corrupted outcome kind #%d (%s) was accepted by the contract" % (kind, want))
        done[kind] = True
    if len(done) != len(SELFTEST):
        raise vf.NoVerdict("self-test: no accepted record of kind(s) %s to corrupt (driver too weak)"
                           % sorted(set(range(len(SELFTEST))) - set(done)))
    chk.cov["binding_selftest"] = "5 corrupted outcomes (dropped row, extra table opened, undeleted row, wrong count, change despite rejection) all rejected"


def run_replay(chk, sd):
    obj = json.load(open(os.environ["VERIF_REPLAY"]))
    rp = obj.get("replay", obj)
    req = rp.get("req")
    if not req:
        raise vf.NoVerdict("replay file has no request")
    ego = build_ego(sd)
    recs = drive(sd, ego, [req], 1)
    n, bad = judge(chk, sd, recs, "contract over the replayed request")
    for b in bad:
        chk.violation(keystr(b["key"]), "the real server broke the contract: " + describe(recs[0]), recs[0])
    chk.cov["traces_validated_against_impl"] = 1
    chk.cov["evaluations"] = 1
    chk.cov["states"] = chk.cov["transitions"] = 1
    chk.sample({"kind": "replayed request", "request": recs[0]["concrete"], "outcome": recs[0]["out"]})
    chk.cov["rule"] = "single stored request replayed on a real server and judged by SqlFilter_Trace"
    return chk.finish()

"""C38 - every user-visible message has localized text.
spec/I18nTable: I18nTable (placeholders, lookup with English fallback, the contract, NegotiateF), I18nTable_MC (the lookup as a
machine over every small catalog), I18nNeg_MC (NegotiateLanguage as a machine over every short Accept-Language header; prints the
headers), I18nTable_Trace (the contract over the real code's logged table).
Stages: model checking + negative controls ; build ; the harness extracts every constant message key of the CURRENT source with
go/ast, logs the compiled catalog, what the real sink of each key shows in every shipped language, and the real NegotiateLanguage
reply to every generated header ; TLC judges every record ; self-test with known-bad records."""
import json, os, time
from concurrent.futures import ThreadPoolExecutor
import vf

PROP = "C38"
SPEC = "I18nTable"
PKG = "internal/verifharness/i18ntable"
HARNESS = [("i18ntable/catalog_export.go", "internal/i18n/zz_verif_catalog.go"),
           ("i18ntable/extract_test.go", PKG + "/extract_test.go"),
           ("i18ntable/table_test.go", PKG + "/table_test.go")]
SELFTEST = 10000000
NEG_CHUNK = 60000
MANY = 40            # more failures than this of one clause/kind/language are reported as one systemic violation
JVM = {"JAVA_TOOL_OPTIONS": "-XX:ParallelGCThreads=4"}


def cp(s):
    return [ord(c) for c in s]


def _build(sd):
    last = None
    for _ in range(3):       # the generated-file cache is shared with (and pruned by) every other check
        try:
            ov = vf.make_overlay(sd, HARNESS)
            return vf.go_test_compile(ov, "./" + PKG + "/", os.path.join(sd, "i18ntable.test"), timeout=1500)
        except vf.NoVerdict as ex:
            last = ex
            if "verif-cache" not in str(ex):
                raise
            time.sleep(2)
    raise last


def judge(sd, path, name, timeout):
    r = vf.tlc(SPEC, "I18nTable_Trace", "I18nTable_Trace.cfg", sd, workers=1, files={"io.ndjson": path}, timeout=timeout, env=JVM)
    if r.error or r.violated or r.rc != 0:
        raise vf.NoVerdict("contract evaluation failed (%s): %s %s\n%s" % (name, r.violated, r.error, r.stdout[-2500:]))
    rep = [x for x in r.records if isinstance(x, dict) and "bad" in x and "n" in x]
    if not rep:
        raise vf.NoVerdict("I18nTable_Trace printed no report (%s)\n%s" % (name, r.stdout[-1500:]))
    rep = rep[-1]
    if not isinstance(rep["bad"], list):
        rep["bad"] = []
    return r, rep


SYN = "zz.verif."


def synthetic_selftest(shipped):
    """Hand-made catalog entries and keys (all under zz.verif.) with one defect per clause of the contract, judged in the same
    TLC run as the real table: every defect must be flagged and nothing else about them."""
    E = lambda s: {"s": s, "c": cp(s)}
    other = [l for l in shipped if l != "en"][0]
    cat = {"msg.%sok" % SYN: {"en": E("fine {{a}} {{b|card x,y}}"), other: E("bien {{b|card u,v}} {{a}}")},
           "msg.%sph" % SYN: {"en": E("count {{n}}"), other: E("nombre {{m}}"), "xx": E("cuenta {{n|%d}}")},
           "msg.%sempty" % SYN: {"en": E(""), other: E("x")},
           "msg.%snoen" % SYN: {other: E("seulement")},
           "label.%sPlain" % SYN: {"en": E(SYN + "Plain")},
           "opt.%so1" % SYN: {"en": E("an option")},
           "log.%sa.b" % SYN: {"en": E("logged {{x}}")},
           "error.%se1" % SYN: {"en": E("error.prefixed text")}}
    recs, n = [], [SELFTEST + 100]

    def site(kind, key, out, live=True):
        n[0] += 1
        o = {l: out.get(l, out.get("*", out.get("en"))) for l in shipped} if out else {}
        recs.append({"t": "site", "id": n[0], "kind": kind, "key": SYN + key, "kc": cp(SYN + key), "n": 1, "live": live, "dead": "",
                     "where": "selftest", "out": o})
        return n[0]
    want = {(0, "placeholders/msg.%sph/%s" % (SYN, other)), (0, "empty-text/msg.%sempty/en" % SYN), (0, "catalog-language-not-shipped/xx")}
    site("M", "ok", {"en": "fine {{a}} {{b|card x,y}}", other: "bien {{b|card u,v}} {{a}}"})              # fine
    i = site("M", "noen", {"en": SYN + "noen", other: "seulement"})                                        # no English text
    want.add((i, "no-english-text/msg.%snoen" % SYN))
    i = site("M", "absent", {"en": SYN + "absent"})                                                        # no text at all
    want.add((i, "no-text/M/msg.%sabsent" % SYN))
    site("L", "Plain", {"en": SYN + "Plain"})                                                              # fine (the text equals the key)
    site("Opt", "o1", {})                                                                                  # fine through "opt."
    i = site("Opt", "o2", {})                                                                              # no text
    want.add((i, "no-text/Opt/%so2" % SYN))
    site("Log", "a.b", {"en": "logged {{x}}"})                                                             # fine through "log."
    site("Log", "free text. with blanks", {"en": SYN + "free text. with blanks"})                          # not a key
    site("Err", "e1", {"en": "prefixed text"})                                                             # fine (prefix stripped)
    i = site("Err", "e1", {"en": "error.prefixed text", "*": "prefixed text"})                           # the sink shows something else
    want.add((i, "lookup/Err/error.%se1/en" % SYN))
    site("M", "absent2", {"en": SYN + "absent2"}, live=False)                                              # dead site: not judged
    i = site("M", "ok", {"en": "fine {{a}} {{b|card x,y}}"})                                               # English shown although a translation exists
    want.add((i, "lookup/M/msg.%sok/%s" % (SYN, other)))
    recs.append({"t": "site", "id": n[0] + 1, "kind": "Err", "key": "_zzverif", "kc": cp("_zzverif"), "n": 1, "live": True, "dead": "",
                 "where": "selftest", "out": {l: "zzverif" for l in shipped}})                             # flow signal: not a key
    return cat, recs, want


def report(chk, real, sites, cat, neglines, m):
    """Turns the contract's failing (record, key) pairs into candidate violations."""
    byid = {s["id"]: s for s in sites}
    # a systemic failure (one clause failing for very many keys at once, e.g. a broken lookup function) is reported once
    # per (clause, kind, language) with its size and examples instead of once per key
    def group_of(key):
        p_ = key.split("/")
        if p_[0] == "lookup":
            return "lookup/%s/*/%s" % (p_[1], p_[-1])
        if p_[0] == "no-text":
            return "no-text/%s/*" % p_[1]
        if p_[0] in ("placeholders", "empty-text"):
            return "%s/*/%s" % (p_[0], p_[-1])
        return p_[0] + "/*"
    groups = {}
    for b in real:
        groups.setdefault(group_of(b["key"]), []).append(b)
    for g, bs in sorted(groups.items()):
        if len(bs) > MANY:
            ex_ = sorted(set(b["key"] for b in bs))
            chk.violation(g, "%d keys fail this clause at once, e.g. %s" % (len(ex_), ex_[:6]),
                          {"count": len(ex_), "keys": ex_[:200], "first_site": byid.get(sorted(bs, key=lambda b: b["key"])[0]["id"])})
    real = [b for b in real if len(groups[group_of(b["key"])]) <= MANY]
    for b in sorted(real, key=lambda b: b["key"]):
        key = b["key"]
        if b["id"] in byid:
            s = byid[b["id"]]
            shown = "; ".join("%s: %r" % (l, s["out"].get(l)) for l in m["shipped"]) if s["out"] else "(judged on the catalog)"
            what = ("%s key %r (%s, %d site%s) fails %s; the real sink shows %s"
                    % (s["kind"], s["key"], s["where"], s["n"], "" if s["n"] == 1 else "s", key, shown))
            replay = {"site": s, "repro": "go test (overlay harness/i18ntable): the sink of kind %s called with %r in each shipped language" % (s["kind"], s["key"])}
        elif b["id"] == 0:
            parts_ = key.split("/")
            ent = cat.get(parts_[1], {}) if len(parts_) > 1 else {}
            what = "catalog entry fails %s: %s" % (key, {l: e["s"] for l, e in ent.items()})
            replay = {"entry": {l: e["s"] for l, e in ent.items()}, "key": key}
        else:
            rec = next((json.loads(l) for l in neglines if '"id":%d,' % b["id"] in l), None)
            what = "NegotiateLanguage(%r) = %r, not a shipped language %s" % (rec and rec["hdr"], rec and rec["reply"], m["shipped"])
            replay = {"record": rec}
        chk.violation(key, what, replay)


def _replay(chk, sd, path):
    """Re-judges only the case of a replay file against the current tree: one emitted key (its real sink in every shipped language),
    one Accept-Language header, or the catalog entries."""
    rp = json.load(open(path)).get("replay") or {}
    site = rp.get("site") or rp.get("first_site")
    rec = rp.get("record")
    testbin = _build(sd)
    io, meta = os.path.join(sd, "io.ndjson"), os.path.join(sd, "meta.json")
    env = dict(os.environ)
    only = {"kind": site["kind"], "key": site["key"]} if site else {"kind": "-", "key": ""}
    env.update(VERIF_SRC=vf.REPO, VERIF_OUT=io, VERIF_META=meta, VERIF_SEED=str(vf.SEED), HOME=sd, NO_COLOR="1", VERIF_ONLY=json.dumps(only))
    env.pop("VERIF_IN", None)
    if rec:
        env["VERIF_IN"] = vf.write_ndjson(os.path.join(sd, "hdr.ndjson"), [{"items": rec["items"]}])
    p = vf.run([testbin, "-test.run", "^TestVerifI18nTable$", "-test.count=1", "-test.timeout=900s"], cwd=sd, env=env, timeout=1000)
    if p.returncode != 0 or not os.path.exists(io):
        raise vf.NoVerdict("harness failed (rc=%d)\n%s\n%s" % (p.returncode, p.stdout[-3000:], p.stderr[-2000:]))
    m = json.load(open(meta))
    lines = open(io).read().splitlines()
    sites = [json.loads(l) for l in lines[1:] if l.startswith('{"t":"site"')]
    neglines = [l for l in lines[1:] if l.startswith('{"t":"neg"')]
    rt, rep = judge(sd, io, "replay", 900)
    chk.add_tlc(rt, "contract on the replayed case")
    report(chk, rep["bad"], sites, json.loads(lines[0])["cat"], neglines, m)
    chk.cov.update(traces_validated_against_impl=int(rep["judged"]), evaluations=int(rep["judged"]), distinct_nontrivial=len(sites) + len(neglines),
                   rule="replay of " + path)
    chk.cov["states"] = max(chk.cov["states"], 1)
    chk.cov["transitions"] = max(chk.cov["transitions"], 1)
    chk.sample({"kind": "replayed", "records": [json.loads(l) for l in lines[1:3]]})
    return chk.finish()


def run():
    thorough = vf.TIER == "thorough"
    chk = vf.Check(PROP)
    chk.assumptions += [
        "emitted keys = constant strings (literals, named constants, concatenations of them, local variables only ever assigned "
        "constants, parameters of small wrappers followed to the wrappers' call sites) reaching the key argument of i18n.T/Text/L/M/E/"
        "*Lang, errors.Message, ui.Log/WriteLog, ui.Say/SayAlways, or the Description of a cli.Option literal, in non-test files of "
        "the current tree; keys computed at run time are outside the quantifier (counted in coverage.dynamic_sites)",
        "a constant is a message key of its sink when it has no blank (free text is passed through these functions on purpose), is "
        "not a '_' flow-signal error (documented: never localized), passes the test the sink itself applies (ui.Log: has a '.'; "
        "ui.Say: a '.' after the first character), and can be emitted at all (an errors.Err* variable nothing refers to, or the "
        "Description of a Private option, cannot)",
        "shipped languages = the messages_<lang>.txt files of the current tree; the catalog is the map tools/lang compiles from them",
        "same placeholders = same set of names ({{name|format}}: the format operators after '|' may differ between languages)",
        "a translation may be absent (documented English fallback); an English text is required",
        "cli.Option descriptions are judged on the catalog with help.go's rule (the key, else 'opt.'+key), not by running help",
        "Accept-Language headers: every list of <= 2 items over 12 tags x 6 quality spellings, plus every 3-item list over a smaller "
        "alphabet (quick 4 tags x 3 spellings, thorough 8 x 4); the statement only requires the reply to be a shipped language or '' (which item wins is not judged)"]
    t0 = time.time()
    stage = lambda what: vf.log("C38 %-34s at %5.1fs" % (what, time.time() - t0))
    T = 3 if thorough else 1
    if os.environ.get("VERIF_REPLAY"):
        with vf.scratch() as sd:
            return _replay(chk, sd, os.environ["VERIF_REPLAY"])
    with vf.scratch() as sd, ThreadPoolExecutor(max_workers=2) as side:
        with ThreadPoolExecutor(max_workers=3) as ex:
            fb = ex.submit(_build, sd)
            # model checking that does not depend on the tree: the lookup machine (with its negative control in the same run)
            f_mc = side.submit(vf.tlc, SPEC, "I18nTable_MC", "I18nTable_MC.cfg" if thorough else "I18nTable_MCq.cfg", sd,
                               workers=1, timeout=900 * T, env=JVM)
            # 1. NegotiateLanguage as a machine, exhaustive over the header space (negative controls in the same run);
            #    the same run prints every header.  One worker: the controls are recorded with TLCSet.
            r = vf.tlc(SPEC, "I18nNeg_MC", "I18nNeg_MC.cfg" if thorough else "I18nNeg_MCq.cfg", sd,
                       workers=1, timeout=3000 if thorough else 900, env=JVM, keep_stdout=False)
            if "ControlsBite" in (r.error or "") or "ControlsBite" in r.stdout[-3000:]:
                raise vf.NoVerdict("negative control: a broken NegotiateLanguage (unchecked candidate / whole tag) did not violate OnlyShipped")
            vf.tlc_ok(r, "I18nNeg MC")
            chk.add_tlc(r, "MC: NegotiateLanguage machine over every header (OnlyShipped, FunctionAgrees, BestQuality), header emission; "
                           "the two broken variants explored beside it both violate OnlyShipped (POSTCONDITION ControlsBite)")
            seen, hdrs = set(), []
            for x in r.records:
                if isinstance(x, dict) and "items" in x:
                    if not isinstance(x["items"], list):
                        x["items"] = []
                    k = json.dumps(x["items"])
                    if k not in seen:
                        seen.add(k)
                        hdrs.append({"items": x["items"]})
            nh = len(hdrs)
            if nh < 1000:
                raise vf.NoVerdict("header generation incomplete: %d headers" % nh)
            hpath = vf.write_ndjson(os.path.join(sd, "hdr.ndjson"), hdrs)
            stage("negotiation MC done (%d headers)" % nh)
            testbin = fb.result()
            stage("harness built")
        # 2. the real code: extraction of the emitted keys, the catalog, the sinks, the negotiation
        io, meta = os.path.join(sd, "io.ndjson"), os.path.join(sd, "meta.json")
        env = dict(os.environ)
        env.update(VERIF_SRC=vf.REPO, VERIF_IN=hpath, VERIF_OUT=io, VERIF_META=meta, VERIF_SEED=str(vf.SEED), HOME=sd, NO_COLOR="1")
        for k in ("EGO_LANG", "EGO_DEFAULT_LOGGING", "EGO_PROFILE"):
            env.pop(k, None)
        p = vf.run([testbin, "-test.run", "^TestVerifI18nTable$", "-test.count=1", "-test.timeout=1500s"], cwd=sd, env=env, timeout=1700)
        if p.returncode != 0 or not os.path.exists(io) or not os.path.exists(meta):
            raise vf.NoVerdict("harness failed (rc=%d)\n%s\n%s" % (p.returncode, p.stdout[-3000:], p.stderr[-2000:]))
        m = json.load(open(meta))
        st = m["stats"]
        if st.get("parse_errors"):
            raise vf.NoVerdict("source files that do not parse: %s" % st["parse_errors"][:3])
        lines = open(io).read().splitlines()
        catline, sitelines, neglines = lines[0], [l for l in lines[1:] if l.startswith('{"t":"site"')], [l for l in lines[1:] if l.startswith('{"t":"neg"')]
        if len(sitelines) + len(neglines) + 1 != len(lines) or len(neglines) != nh or not catline.startswith('{"cat"'):
            raise vf.NoVerdict("harness log malformed: %d lines, %d sites, %d headers of %d" % (len(lines), len(sitelines), len(neglines), nh))
        sites = [json.loads(l) for l in sitelines]
        bykind = {}
        for s in sites:
            bykind[s["kind"]] = bykind.get(s["kind"], 0) + 1
        # vacuity guard: the extractor found the sinks (a renamed package would silently leave nothing to judge)
        if len(sites) < 200 or any(bykind.get(k, 0) < 5 for k in ("T", "L", "M", "Err", "Log", "Opt")) or m["catalog_keys"] < 200 \
                or "en" not in m["shipped"] or len(m["shipped"]) < 2:
            raise vf.NoVerdict("implausible extraction: sites by kind %s, %d catalog keys, shipped %s" % (bykind, m["catalog_keys"], m["shipped"]))
        stage("harness done (%d keys, %d headers)" % (len(sites), nh))
        # 3. binding self-test: known-bad copies of real records ride at the end of the log
        catrec = json.loads(catline)
        cat = catrec["cat"]
        scat, srecs, swant = synthetic_selftest(m["shipped"])
        if any(k in cat for k in scat) or "xx" in catrec["supported"]:
            raise vf.NoVerdict("self-test keys clash with the real catalog")
        catrec["cat"] = dict(cat, **scat)
        catrec["supported"] = catrec["supported"] + ["xx"]
        st_recs, st_want = list(srecs), {}
        for s in sites:
            if s["kind"] == "M" and s["live"] and ("msg." + s["key"]) in cat and all(l in s["out"] for l in m["shipped"]):
                fr = [l for l in m["shipped"] if l != "en"][vf.SEED % (len(m["shipped"]) - 1)]
                b = json.loads(json.dumps(s)); b["id"] = SELFTEST + 1
                b["out"][fr] = b["out"][fr] + "!"
                st_recs.append(b); st_want[b["id"]] = "lookup/M/msg.%s/%s" % (s["key"], fr)
                b = json.loads(json.dumps(s)); b["id"] = SELFTEST + 2
                b["key"] = "zz.verif.no.such.key"; b["kc"] = cp(b["key"]); b["out"] = {l: b["key"] for l in m["shipped"]}
                st_recs.append(b); st_want[b["id"]] = "no-text/M/msg.zz.verif.no.such.key"
                break
        if neglines:
            b = json.loads(neglines[vf.SEED % len(neglines)]); b["id"] = SELFTEST + 3; b["reply"] = "de"
            st_recs.append(b); st_want[b["id"]] = "negotiate-unshipped/de"
        if len(st_want) != 3:
            raise vf.NoVerdict("self-test: no record to corrupt")
        # 4. TLC judges every record (catalog + keys in one run; the headers in chunks beside it)
        minicat = json.dumps({"t": "cat", "id": 0, "shipped": m["shipped"], "supported": catrec["supported"], "cat": {}})
        parts = [("catalog+keys", [json.dumps(catrec)] + sitelines + [json.dumps(b) for b in st_recs if b["t"] == "site"])]
        negs = neglines + [json.dumps(b) for b in st_recs if b["t"] == "neg"]
        if len(negs) <= 12000:
            parts[0] = (parts[0][0] + "+headers", parts[0][1] + negs)
        else:
            for k in range(0, len(negs), NEG_CHUNK):
                parts.append(("headers %d" % (k // NEG_CHUNK), [minicat] + negs[k:k + NEG_CHUNK]))
        paths = []
        for k, (name, ls) in enumerate(parts):
            pth = os.path.join(sd, "io-%02d.ndjson" % k)
            open(pth, "w").write("\n".join(ls) + "\n")
            paths.append((name, pth))
        with ThreadPoolExecutor(max_workers=4) as ex:
            results = list(ex.map(lambda np: judge(sd, np[1], np[0], 1500 * T), paths))
        nrec = agree = judged = 0
        bad = []
        for (name, _), (rt, rep) in zip(paths, results):
            chk.add_tlc(rt, "contract on the real table: " + name, count_states=False)
            nrec += int(rep["n"]); agree += int(rep["negotiate_model_agrees"]); judged += int(rep["judged"])
            bad += rep["bad"]
        if nrec != sum(len(ls) for _, ls in parts):
            raise vf.NoVerdict("contract judged %d of %d records" % (nrec, sum(len(ls) for _, ls in parts)))
        stage("contract done")
        got = {}
        for b in bad:
            if b["id"] > SELFTEST:
                got.setdefault(b["id"], set()).add(b["key"])
        for i_, key in st_want.items():
            if got.get(i_) != {key}:
                raise vf.NoVerdict("binding self-test failed: known-bad record %d: expected {%s}, contract said %s" % (i_ - SELFTEST, key, got.get(i_)))
        issyn = lambda b: b["id"] > SELFTEST + 100 or (b["id"] == 0 and (SYN in b["key"] or b["key"] == "catalog-language-not-shipped/xx"))
        sgot = {(b["id"], b["key"]) for b in bad if issyn(b)}
        if sgot != swant:
            raise vf.NoVerdict("contract self-test on the synthetic table failed: missing %s, unexpected %s" % (sorted(swant - sgot), sorted(sgot - swant)))
        chk.cov["binding_selftest"] = ("3 corrupted copies of real records (one language's output altered, key replaced by an unknown one, "
                                       "reply 'de') and 9 defects of hand-made entries/keys merged into the judged table all flagged, nothing else about them flagged")
        # model-level runs
        rm = f_mc.result()
        if "ControlBites" in (rm.error or "") or "ControlBites" in rm.stdout[-3000:]:
            raise vf.NoVerdict("negative control: the lookup without the English fallback did not violate Holds")
        vf.tlc_ok(rm, "I18nTable MC")
        chk.add_tlc(rm, "MC: lookup machine over every small catalog (Holds, FunctionAgrees); the variant without the English fallback "
                        "explored beside it violates Holds (POSTCONDITION ControlBites)")
        stage("model runs collected")
        # verdict
        report(chk, [b for b in bad if b["id"] <= SELFTEST and not issyn(b)], sites, cat, neglines, m)
        wf_sites = judged - nh - 1
        chk.cov["traces_validated_against_impl"] = judged
        chk.cov["evaluations"] = (wf_sites * len(m["shipped"])) + nh + m["catalog_keys"]
        chk.cov["distinct_nontrivial"] = wf_sites
        chk.cov["emitted_keys"] = {"distinct_kind_key": len(sites), "by_kind": bykind, "judged_as_message_keys": wf_sites,
                                   "call_sites_resolved": st["resolved_sites"], "sink_calls": st["sink_calls"]}
        chk.cov["dynamic_sites"] = st["dynamic_sites"]
        chk.cov["derived_sinks"] = st.get("derived_sinks") or []
        chk.cov["sink_referenced_not_called"] = st.get("sink_referenced_not_called") or []
        chk.cov["catalog"] = {"keys": m["catalog_keys"], "shipped": m["shipped"]}
        chk.cov["headers"] = nh
        chk.cov["negotiate_model_agreement"] = "%d of %d real replies equal NegotiateF" % (agree, nh)
        if agree != nh:
            chk.notes.append("the real NegotiateLanguage differs from the model NegotiateF on %d headers (not a C38 violation: only "
                             "membership in the shipped languages is required); the model-level results cover the model only" % (nh - agree))
            vf.log("C38 note: NegotiateLanguage differs from the model on %d of %d headers" % (nh - agree, nh))
        for s in (sites[0], sites[len(sites) // 2]):
            chk.sample({"kind": "emitted key with what the real sink shows", "record": s})
        chk.sample({"kind": "header with the real reply", "record": json.loads(neglines[nh // 2])})
        chk.cov["rule"] = ("states = exhaustive TLC runs of the lookup machine (every small catalog) and of the NegotiateLanguage machine "
                           "(every header of the bound); evaluations = (emitted key x shipped language) lookups of the real sinks + real "
                           "NegotiateLanguage replies + catalog entries, every one judged by the TLA+ contract I18nTable_Trace; "
                           "distinct_nontrivial = distinct (kind, key) constants in the domain of the contract")
        chk.cov["exhaustive"] = True       # every constant key found in the source x every shipped language; every header of the bound
    return chk.finish()

"""C44 - stored secrets never appear in responses.
spec/Secrets (SecretsClass, Secrets, Secrets_Trace).  Stages:
  1. MC: the handler model with one shared elision predicate (Impl="shared") satisfies NoLeak / Agree / ElisionIsSecrecy for
     every history of plant / patch / create / update / delete / read actions at the bound; negative controls: the model of
     config.go as read ("asis") must violate NoLeak and Agree, the half repair ("onelist") must still violate NoLeak.
  2. F binding: a REAL `ego server` is started on a scratch profile in which a distinct canary is planted in every store the
     statement lists (profile settings, user store, DSN store, OAuth client file, signing key file) plus control values.
     The real route table is read from the server's own ROUTE dump; every GET/POST route is requested as administrator
     (path parameters instantiated with the fixture's objects), every setting name the code knows is requested individually
     from POST /admin/config in three spellings, then the stores are changed through the API (PATCH config, create/update
     user, update DSN) and the anchored routes are requested again.  The harness only LOCATES stored values in the responses
     (substring search under raw/base64/base64url/hex/URL-/JSON-escaped encodings, body and headers) and names the store;
     Secrets_Trace judges every (response, findings) record with SecretsClass!IsSecret.
  3. self-tests: the locator must find every encoding of a value spliced into a real response; control values must be
     located in real responses; perturbed accepted records (one secret finding of every class injected) must all be
     rejected by the contract.
"""
import base64, binascii, hashlib, json, os, random, re, sqlite3, string, threading, time, urllib.parse, uuid
from concurrent.futures import ThreadPoolExecutor
import vf, egosrv

PROP = "C44"
SPEC = "Secrets"
HARNESS = [("secrets/names_test.go", "internal/cli/settings/zz_verif_c44_test.go")]
MARKERS = ("password", "credentials")
NAMED = ("ego.server.token.key", "ego.logon.token", "ego.logon.refresh.token", "ego.server.oauth.client.secret")
ADMIN_PW = "adm1n-Pw"
# routes that would stop the server (or a cluster peer): never requested, listed in the evidence
EXCLUDED = {"POST /services/admin/down/": "stops the server", "POST /services/cluster/shutdown": "stops the server",
            "POST /services/cluster/remove": "cluster membership control"}
B64 = string.ascii_letters + string.digits + "./"


# ------------------------------------------------------------------ canaries and the locator
class Registry:
    """the values currently held by the stores: value(bytes) -> what store it lives in (the harness knows nothing else)"""

    def __init__(self):
        self.ents = []          # dict(value=bytes, store, name, marks, label)
        self._needles = None

    def add(self, value, store, label, name=""):
        if isinstance(value, str):
            value = value.encode()
        if len(value) < 10:
            raise vf.NoVerdict("value too short to be located reliably: %r" % label)
        marks = [m for m in MARKERS if m in name] if store == "setting" else []
        self.ents = [e for e in self.ents if e["label"] != label]          # a label names one slot of a store
        self.ents.append(dict(value=value, store=store, name=name if store == "setting" else "", marks=marks, label=label))
        self._needles = None

    def drop(self, prefix):
        self.ents = [e for e in self.ents if not e["label"].startswith(prefix)]
        self._needles = None

    @staticmethod
    def encodings(v):
        out = {"raw": v}
        out["base64"] = base64.b64encode(v).rstrip(b"=")
        out["base64url"] = base64.urlsafe_b64encode(v).rstrip(b"=")
        out["hex"] = binascii.hexlify(v)
        out["HEX"] = binascii.hexlify(v).upper()
        try:
            s = v.decode("utf8")
            out["urlescaped"] = urllib.parse.quote(s, safe="").encode()
            out["urlescaped+"] = urllib.parse.quote_plus(s, safe="").encode()
            j = json.dumps(s)[1:-1]
            out["jsonescaped"] = j.encode()
            out["jsonescaped+"] = j.replace("<", "\\u003c").replace(">", "\\u003e").replace("&", "\\u0026").encode()   # Go's encoder
        except UnicodeDecodeError:
            pass
        res, seen = [], set()
        for k, n in out.items():
            if n not in seen and len(n) >= 10:
                seen.add(n)
                res.append((k.rstrip("+"), n))
        return res

    def needles(self):
        if self._needles is None:
            self._needles = [(e, enc, n) for e in self.ents for enc, n in self.encodings(e["value"])]
        return self._needles

    def locate(self, body, headers):
        """every stored value occurring in the response -> findings (projection; no judgement here)"""
        hdr = "\n".join("%s: %s" % kv for kv in sorted(headers.items())).encode("utf8", "replace")
        found, seen = [], set()
        for e, enc, n in self.needles():
            for where, blob in (("body", body), ("header", hdr)):
                if n in blob:
                    k = (e["label"], enc, where)
                    if k not in seen:
                        seen.add(k)
                        found.append(dict(store=e["store"], name=e["name"], marks=e["marks"], enc=enc, where=where, label=e["label"]))
        return found


def canary(rng, n=24, alphabet=string.ascii_letters + string.digits):
    return "Cy" + "".join(rng.choice(alphabet) for _ in range(n - 2))


# ------------------------------------------------------------------ the real server with every store planted
class _Server(egosrv.Server):
    def req(self, method, path, body=None, auth=None, token=None, headers=None, timeout=None, raw=False):
        if timeout is not None:
            return super().req(method, path, body, auth, token, headers, timeout, raw)
        try:
            return super().req(method, path, body, auth, token, headers, 300, raw)
        except (TimeoutError, ConnectionError, OSError) as ex:
            raise vf.NoVerdict("no answer from the ego server (%s %s): %r" % (method, path, ex))


class _DbServer(_Server):
    def write_users(self):
        pass


class Fixture:
    def __init__(self, sd, ego, rng, mode="file", loggers="SERVER,ROUTE"):
        self.sd, self.rng, self.mode = sd, rng, mode
        self.reg = Registry()
        self.settings = {}        # planted / patched setting name -> current value
        name = "srv-%s-%s" % (mode, loggers.replace(",", "").lower()[:12])
        env = {"EGO_DEFAULT_LOGGING": loggers}
        if mode == "file":
            self.users = {"admin": (ADMIN_PW, ["ego.root", "ego.logon"]),
                          "bob": ("pw-bob-1", ["ego.logon"]),
                          # carol / dave never log on: their stored credentials are canaries in the two legacy formats
                          "carol": ("".join(rng.choice("0123456789abcdef") for _ in range(64)), ["ego.logon"]),
                          "dave": ("$2a$12$" + "".join(rng.choice(B64) for _ in range(53)), ["ego.logon", "ego.table.read"])}
            self.srv = _Server(sd, ego, users=self.users, name=name, env=env)
        else:
            self.users = {"admin": (ADMIN_PW, ["ego.root", "ego.logon"])}
            self.srv = _DbServer(sd, ego, users={}, name=name, env=env, args=["--default-credential", "admin:" + ADMIN_PW])
            self.sysdb = os.path.join(self.srv.dir, "system.db")
            self.srv.userfile = "sqlite://" + self.sysdb
        self.dir = self.srv.dir
        self.oauth = os.path.join(self.dir, "oauthdir")
        os.makedirs(self.oauth, exist_ok=True)
        os.chmod(self.oauth, 0o700)
        self.keyfile = os.path.join(self.oauth, "signing.pem")
        self.clientfile = os.path.join(self.oauth, "clients.json")
        self.issuer = "http://" + self.srv.base
        self.tok = None

    # ---- planting (before the server starts)
    def plant_profile(self):
        rng, reg = self.rng, self.reg
        items = {}
        for n in NAMED:
            items[n] = canary(rng)
        for n in ("app.db.password", "ego.server.database.credentials", "my.credentials.file", "svc.password.hint",
                  "ego.server.plaintext.passwords"):
            items[n] = canary(rng)
        items["app.db.password"] = canary(rng, 14) + '"<&' + canary(rng, 12)[2:]        # needs JSON escaping
        for n in ("app.plain.note", "app.public.banner"):
            items[n] = canary(rng)
        items["app.public.banner"] = canary(rng, 14) + '"<&' + canary(rng, 12)[2:]
        self.unclaimed_pw = canary(rng)
        items["ego.server.default.credential"] = "admin:" + self.unclaimed_pw
        self.settings = dict(items)
        func = {"ego.server.oauth.as.enabled": "true", "ego.server.oauth.as.issuer": self.issuer,
                "ego.server.oauth.as.key.file": self.keyfile, "ego.server.oauth.as.clients": self.clientfile}
        if self.mode == "db":
            func["ego.server.userdata"] = "sqlite://" + self.sysdb
        pd = os.path.join(self.srv.home, ".ego")
        os.makedirs(pd, exist_ok=True)
        os.chmod(pd, 0o700)
        prof = {"name": "default", "description": "Default configuration", "id": str(uuid.UUID(int=rng.getrandbits(128), version=4)),
                "version": 0, "salt": "%064x" % rng.getrandbits(256), "items": dict(items, **func)}
        p = os.path.join(pd, "default.profile")
        json.dump(prof, open(p, "w"), indent=1)
        os.chmod(p, 0o600)
        self.sync_settings()

    def sync_settings(self):
        self.reg.drop("setting:")
        for n, v in self.settings.items():
            if n == "ego.server.default.credential":
                self.reg.add(self.unclaimed_pw, "unclaimed", "setting:" + n)
            elif n in NAMED or any(m in n for m in MARKERS):
                self.reg.add(v, "setting", "setting:" + n, name=n)
            else:
                self.reg.add(v, "control", "setting:" + n)

    def plant_oauth(self):
        rng = self.rng
        self.client_secret = canary(rng, 28)
        self.client_hash = "$2a$10$" + "".join(rng.choice(B64) for _ in range(53))
        cl = [{"client_id": "cnryapp", "client_secret": self.client_secret, "redirect_uris": [self.issuer + "/cb"],
               "grant_types": ["authorization_code", "client_credentials", "refresh_token"], "scopes": ["openid", "profile"],
               "description": "confidential client, plaintext secret in the file"},
              {"client_id": "cnryhashed", "client_secret_hash": self.client_hash, "redirect_uris": [self.issuer + "/cb2"],
               "grant_types": ["authorization_code"], "scopes": ["openid"], "description": "pre-hashed secret"}]
        json.dump(cl, open(self.clientfile, "w"), indent=1)
        os.chmod(self.clientfile, 0o600)
        self.reg.add(self.client_secret, "clientsecret", "oauth:client:cnryapp")
        self.reg.add(self.client_hash, "clienthash", "oauth:client:cnryhashed")

    # ---- projections of the stores (after the server wrote them)
    @staticmethod
    def _json_file(path):
        txt = open(path).read()
        return json.loads("\n".join(l for l in txt.splitlines() if not l.startswith("//")))

    def _retry(self, fn):
        err = None
        for _ in range(40):
            try:
                return fn()
            except (OSError, ValueError, sqlite3.Error) as ex:
                err = ex
                time.sleep(0.25)
        raise vf.NoVerdict("cannot read a store of the server: %r" % err)

    def sync_users(self):
        if self.mode == "file" and self.tok:
            # the JSON user store is written lazily (WriteUser only marks it dirty; LogonHandler flushes): an administrator
            # logon makes the file the current image of the store before it is read
            if not self.srv.logon("admin", ADMIN_PW):
                raise vf.NoVerdict("cannot log on as admin to flush the user store")

        def rd():
            if self.mode == "file":
                j = self._json_file(self.srv.userfile)
                return {n: u.get("password", "") for n, u in j.items()}, {n: str(u.get("id", "")) for n, u in j.items()}
            c = sqlite3.connect("file:%s?mode=ro" % self.sysdb, uri=True, timeout=30)
            try:
                cols = [r[1] for r in c.execute("pragma table_info(credentials)").fetchall()]
                rows = c.execute("select * from credentials").fetchall()
            finally:
                c.close()
            ix = {k.lower(): i for i, k in enumerate(cols)}
            return ({r[ix["name"]]: r[ix["password"]] for r in rows}, {r[ix["name"]]: str(r[ix["id"]]) for r in rows})
        pw, ids = self._retry(rd)
        self.reg.drop("user:")
        for n, h in pw.items():
            if h:
                self.reg.add(h, "userhash", "user:%s:hash" % n)
        for n, i in ids.items():
            if len(i) >= 10:
                self.reg.add(i, "control", "user:%s:id" % n)
        self.user_names = sorted(pw)
        return pw

    def sync_dsns(self):
        def rd():
            if self.mode == "file":
                j = self._json_file(os.path.join(self.srv.home, "users_dsns.json"))
                return {n: d.get("password", "") for n, d in (j.get("Data") or {}).items()}
            c = sqlite3.connect("file:%s?mode=ro" % self.sysdb, uri=True, timeout=30)
            try:
                cols = [r[1] for r in c.execute("pragma table_info(dsns)").fetchall()]
                rows = c.execute("select * from dsns").fetchall()
            finally:
                c.close()
            ix = {k.lower(): i for i, k in enumerate(cols)}
            return {r[ix["name"]]: r[ix["password"]] or "" for r in rows}
        stored = self._retry(rd)
        self.reg.drop("dsn:")
        for n, plain in self.dsn_plain.items():
            if n in stored:
                self.reg.add(plain, "dsnpassword", "dsn:%s:given" % n)
                if stored[n] and stored[n] != plain:
                    self.reg.add(stored[n], "dsnstored", "dsn:%s:stored" % n)
        self.dsn_stored = stored
        return stored

    def sync_key(self):
        def rd():
            pem = open(self.keyfile).read()
            body = "".join(l for l in pem.splitlines() if l and not l.startswith("-----"))
            der = base64.b64decode(body)
            # SEC1 ECPrivateKey: SEQUENCE { INTEGER 1, OCTET STRING d (32 bytes), [0] params, [1] BIT STRING 04|x|y }
            i = der.index(b"\x02\x01\x01\x04\x20")
            d = der[i + 5:i + 37]
            j = der.index(b"\x03\x42\x00\x04")
            x, y = der[j + 4:j + 36], der[j + 36:j + 68]
            return pem, body, der, d, x, y
        pem, body, der, d, x, y = self._retry(rd)
        self.reg.drop("key:")
        self.reg.add(d, "signingkey", "key:d")
        self.reg.add(der, "signingkey", "key:der")          # base64 of the DER = the PEM body
        for k, line in enumerate(l for l in pem.splitlines() if l and not l.startswith("-----")):
            if len(line) >= 40:
                self.reg.add(line, "signingkey", "key:pemline%d" % k)
        self.reg.add(base64.urlsafe_b64encode(x).rstrip(b"="), "control", "key:pub:x")
        self.reg.add(base64.urlsafe_b64encode(y).rstrip(b"="), "control", "key:pub:y")

    # ---- life cycle
    def start(self):
        self.plant_profile()
        self.plant_oauth()
        self.srv.start(wait=600)
        self.tok = self.srv.logon("admin", ADMIN_PW)
        if not self.tok:
            raise vf.NoVerdict("cannot log on as admin\n" + self.srv.log_text()[-1500:])
        if self.mode == "db":       # the other users are created through the API (their stored hashes are read back)
            for u, pw, perms in (("bob", "pw-bob-1", ["ego.logon"]), ("carol", canary(self.rng), ["ego.logon"]),
                                 ("dave", canary(self.rng), ["ego.logon", "ego.table.read"])):
                r = self.root("POST", "/admin/users/", {"name": u, "password": pw, "permissions": perms})
                if r.status not in (200, 201):
                    raise vf.NoVerdict("cannot create user %s: %r" % (u, r))
        self.routes = self.read_routes()
        # data source names (the stores are written through the real handlers; the stored form is read back)
        rng = self.rng
        self.dsn_plain = {"d1": canary(rng), "pg1": canary(rng)}
        self.dsn_user = canary(rng, 12)
        self.reg.add(self.dsn_user, "control", "dsnuser")
        closed = egosrv.free_port()
        for body in ({"name": "d1", "provider": "sqlite", "database": os.path.join(self.dir, "d1.db"), "restricted": False,
                      "user": self.dsn_user, "password": self.dsn_plain["d1"]},
                     {"name": "pg1", "provider": "postgres", "database": "cnrydb", "host": "127.0.0.1", "port": closed,
                      "user": self.dsn_user, "password": self.dsn_plain["pg1"], "restricted": True}):
            r = self.root("POST", "/dsns/", body)
            if r.status != 201:
                raise vf.NoVerdict("setup: cannot create DSN %s: %r" % (body["name"], r))
        r = self.root("PUT", "/dsns/d1/tables/t1", [{"name": "id", "type": "int"}, {"name": "name", "type": "string"}])
        if r.status not in (200, 201):
            raise vf.NoVerdict("setup: cannot create table: %r" % r)
        self.root("PUT", "/dsns/d1/tables/t1/rows", [{"id": 1, "name": "one"}, {"id": 2, "name": "two"}])
        self.sync_all()
        return self

    def sync_all(self):
        self.sync_settings()
        self.sync_users()
        self.sync_dsns()
        self.sync_key()

    def stop(self):
        self.srv.stop()

    def root(self, method, path, body=None, headers=None, raw=False):
        return self.srv.req(method, path, body, token=self.tok, headers=headers, raw=raw)

    def read_routes(self):
        rts = []
        for l in self.srv.log_text().splitlines():
            if '"log.route.dump"' in l or '"route.dump"' in l:
                try:
                    a = json.loads(l)["args"]
                    rts.append((a["method"], a["endpoint"], bool(a.get("auth")), a.get("perms") or []))
                except (ValueError, KeyError):
                    pass
        rts = sorted(set((m, e, a, tuple(p)) for m, e, a, p in rts))
        if len(rts) < 60:
            raise vf.NoVerdict("the server's route dump was not found in its log (%d routes)" % len(rts))
        return rts


# ------------------------------------------------------------------ requests for a route of the real table
def expand(fx, method, endpoint, thorough):
    """concrete requests (path, body, headers, note) for one route pattern: parameters take the fixture's objects"""
    dom = {"name": ["admin", "carol", "dave", "nosuch"], "dsn": ["d1", "pg1", "nosuch"], "table": ["t1", "nosuch"],
           "id": [str(uuid.UUID(int=7))], "item...": ["ego.css", "../oauthdir/clients.json", "..%2f..%2foauthdir%2fsigning.pem"],
           "value": ["12"], "field": ["age"], "code": ["200"]}
    if endpoint.startswith("/services/cluster/"):
        dom["name"] = ["status", "nosuch"]
    params = re.findall(r"\{\{([^}]+)\}\}", endpoint)
    paths = [endpoint]
    for p in params:
        vals = dom.get(p, ["x"])
        if not thorough and len(params) > 1:
            vals = vals[:2]
        paths = [q.replace("{{%s}}" % p, v, 1) for q in paths for v in vals]
    key = method + " " + endpoint
    iss = fx.issuer
    form = {"Content-Type": "application/x-www-form-urlencoded"}
    reqs = []
    for path in paths:
        if key == "POST /admin/config":
            continue                                   # the settings sweep
        elif key == "GET /admin/users/":
            reqs += [(path, None, None, ""), (path + "?limit=2&start=1", None, None, "paged")]
        elif key == "GET /dsns/":
            reqs += [(path, None, None, ""), (path + "?limit=1&start=0", None, None, "paged")]
        elif key == "GET /admin/caches":
            reqs += [(path, None, None, ""), (path + "?order-by=count", None, None, "")]
        elif key == "GET /admin/validation/":
            reqs += [(path, None, None, ""), (path + "?method=POST&path=/admin/users/", None, None, ""), (path + "?entry=@user", None, None, "")]
        elif key == "GET /services/admin/log":
            reqs += [(path + "?tail=100000", None, None, "whole log"), (path + "?tail=300", None, {"Accept": "text/plain"}, "text"),
                     (path + "?tail=500&class=server,auth,rest,app", None, None, "classes")]
        elif key in ("POST /admin/run", "POST /admin/ast", "POST /admin/format"):
            reqs.append((path, {"code": 'import "fmt"\nfunc main() {\n fmt.Println("hello")\n}\n'}, None, "benign program"))
        elif key == "POST /admin/users/":
            continue                                   # history phase
        elif key == "POST /dsns/":
            reqs.append((path, {"name": "d1", "provider": "sqlite", "database": "x.db"}, None, "duplicate name"))
        elif key == "POST /dsns/@permissions":
            reqs += [(path, {"items": [{"dsn": "pg1", "user": "dave", "actions": ["+read"]}]}, None, "grant (list)"),
                     (path, {"dsn": "pg1", "user": "dave", "actions": ["+write"]}, None, "grant (single)")]
        elif key == "POST /admin/caches":
            reqs.append((path, {"limit": 25}, None, ""))
        elif key == "POST /admin/loggers/":
            reqs.append((path, {"loggers": {"TABLES": False}}, None, ""))
        elif key.endswith("/tables/@sql") and method == "POST":
            reqs += [(path, ["select * from t1"], None, "select"), (path, "select name from sqlite_master", {"Content-Type": "text/plain"}, "text")]
        elif key.endswith("/tables/@transaction"):
            reqs.append((path, [{"operation": "select", "table": "t1", "filters": ["EQ(id,1)"]}], None, ""))
        elif key.endswith("/tables/@generate"):
            reqs.append((path, {"prompt": "all rows of t1"}, None, ""))
        elif key == "POST /services/admin/logon":
            reqs += [(path, {"username": "admin", "password": ADMIN_PW}, None, "body credentials"),
                     (path, {"username": "carol", "password": "wrong-pw"}, None, "bad password")]
        elif key == "GET /oauth2/authorize":
            q = urllib.parse.urlencode({"response_type": "code", "client_id": "cnryapp", "redirect_uri": iss + "/cb", "scope": "openid",
                                        "state": "st1", "code_challenge": "E9Melhoa2OwvFrEMTJguCHaoeK1t8URWbuGJSstw-cM", "code_challenge_method": "S256"})
            reqs += [(path + "?" + q, None, {"Accept": "text/html"}, "login form"),
                     (path + "?" + q.replace("cnryapp", "cnryhashed").replace("%2Fcb", "%2Fcb2"), None, {"Accept": "text/html"}, "other client"),
                     (path + "?" + q.replace("cnryapp", "nosuch"), None, {"Accept": "text/html"}, "unknown client")]
        elif key == "POST /oauth2/authorize":
            f = {"response_type": "code", "client_id": "cnryapp", "redirect_uri": iss + "/cb", "scope": "openid", "state": "st1",
                 "code_challenge": "E9Melhoa2OwvFrEMTJguCHaoeK1t8URWbuGJSstw-cM", "code_challenge_method": "S256",
                 "username": "admin", "password": ADMIN_PW}
            reqs += [(path, urllib.parse.urlencode(f), form, "login"),
                     (path, urllib.parse.urlencode(dict(f, password="wrong")), form, "bad password")]
        elif key == "POST /oauth2/token":
            reqs += [(path, urllib.parse.urlencode({"grant_type": "client_credentials", "client_id": "cnryapp",
                                                    "client_secret": "not-the-secret", "scope": "openid"}), form, "wrong secret"),
                     (path, urllib.parse.urlencode({"grant_type": "client_credentials", "client_id": "cnryhashed",
                                                    "client_secret": "x"}), form, "hashed client"),
                     (path, urllib.parse.urlencode({"grant_type": "authorization_code", "client_id": "cnryapp", "code": "nocode",
                                                    "redirect_uri": iss + "/cb", "code_verifier": "v"}), form, "bad code"),
                     (path, urllib.parse.urlencode({"grant_type": "refresh_token", "client_id": "cnryapp", "refresh_token": "none"}), form, "bad refresh")]
        elif key == "POST /oauth2/revoke":
            reqs.append((path, urllib.parse.urlencode({"token": "abc", "client_id": "cnryapp", "client_secret": "x"}), form, ""))
        elif method == "POST":
            reqs.append((path, {}, None, "empty object"))
        else:
            reqs.append((path, None, None, ""))
    return reqs


def spellings(name, rng):
    mixed = "".join(c.upper() if rng.random() < 0.5 else c for c in name)
    return [name, name.upper(), mixed if mixed not in (name, name.upper()) else name.title()]


class Recorder:
    def __init__(self, fx, only=None):
        self.fx, self.recs, self.only = fx, [], only
        self.hist = {}

    def do(self, route, method, path, body=None, headers=None, asked=None, phase="scan", note="", token=True, sync=None, auth=None):
        """one request; `sync` (for requests that change a store) re-reads the stores between the answer and the search, so
        that the answer is searched for the values the request itself caused to be stored"""
        if self.only and route != self.only and not sync:
            return None
        fx = self.fx
        r = fx.srv.req(method, path, body, token=fx.tok if token else None, headers=headers, raw=True, auth=auth)
        if sync:
            sync(r)
        found = fx.reg.locate(r.body, r.headers)
        self.hist[r.status] = self.hist.get(r.status, 0) + 1
        self.recs.append(dict(route=route, method=method, path=path, status=r.status, asked=asked or [], phase=phase, note=note,
                              found=found, bodylen=len(r.body)))
        return r


def sweep_config(rec, fx, names, rng, phase, all_spellings=True):
    rec.do("GET /admin/config", "GET", "/admin/config", phase=phase)
    order = list(names)
    rng.shuffle(order)
    for n in order:
        for s in (spellings(n, rng) if all_spellings else [n]):
            rec.do("POST /admin/config", "POST", "/admin/config", [s], asked=[s], phase=phase, note="one name")
    rec.do("POST /admin/config", "POST", "/admin/config", sorted(names), asked=sorted(names), phase=phase, note="every name at once")
    for _ in range(6):
        pair = rng.sample(order, 2)
        rec.do("POST /admin/config", "POST", "/admin/config", pair, asked=pair, phase=phase, note="two names")


def scan_routes(rec, fx, rng, thorough, phase, only_prefix=None):
    done, skipped = [], []
    rts = list(fx.routes)
    rng.shuffle(rts)
    for method, endpoint, auth, perms in rts:
        key = method + " " + endpoint
        if method not in ("GET", "POST"):
            continue
        if only_prefix and not endpoint.startswith(only_prefix):
            continue
        if key in EXCLUDED:
            skipped.append(key)
            continue
        for path, body, headers, note in expand(fx, method, endpoint, thorough):
            rec.do(key, method, path, body, headers, phase=phase, note=note)
        done.append(key)
    return done, skipped


def oauth_flow(rec, fx, phase):
    """one complete authorization-code + PKCE exchange, refresh, userinfo, revocation (RFC 7636 appendix B verifier)"""
    iss = fx.issuer
    form = {"Content-Type": "application/x-www-form-urlencoded"}
    q = {"response_type": "code", "client_id": "cnryapp", "redirect_uri": iss + "/cb", "scope": "openid profile", "state": "st2",
         "code_challenge": "E9Melhoa2OwvFrEMTJguCHaoeK1t8URWbuGJSstw-cM", "code_challenge_method": "S256"}
    r = rec.do("GET /oauth2/authorize", "GET", "/oauth2/authorize?" + urllib.parse.urlencode(q), headers={"Accept": "text/html"}, phase=phase, note="flow: form")
    if r is None:
        return
    m = re.search(rb'name="csrf_token"\s+value="([^"]+)"', r.body)
    csrf = m.group(1).decode() if m else ""
    h = dict(form, Cookie="ego_oauth_csrf=" + csrf)
    r = rec.do("POST /oauth2/authorize", "POST", "/oauth2/authorize",
               urllib.parse.urlencode(dict(q, csrf_token=csrf, username="admin", password=ADMIN_PW)), headers=h, phase=phase, note="flow: login")
    loc = (r.headers.get("Location") or "") if r is not None else ""
    code = (urllib.parse.parse_qs(urllib.parse.urlparse(loc).query).get("code") or [""])[0]
    r = rec.do("POST /oauth2/token", "POST", "/oauth2/token",
               urllib.parse.urlencode({"grant_type": "authorization_code", "client_id": "cnryapp", "client_secret": fx.client_secret, "code": code,
                                       "redirect_uri": iss + "/cb", "code_verifier": "dBjftJeZ4CVP-mB92K27uhbUJU1p1r_wW1gFWFOEjXk"}),
               headers=form, phase=phase, note="flow: code exchange")
    try:
        tk = json.loads(r.body) if r is not None else {}
    except ValueError:
        tk = {}
    at, rt = tk.get("access_token", ""), tk.get("refresh_token", "")
    rec.do("GET /oauth2/userinfo", "GET", "/oauth2/userinfo", headers={"Authorization": "Bearer " + at}, token=False, phase=phase, note="flow: userinfo")
    rec.do("POST /oauth2/token", "POST", "/oauth2/token",
           urllib.parse.urlencode({"grant_type": "refresh_token", "client_id": "cnryapp", "client_secret": fx.client_secret, "refresh_token": rt}),
           headers=form, phase=phase, note="flow: refresh")
    rec.do("POST /oauth2/token", "POST", "/oauth2/token",
           urllib.parse.urlencode({"grant_type": "client_credentials", "client_id": "cnryapp", "client_secret": fx.client_secret, "scope": "openid"}),
           headers=form, phase=phase, note="flow: client credentials")
    rec.do("POST /oauth2/revoke", "POST", "/oauth2/revoke",
           urllib.parse.urlencode({"token": rt or at, "client_id": "cnryapp", "client_secret": fx.client_secret}), headers=form, phase=phase, note="flow: revoke")
    fx.oauth_ok = bool(at)


def history_phase(rec, fx, rng, names, thorough):
    """change the stores through the API, then ask again (values of the previous generation are no longer stored)"""
    ph = "history"
    # lib/validations/config.json lets PATCH name only the known ego.* settings: one secret, one unclaimed, one plain
    fx.unclaimed_pw2 = canary(rng)
    patch = {"ego.server.oauth.client.secret": canary(rng), "ego.server.ai.model": canary(rng),
             "ego.server.default.credential": "admin:" + fx.unclaimed_pw2}

    def patched(r):
        if r.status != 200:
            raise vf.NoVerdict("history phase: PATCH /admin/config refused (%s): %s" % (r.status, r.body[:300]))
        fx.settings.update(patch)
        fx.unclaimed_pw = fx.unclaimed_pw2
        fx.sync_settings()
    rec.do("PATCH /admin/config", "PATCH", "/admin/config", patch, phase=ph, note="new values", sync=patched)
    rec.do("PATCH /admin/config", "PATCH", "/admin/config", {"ego.logon.refresh.token": canary(rng)}, phase=ph, note="read-only name")
    users = lambda r: fx.sync_users()
    rec.do("POST /admin/users/", "POST", "/admin/users/", {"name": "erin", "password": canary(rng), "permissions": ["ego.logon"]},
           phase=ph, note="create", sync=users)
    rec.do("PATCH /admin/users/{{name}}", "PATCH", "/admin/users/erin", {"name": "erin", "password": canary(rng)}, phase=ph, note="new password", sync=users)
    rec.do("PATCH /admin/users/{{name}}", "PATCH", "/admin/users/erin", {"name": "erin", "permissions": ["+ego.table.read"]}, phase=ph,
           note="new permission", sync=users)
    # first logon re-hashes bob's legacy credential
    box = {}

    def logged_on(r):
        try:
            box["tok"] = json.loads(r.body).get("token")
        except ValueError:
            pass
        fx.sync_users()
    rec.do("POST /services/admin/logon", "POST", "/services/admin/logon", phase=ph, note="bob's first logon", token=False,
           auth=("bob", "pw-bob-1"), sync=logged_on)
    btok = box.get("tok")
    new_pg = canary(rng)

    def dsn_changed(r):
        if r.status == 200:
            fx.dsn_plain["pg1"] = new_pg
        fx.sync_dsns()
    rec.do("PATCH /dsns/{{dsn}}/", "PATCH", "/dsns/pg1/", {"password": new_pg}, phase=ph, note="new password", sync=dsn_changed)
    new_d2 = canary(rng)

    def dsn_created(r):
        if r.status == 201:
            fx.dsn_plain["pg2"] = new_d2
        fx.sync_dsns()
    rec.do("POST /dsns/", "POST", "/dsns/", {"name": "pg2", "provider": "postgres", "database": "cnrydb2", "host": "127.0.0.1",
                                             "port": egosrv.free_port(), "user": fx.dsn_user, "password": new_d2}, phase=ph, note="create", sync=dsn_created)
    rec.do("GET /services/admin/log", "GET", "/services/admin/log?tail=100000", phase=ph, note="after the changes")
    # ask again
    hot = [n for n in names if n in fx.settings or n in NAMED] + [n for n in fx.settings if n not in names]
    sweep_config(rec, fx, sorted(set(hot)) if not thorough else sorted(set(names) | set(fx.settings)), rng, ph, all_spellings=False)
    for n in ("erin", "bob", "admin"):
        rec.do("GET /admin/users/{{name}}", "GET", "/admin/users/" + n, phase=ph)
    rec.do("GET /admin/users/", "GET", "/admin/users/", phase=ph)
    rec.do("GET /dsns/", "GET", "/dsns/", phase=ph)
    rec.do("GET /dsns/{{dsn}}/", "GET", "/dsns/pg1/", phase=ph)
    rec.do("GET /dsns/{{dsn}}/tables/", "GET", "/dsns/pg1/tables/", phase=ph, note="unreachable database")
    rec.do("GET /services/admin/log", "GET", "/services/admin/log?tail=100000", phase=ph, note="whole log")
    if btok:
        rec.do("GET /services/admin/authenticate", "GET", "/services/admin/authenticate", phase=ph, note="as bob", headers={"Authorization": "Bearer " + btok}, token=False)
    if thorough:
        scan_routes(rec, fx, rng, False, ph)
    # removal answers with the removed record
    rec.do("DELETE /admin/users/{{name}}", "DELETE", "/admin/users/erin", phase=ph)
    rec.do("DELETE /dsns/{{dsn}}/", "DELETE", "/dsns/pg1/", phase=ph)


# ------------------------------------------------------------------ stages
def _tlc_jobs(sd, jobs):
    def one(item):
        name, kw = item
        kw = dict(kw)
        try:
            return name, vf.tlc(SPEC, kw.pop("module"), kw.pop("cfg"), sd, **kw), None
        except vf.NoVerdict as ex:
            return name, None, ex
    with ThreadPoolExecutor(max_workers=len(jobs)) as ex:
        res = list(ex.map(one, list(jobs.items())))
    out = {}
    for name, r, err in res:
        if err:
            raise err
        out[name] = r
    return out


def describe(rec, key):
    leak = [f for f in rec["found"]]
    return ("%s %s -> HTTP %s shows %s%s" % (rec["method"], rec["path"], rec["status"],
            ", ".join(sorted({"%s (%s, %s in %s)" % (f["label"], f["store"], f["enc"], f["where"]) for f in leak})),
            (" [asked %s]" % ",".join(rec["asked"][:3])) if rec["asked"] else ""))


def locator_selftest(fx, rng, sample_body):
    """every encoding of a stored secret spliced into a real response body must be located (else the scan is blind)"""
    secrets = [e for e in fx.reg.ents if e["store"] not in ("control", "unclaimed")]
    for e in secrets:
        for enc, n in Registry.encodings(e["value"]):
            cut = rng.randrange(0, len(sample_body) + 1)
            f = fx.reg.locate(sample_body[:cut] + n + sample_body[cut:], {})
            if not any(x["label"] == e["label"] and x["enc"] == enc for x in f):
                raise vf.NoVerdict("locator self-test: %s under %s was not located" % (e["label"], enc))
        f = fx.reg.locate(b"{}", {"X-Leak": base64.b64encode(e["value"]).decode()})
        if not any(x["label"] == e["label"] and x["where"] == "header" for x in f):
            raise vf.NoVerdict("locator self-test: %s in a header was not located" % e["label"])
    if fx.reg.locate(sample_body.replace(b"Cy", b"Cx"), {}) and not fx.reg.locate(sample_body, {}):
        raise vf.NoVerdict("locator self-test: findings in a body without planted values")
    return len(secrets)


def selftest_records(recs, rng):
    """(record, expected key | None) pairs for the binding self-test: built from real 200 answers that show nothing"""
    blank = [r for r in recs if r["status"] == 200 and not r["found"]]
    if len(blank) < 10:
        raise vf.NoVerdict("self-test: too few answers without findings to build on")
    base = dict(store="control", name="", marks=[], enc="raw", where="body", label="selftest")
    muts = []

    def inj(f, expect):
        m = json.loads(json.dumps(rng.choice(blank)))
        m["phase"] = "selftest"
        m["found"] = [dict(base, **x) for x in f]
        muts.append((m, (m["route"] + "/" + expect) if expect not in (None, "not-a-case") else expect))
    for st in ("userhash", "dsnpassword", "dsnstored", "clientsecret", "clienthash", "signingkey"):
        inj([dict(store=st, enc=rng.choice(["raw", "base64", "base64url", "hex", "HEX", "urlescaped", "jsonescaped"]))], st)
    for n in NAMED:
        inj([dict(), dict(store="setting", name=n, where=rng.choice(["body", "header"]))], "setting:" + n)
    inj([dict(store="setting", name="x.password.y", marks=["password"])], "setting:*password*")
    inj([dict(store="setting", name="x.credentials", marks=["credentials"]), dict(store="unclaimed")], "setting:*credentials*")
    inj([dict(store="nosuchstore")], "not-a-case")
    inj([dict(store="setting", name="a.b", marks=["secretish"])], "not-a-case")
    inj([dict(store="userhash", enc="rot13")], "not-a-case")
    inj([dict(), dict(store="unclaimed", enc="hex", where="header"), dict(store="setting", name="app.plain")], None)
    inj([dict(store="setting", name="ego.server.token.expiration")], None)
    return muts


def run_config(chk, sd, ego, names, rng, thorough, mode, loggers, replay_route=None):
    fx = Fixture(sd, ego, rng, mode=mode, loggers=loggers)
    try:
        fx.start()
        rec = Recorder(fx, only=replay_route)
        t0 = time.time()
        allnames = sorted(set(names["valid"]) | set(names["restricted"]) | set(names["readonly"]) | set(names["encrypted"])
                          | set(fx.settings) | {"ego.server.token", "nosuch.setting"})
        sweep_config(rec, fx, allnames, rng, "scan")
        done, skipped = scan_routes(rec, fx, rng, thorough, "scan")
        oauth_flow(rec, fx, "scan")
        history_phase(rec, fx, rng, allnames, thorough)
        vf.log("C44 %s/%s: %d responses in %.1fs (%d routes)" % (mode, loggers, len(rec.recs), time.time() - t0, len(done)))
        body = fx.root("GET", "/admin/config", raw=True).body
        nsec = locator_selftest(fx, rng, body)
        return fx, rec, done, skipped, allnames, nsec
    finally:
        fx.stop()


def run():
    thorough = vf.TIER == "thorough"
    chk = vf.Check(PROP)
    os.environ.setdefault("JAVA_TOOL_OPTIONS", "-XX:ParallelGCThreads=2 -XX:CICompilerCount=2")
    replay = os.environ.get("VERIF_REPLAY")
    replay_route = json.load(open(replay))["replay"]["route"] if replay else None
    rng = random.Random(vf.SEED)
    chk.assumptions += [
        "secret = what SecretsClass!IsSecret says: the stores the statement lists, the four named settings, and every setting whose name contains "
        "'password' or 'credentials' (the configuration listing's own documented policy); ego.server.default.credential and other values are "
        "planted and located but not claimed",
        "the harness locates stored values by substring search of the whole value under raw, base64, base64url, hex, URL-escaped and JSON-escaped "
        "encodings in body and headers; a secret split, truncated, hashed or otherwise transformed by a handler is not recognised",
        "administrator = user 'admin' holding ego.root, bearer token; requests without Accept-Encoding (bodies are not compressed)",
        "POST /admin/run, /admin/ast, /admin/format execute or echo a program supplied by the caller: they are requested with a benign program only "
        "(what a caller's own program prints is the request, not a handler's elision)",
        "routes that stop the server are not requested: " + "; ".join("%s (%s)" % kv for kv in sorted(EXCLUDED.items())),
        "only SQLite / unreachable PostgreSQL data sources exist offline; the OAuth2 resource-server role (external provider) is not enabled",
    ]
    with vf.scratch(prefix="c44-") as sd:
        # ---- builds and model checking side by side
        ov = vf.make_overlay(sd, HARNESS)
        box = {}

        def build():
            try:
                dev = os.environ.get("VERIF_C44_EGO")       # development accelerator only: a binary already built from vf.REPO
                box["ego"] = dev if dev and os.path.exists(dev) else vf.go_build(ov, ".", os.path.join(sd, "ego"), timeout=3000)
            except Exception as ex:      # noqa
                box["ego_err"] = ex

        def names():
            out = os.path.join(sd, "names.json")
            try:
                p = vf.go_test(ov, "./internal/cli/settings/", "^TestVerifC44Names$", env={"VERIF_OUT": out}, timeout=1500)
                if p.returncode != 0 or not os.path.exists(out):
                    raise vf.NoVerdict("names harness failed (rc=%d)\n%s\n%s" % (p.returncode, p.stdout[-2000:], p.stderr[-2000:]))
                box["names"] = json.load(open(out))
            except Exception as ex:      # noqa
                box["names_err"] = ex
        th = [threading.Thread(target=build), threading.Thread(target=names)]
        for t in th:
            t.start()
        jobs = {
            "mc": dict(module="Secrets", cfg="Secrets_MC_wide.cfg" if thorough else "Secrets_MC.cfg", workers=4 if thorough else 2, timeout=1500),
            "neg_asis_NoLeak": dict(module="Secrets", cfg="Secrets_MC_asis_NoLeak.cfg", workers=1, timeout=900),
            "neg_asis_Agree": dict(module="Secrets", cfg="Secrets_MC_asis_Agree.cfg", workers=1, timeout=900),
            "neg_onelist_NoLeak": dict(module="Secrets", cfg="Secrets_MC_onelist_NoLeak.cfg", workers=1, timeout=900),
        }
        res = _tlc_jobs(sd, jobs)
        vf.tlc_ok(res["mc"], "Secrets MC (shared predicate)")
        chk.add_tlc(res["mc"], "MC shared-predicate variant: TypeOK NoLeak Agree ElisionIsSecrecy")
        for nm, inv in (("neg_asis_NoLeak", "NoLeak"), ("neg_asis_Agree", "Agree"), ("neg_onelist_NoLeak", "NoLeak")):
            rn = res[nm]
            if rn.violated != inv:
                raise vf.NoVerdict("negative control %s: the variant did not violate %s (violated=%s error=%s)" % (nm, inv, rn.violated, (rn.error or "")[:300]))
            chk.add_tlc(rn, "negative control: %s violates %s" % (nm.split("_")[1], inv), count_states=False)
        for t in th:
            t.join()
        for k in ("ego_err", "names_err"):
            if k in box:
                raise box[k] if isinstance(box[k], vf.NoVerdict) else vf.NoVerdict("build failed: %r" % box[k])
        names_tbl = box["names"]
        if len(names_tbl["valid"]) < 80 or not set(NAMED) <= (set(names_tbl["valid"]) | set(names_tbl["restricted"])):
            raise vf.NoVerdict("the code's setting tables do not contain the named secret settings any more: %s" % names_tbl["restricted"])

        # ---- the real server, every store planted
        configs = [("file", "SERVER,ROUTE")]
        if thorough:
            configs += [("db", "SERVER,ROUTE"), ("db", "SERVER,ROUTE,REST,AUTH,APP,TABLES,DB,SQL")]
        allrecs, summary = [], []
        for mode, loggers in configs:
            fx, rec, done, skipped, allnames, nsec = run_config(chk, sd, box["ego"], names_tbl, rng, thorough, mode, loggers, replay_route)
            recs = rec.recs
            if not recs:
                raise vf.NoVerdict("no response recorded (replay route not in the table?)")
            if not replay:
                # vacuity guards on the driver (never verdicts)
                def seen(route, label_prefix, store=None):
                    return any(r["route"] == route and r["status"] == 200 and
                               any(f["label"].startswith(label_prefix) and (store is None or f["store"] == store) for f in r["found"]) for r in recs)
                need = [("GET /admin/config", "setting:app.plain.note"), ("POST /admin/config", "setting:app.plain.note"),
                        ("GET /admin/config", "setting:app.public.banner"), ("GET /admin/users/", "user:carol:id"),
                        ("GET /admin/users/{{name}}", "user:dave:id"), ("GET /dsns/", "dsnuser"), ("GET /dsns/{{dsn}}/", "dsnuser"),
                        ("GET /.well-known/jwks.json", "key:pub:x")]
                for route, lab in need:
                    if not seen(route, lab):
                        raise vf.NoVerdict("control value %s was not located in any 200 answer of %s: the scan is blind there" % (lab, route))
                if not getattr(fx, "oauth_ok", False):
                    raise vf.NoVerdict("the OAuth2 authorization-code exchange did not produce an access token (driver too weak)")
                ok200 = {r["route"] for r in recs if r["status"] == 200}
                if len(ok200) < 40:
                    raise vf.NoVerdict("degenerate run: only %d routes answered 200 (%s)" % (len(ok200), rec.hist))
            # the binding self-test rides in the same contract run (first configuration): records that show nothing get one
            # finding of every secret class injected and must be rejected with the expected key; open values must be accepted
            muts = selftest_records(recs, rng) if (not summary and not replay) else []
            io = vf.write_ndjson(os.path.join(sd, "io-%s-%d.ndjson" % (mode, len(summary))), recs + [m for m, _ in muts])
            n, bad = vf.fio_validate(chk, SPEC, "Secrets_Trace", "Secrets_Trace.cfg", sd, io,
                                     name="contract IsSecret over real responses (%s store, loggers %s)" % (mode, loggers), timeout=1500)
            if n != len(recs) + len(muts):
                raise vf.NoVerdict("contract saw %d of %d records" % (n, len(recs) + len(muts)))
            if muts:
                got = {}
                for b in bad:
                    if b["idx"] > len(recs):
                        got.setdefault(b["idx"] - len(recs), set()).add(b["key"])
                missed = [exp for k, (_m, exp) in enumerate(muts) if exp is not None and got.get(k + 1, set()) != {exp}]
                wrong = [got[k + 1] for k, (_m, exp) in enumerate(muts) if exp is None and got.get(k + 1)]
                if missed:
                    raise vf.NoVerdict("binding self-test failed: injected secret findings not rejected with the expected key: %s" % missed)
                if wrong:
                    raise vf.NoVerdict("binding self-test failed: a record showing only open values was rejected: %s" % wrong)
                chk.cov["binding_selftest"] = ("%d records with an injected finding all rejected with the expected key, %d records with open "
                                               "values accepted" % (sum(1 for _m, e in muts if e), sum(1 for _m, e in muts if e is None)))
                bad = [b for b in bad if b["idx"] <= len(recs)]
                n = len(recs)
            if any(b["key"] == "not-a-case" for b in bad):
                raise vf.NoVerdict("the log contains records outside the contract's domain (WF failed)")
            for b in sorted(bad, key=lambda b: (b["key"], b["idx"])):
                r = recs[b["idx"] - 1]
                chk.violation(b["key"], describe(r, b["key"]), dict(r, config=[mode, loggers]))
            chk.cov["evaluations"] += n
            chk.cov["traces_validated_against_impl"] += n
            chk.cov["distinct_nontrivial"] += len({(r["route"], tuple(a.lower() for a in r["asked"]), r["phase"]) for r in recs if r["found"] or r["asked"]})
            summary.append({"store": mode, "loggers": loggers, "responses": n, "routes_requested": len(done), "routes_in_table": len(fx.routes),
                            "not_requested": skipped + sorted(m + " " + e for m, e, _a, _p in fx.routes if m not in ("GET", "POST")),
                            "setting_names": len(allnames), "stored_secret_values": nsec,
                            "status_histogram": {str(k): v for k, v in sorted(rec.hist.items())},
                            "responses_showing_a_stored_value": sum(1 for r in recs if r["found"])})
            allrecs.append((recs, {b["idx"] for b in bad}))
            for want in ("GET /admin/config", "GET /admin/users/", "GET /.well-known/jwks.json", "GET /dsns/{{dsn}}/"):
                for k, r in enumerate(recs):
                    if r["route"] == want and r["status"] == 200 and r["found"] and (k + 1) not in allrecs[-1][1]:
                        chk.sample({"kind": "accepted response", "case": describe(r, "")[:600]}, limit=6)
                        break
        chk.cov["configurations"] = summary
        if replay:
            chk.cov["rule"] = "replay of one route"
            return chk.finish()

        chk.cov["rule"] = ("responses = every GET/POST route of the server's own route dump requested as administrator with path parameters "
                           "instantiated by the fixture's objects + every setting name of defs.ValidSettings/RestrictedSettings/ReadonlySetting/"
                           "encryptedKeyValue and every planted name requested individually from POST /admin/config in 3 spellings + a second pass "
                           "after the stores were changed through the API; each response judged by Secrets_Trace (SecretsClass!IsSecret); "
                           "states/transitions = the shared-predicate handler model checked exhaustively at the bound")
        chk.cov["exhaustive"] = True
    return chk.finish()

"""C21 - native bearer tokens are honoured exactly while valid.
spec/TokenAuth (+_Gen, _Mut).  Stages:
  MC        the design (Impl="fixed": a TokenCache hit also asks the revocation list) satisfies C21 for every
            interleaving at the stated bound
  control   Impl="asis" (hit path trusts the cache) must violate Honoured - otherwise the invariant is vacuous
  R         TLC behaviours (general + focused: revocation race, un-revocation, expiry) forced step by step onto
            the real router/tokens/caches code through the verifGate hooks; reply and projected state compared
  F         every single-byte mutation of a real token string, judged by the TLA+ contract TokenAuth_Mut
  self-test a perturbed expected value (R) and a known-bad record (F) must be caught
Needs the gate hooks `verif hooks: tokens, router gates ...` in the tree under test."""
import json, os, random, re
from concurrent.futures import ThreadPoolExecutor
import vf

PROP = "C21"
PKG = "internal/verifharness/c21"
HARNESS = [vf.kit(PKG, "c21"),
           ("tokenauth/replay_test.go", PKG + "/replay_test.go"),
           ("tokenauth/mutations_test.go", PKG + "/mutations_test.go"),
           ("tokenauth/caches_export.go", "internal/caches/zz_verif_c21_export.go"),
           ("tokenauth/tokens_export.go", "internal/language/tokens/zz_verif_c21_export.go")]

# generator configs: (cfg, simulate num quick/thorough, behaviours replayed quick/thorough)
GENS = [("GenCore", 60, 400, 30, 200),
        ("GenInputs", 40, 200, 14, 60),
        ("GenRace", 200, 1200, 6, 30),
        ("GenRevCached", 2000, 8000, 6, 24),
        ("GenUnrevDel", 2000, 8000, 5, 20),
        ("GenUnrevFl", 2000, 8000, 5, 20),
        ("GenHits", 600, 3000, 6, 30),
        ("GenTick", 600, 3000, 6, 24)]


def _hooks_present():
    try:
        a = open(os.path.join(vf.REPO, "internal/router/auth.go")).read()
        b = open(os.path.join(vf.REPO, "internal/language/tokens/blacklist.go")).read()
    except OSError:
        return False
    return all(g in a for g in ('verifGate("auth.cacheFound"', 'verifGate("auth.beforeUnwrap"', 'verifGate("auth.beforeTokenCacheAdd"')) \
        and all(g in b for g in ('verifGate("blacklist.inserted"', 'verifGate("blacklist.purgedBlacklistCache"',
                                 'verifGate("delete.deleted"', 'verifGate("flush.purged"'))


def _private_overlay(sd, ov):
    """The shared generated-file cache is pruned by concurrent checks of other worktrees: keep private copies."""
    import shutil
    o = json.load(open(ov))
    for dst, src in list(o["Replace"].items()):
        if src.startswith(vf.CACHE):
            cp = os.path.join(sd, "gen_" + os.path.basename(src))
            shutil.copy(src, cp)
            o["Replace"][dst] = cp
    json.dump(o, open(ov, "w"), indent=1)
    return ov


def _gen(sd, cfg, num, seed):
    txt = open(os.path.join(vf.VERIF, "spec", "TokenAuth", "TokenAuth_%s.cfg" % cfg)).read()
    depth = int(re.search(r"Depth = (\d+)", txt).group(1))
    r = vf.tlc("TokenAuth", "TokenAuth_Gen", "TokenAuth_%s.cfg" % cfg, sd, workers=1, simulate="num=%d" % num,
               depth=depth + 1, seed=seed, timeout=2000)
    if r.violated or r.error or r.rc != 0:
        raise vf.NoVerdict("behaviour generation %s failed: %s %s\n%s" % (cfg, r.violated, r.error, r.stdout[-2000:]))
    seen, out = set(), []
    for b in r.records:
        s = json.dumps(b, sort_keys=True)
        if s not in seen:
            seen.add(s)
            out.append(b)
    return r, out


def _contract(chk, sd, io_path, name):
    """TokenAuth_Mut over a mutation log: (records judged, failing [{idx,key}], records outside the domain)."""
    r = vf.tlc("TokenAuth", "TokenAuth_Mut", "TokenAuth_Mut.cfg", sd, workers=1, files={"io.ndjson": io_path}, timeout=600)
    if r.error or r.violated or r.rc != 0:
        raise vf.NoVerdict("contract evaluation failed: %s %s\n%s" % (r.violated, r.error, r.stdout[-2500:]))
    rep = [x for x in r.records if isinstance(x, dict) and "bad" in x and "n" in x]
    if not rep:
        raise vf.NoVerdict("contract spec printed no report\n" + r.stdout[-1500:])
    if name:
        chk.add_tlc(r, name, count_states=False)
    rep = rep[-1]
    return int(rep["n"]), (rep["bad"] if isinstance(rep["bad"], list) else []), int(rep.get("notwf", 0))


def _run_test(binp, sd, test, env, timeout):
    e = dict(os.environ)
    e.update(env)
    return vf.run([binp, "-test.run", "^%s$" % test, "-test.count=1", "-test.timeout=%ds" % timeout],
                  cwd=sd, env=e, timeout=timeout + 60)


def run():
    thorough = vf.TIER == "thorough"
    chk = vf.Check(PROP)
    chk.assumptions += [
        "token expiry is real time embedded in the token: expired tokens are issued with a negative lifetime, tokens that expire mid-history with a "
        "sub-second/seconds lifetime that the harness waits out at Tick (a behaviour that real time overtook is re-run, never judged)",
        "cache expiry is one entry's deadline moved into the past followed by the real sweepExpired; background sweepers are parked",
        "tokens.IsBlacklisted is modelled as one atomic step (it runs entirely under tokens.mutex; removals by purge/expiry commute with it)",
        "an administrative operation in progress may count as not yet or already effective for a request that overlaps it (outcome must be right "
        "at some instant of the request's span)",
        "one server process, revocation table in SQLite, no remote authority, no key rotation, caches not full (limit 1000)",
        "every interleaving is explored on the model; the real code is driven through the interleavings TLC generated (sampled by VERIF_SEED)"]
    if not _hooks_present():
        raise vf.NoVerdict("the tree under test (%s) lacks the verifGate hooks in internal/router/auth.go and "
                           "internal/language/tokens/blacklist.go (commit 'verif hooks: tokens, router gates ...')" % vf.REPO)
    with vf.scratch() as sd:
        ov = _private_overlay(sd, vf.make_overlay(sd, HARNESS))
        binp = os.path.join(sd, "c21.test")
        W = 6 if thorough else 4
        with ThreadPoolExecutor(max_workers=12) as ex:
            f_bin = ex.submit(vf.go_test_compile, ov, "./" + PKG + "/", binp, "verif", False, 3000)
            f_mc = ex.submit(vf.tlc, "TokenAuth", "TokenAuth", "TokenAuth_MC.cfg" if thorough else "TokenAuth_MCq.cfg", sd,
                             workers=W, timeout=4000)
            f_neg = ex.submit(vf.tlc, "TokenAuth", "TokenAuth", "TokenAuth_MC_asis.cfg", sd, workers=2, timeout=2000)
            f_mc2 = ex.submit(vf.tlc, "TokenAuth", "TokenAuth", "TokenAuth_MC2.cfg", sd, workers=W, timeout=4000) if thorough else None
            f_gen = {g[0]: ex.submit(_gen, sd, g[0], g[2] if thorough else g[1], vf.SEED) for g in GENS}
            # 1. the design satisfies C21
            r = vf.tlc_ok(f_mc.result(), "TokenAuth MC")
            chk.add_tlc(r, "MC fixed")
            if f_mc2:
                chk.add_tlc(vf.tlc_ok(f_mc2.result(), "TokenAuth MC 2 tokens"), "MC fixed, 2 tokens")
            # 2. negative control
            rn = f_neg.result()
            if rn.violated != "Honoured":
                raise vf.NoVerdict("negative control: the as-is hit path did not violate Honoured (%s %s)" % (rn.violated, rn.error))
            chk.add_tlc(rn, "negative control (as-is TokenCache hit path) violates Honoured", count_states=False)
            # 3. behaviours
            rng = random.Random(vf.SEED)
            behs, tags = [], []
            for g in GENS:
                rg, recs = f_gen[g[0]].result()
                chk.add_tlc(rg, "gen " + g[0], count_states=False)
                if not recs:
                    raise vf.NoVerdict("generator %s produced no behaviours" % g[0])
                rng.shuffle(recs)
                take = recs[: (g[4] if thorough else g[3])]
                behs += take
                tags += [g[0]] * len(take)
            f_bin.result()
        chk.cov["behaviours_by_generator"] = {g[0]: tags.count(g[0]) for g in GENS}
        order = list(range(len(behs)))
        rng.shuffle(order)          # spread the slow (Tick) behaviours over the shards
        behs = [behs[i] for i in order]
        tags = [tags[i] for i in order]
        bf = vf.write_ndjson(os.path.join(sd, "beh.ndjson"), behs)
        # self-test input: one behaviour with one expected value perturbed
        st_i = next((i for i, b in enumerate(behs) if any(s["call"]["act"] == "Add" for s in b)), None)
        if st_i is None:
            raise vf.NoVerdict("self-test: no behaviour fills the TokenCache (generator too weak)")
        bad = json.loads(json.dumps(behs[st_i]))
        k = max(i for i, s in enumerate(bad) if s["call"]["act"] == "Add")
        bad[k]["st"]["tcache"] = [t for t in bad[k]["st"]["tcache"] if t != bad[k]["call"]["t"]]
        bfs = vf.write_ndjson(os.path.join(sd, "selftest.ndjson"), [bad])
        nsh = 8 if thorough else 6
        tmo = 20000 if thorough else 3000
        mout = os.path.join(sd, "mut.ndjson")
        with ThreadPoolExecutor(max_workers=nsh + 2) as ex:
            fs = [ex.submit(_run_test, binp, sd, "TestVerifC21Replay",
                            {"VERIF_IN": bf, "VERIF_OUT": os.path.join(sd, "replay%d.json" % i), "VERIF_SHARD": "%d/%d" % (i, nsh)}, tmo)
                  for i in range(nsh)]
            f_st = ex.submit(_run_test, binp, sd, "TestVerifC21Replay",
                             {"VERIF_IN": bfs, "VERIF_OUT": os.path.join(sd, "selftest.json")}, tmo)
            f_mut = ex.submit(_run_test, binp, sd, "TestVerifC21Mutations",
                              {"VERIF_OUT": mout, "VERIF_SEED": str(vf.SEED), "VERIF_CLASSES": "all" if thorough else "one",
                               "VERIF_STRIDE": "1" if thorough else "3", "VERIF_PAR": "8" if thorough else "4"}, tmo)
            procs = [f.result() for f in fs]
            pst, pmut = f_st.result(), f_mut.result()
        # 4. R verdicts
        total = {"behaviours": 0, "steps": 0, "transitions": 0, "act_counts": {}, "retried": 0, "inconclusive": 0}
        for i, p in enumerate(procs):
            outp = os.path.join(sd, "replay%d.json" % i)
            if not os.path.exists(outp):
                raise vf.NoVerdict("replay shard %d produced no result (rc=%d)\n%s\n%s" % (i, p.returncode, p.stdout[-3000:], p.stderr[-3000:]))
            res = json.load(open(outp))
            for m in res.get("mismatches") or []:
                m["generator"] = tags[m["behaviour"]] if m["behaviour"] < len(tags) else "?"
            vf.replay_violations(chk, res)
            for kk in ("behaviours", "steps", "transitions"):
                total[kk] += res[kk]
            for a, n in res["act_counts"].items():
                total["act_counts"][a] = total["act_counts"].get(a, 0) + n
            total["retried"] += res["extra"].get("retried", 0)
            total["inconclusive"] += res["extra"].get("inconclusive", 0)
            if res["extra"].get("stuck"):
                chk.notes += res.get("notes") or []
        if not chk.cands and total["behaviours"] + total["inconclusive"] != len(behs):
            raise vf.NoVerdict("replay stopped early: %d of %d behaviours" % (total["behaviours"], len(behs)))
        ntick = tags.count("GenTick")
        if not chk.cands and total["inconclusive"] > max(1, ntick // 2):
            raise vf.NoVerdict("%d behaviours stayed inconclusive (real time overtook them on every attempt; machine too loaded)" % total["inconclusive"])
        for need in ("Find", "Hit", "Unwrap", "Add", "BlInsert", "BlPurgeBL", "BlPurgeTok", "Tick", "DelCache", "FlDB"):
            if not chk.cands and not any(total["act_counts"].get(a) for a in need.split("|")):
                raise vf.NoVerdict("vacuity: no replayed behaviour contains the step %s" % need)
        chk.cov["traces_validated_against_impl"] += total["behaviours"]
        chk.cov["evaluations"] += total["steps"]
        chk.cov["distinct_nontrivial"] += total["transitions"]
        chk.cov["replay_act_counts"] = total["act_counts"]
        chk.cov["replay_retried_for_real_time"] = total["retried"]
        chk.cov["replay_inconclusive"] = total["inconclusive"]
        chk.sample({"kind": "replayed behaviour (steps with the replies the code gave)", "generator": tags[0],
                    "kinds": behs[0][0]["kind"], "calls": [s["call"] for s in behs[0]]})
        ri = next((i for i, t in enumerate(tags) if t == "GenRace"), None)
        if ri is not None:
            chk.sample({"kind": "revocation race forced on the real code", "calls":
                        ["%s(%s)->%s" % (s["call"]["act"], s["call"]["p"] or s["call"]["t"], s["call"]["reply"]) for s in behs[ri]]})
        # R self-test
        stp = os.path.join(sd, "selftest.json")
        if not os.path.exists(stp):
            raise vf.NoVerdict("self-test run produced no result\n" + pst.stdout[-2000:] + pst.stderr[-2000:])
        if not (json.load(open(stp)).get("mismatches")):
            raise vf.NoVerdict("binding self-test failed: a behaviour with a perturbed expected TokenCache was accepted")
        # 5. F: single-byte mutations judged by the contract
        if not os.path.exists(mout) and chk.cands:
            chk.notes.append("mutation stage produced no log; reporting the replay violations only")
            return chk.finish()
        if not os.path.exists(mout):
            raise vf.NoVerdict("mutation run produced no log (rc=%d)\n%s\n%s" % (pmut.returncode, pmut.stdout[-3000:], pmut.stderr[-3000:]))
        recs = vf.read_ndjson(mout)
        n, badl, notwf = _contract(chk, sd, mout, "contract: single-byte mutations")
        if notwf:
            raise vf.NoVerdict("%d mutation records are outside the contract's domain (harness error)" % notwf)
        if n != len(recs) or n == 0:
            raise vf.NoVerdict("contract judged %d of %d mutation records" % (n, len(recs)))
        for b in badl:
            rec = recs[b["idx"] - 1]
            chk.violation(b["key"], "an altered token string was accepted: position %d of %d, %r -> %r: %s"
                          % (rec["i"], rec["n"], rec["orig"], rec["repl"], json.dumps({x: rec[x] for x in ("router", "validate", "extract", "cached")})), rec)
        classes = {}
        for rec in recs:
            classes[rec["class"]] = classes.get(rec["class"], 0) + 1
        if not all(classes.get(c) for c in ("hex", "nonhex", "case")):
            raise vf.NoVerdict("mutation classes not all exercised: %s" % classes)
        chk.cov["evaluations"] += n
        chk.cov["mutations"] = {"records": n, "by_class": classes, "positions": len({rec["i"] for rec in recs}), "token_length": recs[0]["n"]}
        chk.sample({"kind": "mutation record", **recs[len(recs) // 2]})
        # F self-test: a known-bad record and an out-of-domain record
        kb = dict(recs[0]); kb.update(orig="a", repl="b", router=True, i=101)
        od = dict(recs[0]); od.update(orig="a", repl="a")
        pth = vf.write_ndjson(os.path.join(sd, "mut_selftest.ndjson"), [kb, od])
        n2, bad2, notwf2 = _contract(chk, sd, pth, None)
        if n2 != 2 or len(bad2) != 1 or notwf2 != 1:
            raise vf.NoVerdict("F self-test failed: known-bad / out-of-domain records not recognised: %s %s %s" % (n2, bad2, notwf2))
        chk.cov["binding_selftest"] = ("R: perturbed expected TokenCache after Add was reported as a mismatch; "
                                       "F: known-bad mutation record flagged, out-of-domain record excluded")
        chk.cov["rule"] = ("behaviours = TLC simulation of TokenAuth_Gen under 8 generator configs (general, input classes, and focused on the "
                           "revocation race / revocation of a cached token / un-revocation by Delete and by Flush / repeated cache hits / expiry), sampled by seed; every step forced on the real code via gates; "
                           "non-trivial+distinct = distinct (spec state before, step) pairs executed; evaluations = steps compared + mutation records judged")
        chk.cov["exhaustive"] = False
    return chk.finish()

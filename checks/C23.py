"""C23 - OAuth authorization codes and refresh tokens are single-use; PKCE codes need the matching verifier.
spec/OAuthGrant (+_Gen, _Trace).  Stages:
  MC            the design (Impl="fixed") satisfies SingleUse / PKCEOnly / NeverForbidden, exhaustively at small bounds
  neg. control  Impl="broken" (Delete's result ignored + absent verifier accepted) must violate SingleUse and PKCEOnly
  R             every complete behaviour of OAuthGrant_Gen (all interleavings of 1..3 requests, all attribute classes of the
                configuration) is forced on the real TokenHandler through the gate hook; reply, cache critical sections and
                cache contents compared after every step with what TLC computed
  self-test     behaviours of the "asis" model and falsified expected values must be reported by the replay
  T             unforced concurrent runs (-race) recorded at the cache critical sections are validated by TLC (OAuthGrant_Trace)
A VIOLATION is only a real 200 response at a step where the specification says the statement forbids a success
(grant already redeemed / challenge without the matching verifier).  Any other divergence between model and code is
model drift => no verdict."""
import json, os, random, re, threading, time
import vf

PROP = "C23"
PKG = "./internal/server/oauth/authserver/"
HARNESS = [vf.kit("internal/server/oauth/authserver", "authserver"),
           ("oauthgrant/replay_test.go", "internal/server/oauth/authserver/zz_verif_c23_replay_test.go"),
           ("oauthgrant/trace_test.go", "internal/server/oauth/authserver/zz_verif_c23_trace_test.go")]
SPEC = "OAuthGrant"


def cfg_grants(cfg):
    txt = open(os.path.join(vf.VERIF, "spec", SPEC, cfg)).read()
    out = []
    for name in ("Codes", "Tokens"):
        m = re.search(r"^\s*%s\s*=\s*\{([^}]*)\}" % name, txt, re.M)
        out += re.findall(r'"([^"]+)"', m.group(1)) if m else []
    return out


def par(jobs):
    """run callables concurrently; re-raise the first exception"""
    res, errs = {}, []

    def one(k, f):
        try:
            res[k] = f()
        except BaseException as ex:  # noqa
            errs.append(ex)
    ts = [threading.Thread(target=one, args=(k, f)) for k, f in jobs.items()]
    for t in ts:
        t.start()
    for t in ts:
        t.join()
    if errs:
        nv = [e for e in errs if isinstance(e, vf.NoVerdict)]
        raise (nv[0] if nv else errs[0])
    return res


def gen(sd, cfg, workers=1, timeout=900):
    r = vf.tlc(SPEC, "OAuthGrant_Gen", cfg, sd, workers=workers, timeout=timeout)
    if r.violated or r.error or r.rc != 0:
        raise vf.NoVerdict("behaviour generation %s failed: %s %s\n%s" % (cfg, r.violated, r.error, r.stdout[-2000:]))
    if not r.records:
        raise vf.NoVerdict("generator %s produced no behaviours" % cfg)
    g = cfg_grants(cfg)
    return r, [{"grants": g, "steps": b, "cfg": cfg} for b in r.records]


def replay(sd, testbin, behs, name, env=None):
    inp = vf.write_ndjson(os.path.join(sd, name + ".in.ndjson"), behs)
    out = os.path.join(sd, name + ".out.json")
    e = vf.goenv({"VERIF_IN": inp, "VERIF_OUT": out, "VERIF_SEED": str(vf.SEED)})
    e.update(env or {})
    p = vf.run([testbin, "-test.run", "^TestVerifOAuthGrantReplay$", "-test.timeout", "1500s"], cwd=sd, env=e, timeout=1600)
    if not os.path.exists(out):
        raise vf.NoVerdict("replay harness produced no result (rc=%d)\n%s\n%s" % (p.returncode, p.stdout[-3000:], p.stderr[-3000:]))
    res = json.load(open(out))
    if res.get("fatal"):
        raise vf.NoVerdict("replay driver died: %s\n%s" % (res["fatal"], p.stdout[-1500:]))
    if res["behaviours"] != len(behs):
        raise vf.NoVerdict("replay stopped early: %s of %s" % (res["behaviours"], len(behs)))
    return res


def calls_of(beh):
    return ["%s(%s%s)" % (s["call"]["act"], s["call"]["r"],
                          (": %s %s as %s, redirect %s, verifier %s" % (s["call"]["kind"], s["call"]["target"], s["call"]["client"],
                                                                       s["call"]["redirect"], s["call"]["verifier"]))
                          if s["call"]["act"] == "Arrive" else "") for s in beh["steps"]]


def classify(chk, res, behs):
    """forbidden successes -> candidate violations; everything else -> drift (returned)"""
    drift = []
    for m in res.get("mismatches") or []:
        beh = behs[m["behaviour"]]
        if m["got_status"] == 200 and m["forbid"]:
            tgt = m["call"]["target"]
            what_t = "refresh" if m["kind"] == "refresh" else "code"
            if m["forbid"] == "reuse":
                when = "lookup-before-the-winner-deleted" if m["act"] == "Consume" else "after-the-redemption-completed"
                key = "reuse/%s/%s" % (what_t, when)
                what = ("the %s %s yielded tokens a second time (%s): request %s got 200 although an earlier request had already "
                        "redeemed it; schedule: %s" % ("refresh token" if what_t == "refresh" else "authorization code", tgt,
                                                        when.replace("-", " "), m["call"]["r"],
                                                        " ; ".join(calls_of(beh)[:m["step"] + 1])))
            else:
                chal = {"cA": "s256", "cBp": "s256", "cBx": "plain"}.get(tgt, "?")
                ver = next((s["call"]["verifier"] for s in beh["steps"] if s["call"]["r"] == m["call"]["r"]), "?")
                owner = {"cA": "public-client", "cBp": "confidential-client", "cBx": "confidential-client"}.get(tgt, "?")
                key = "pkce/%s/%s/verifier-%s" % (chal, owner, ver)
                what = ("code %s (challenge %s) yielded tokens to a request whose verifier is of class '%s', not the matching one; "
                        "schedule: %s" % (tgt, chal, ver, " ; ".join(calls_of(beh)[:m["step"] + 1])))
            chk.violation(key, what, {"behaviour": {"grants": beh["grants"], "steps": beh["steps"]}, "mismatch": m})
        else:
            drift.append(m)
    return drift


def run():
    thorough = vf.TIER == "thorough"
    chk = vf.Check(PROP)
    chk.assumptions += [
        "authorization codes are issued with the server's own storeCode()/generateRefreshToken() (the login form of /oauth2/authorize is not driven); "
        "three registered clients: A public, B confidential, C confidential without the refresh_token grant",
        "a request is forced through exactly the interleaving TLC chose by parking it at the gate hook between caches.Find and caches.Delete; "
        "finer interleavings inside one cache critical section do not exist (cacheLock)",
        "verifier strings are sampled by class (right, empty, right+'=', right+' ', right minus one char, the challenge itself, and a seeded family "
        "of other strings); SHA-256 collisions are out of scope",
        "cache expiry (the sweeper removing a code between lookup and delete) is not driven; it could only turn a success into a refusal"]
    if not os.path.exists(os.path.join(vf.REPO, "internal/server/oauth/authserver/zz_verifhook_on.go")):
        raise vf.NoVerdict("the tree %s has no authserver gate hook (commit 'verif hooks: authserver gate ...'); "
                           "the interleavings cannot be forced without it" % vf.REPO)
    with vf.scratch() as sd:
        ov = vf.make_overlay(sd, HARNESS)
        testbin = os.path.join(sd, "authserver.test")
        racebin = os.path.join(sd, "authserver.race.test")
        mc_cfg = "OAuthGrant_MC.cfg" if thorough else "OAuthGrant_MCq.cfg"
        gens = ["OAuthGrant_Gen1.cfg", "OAuthGrant_Gen2.cfg" if thorough else "OAuthGrant_Gen2q.cfg",
                "OAuthGrant_Gen3.cfg" if thorough else "OAuthGrant_Gen3q.cfg"]
        if os.environ.get("VERIF_REPLAY"):
            return run_replay(chk, sd, ov, testbin)
        w = 4 if thorough else 2
        t0 = time.time()
        jobs = {
            "buildrace": lambda: vf.go_test_compile(ov, PKG, racebin, race=True),
            "mc": lambda: vf.tlc(SPEC, "OAuthGrant", mc_cfg, sd, workers=8 if thorough else 4, timeout=1500),
            "broken": lambda: vf.tlc(SPEC, "OAuthGrant", "OAuthGrant_MC_broken.cfg", sd, workers=w, timeout=600, extra=["-continue"]),
            "genasis": lambda: gen(sd, "OAuthGrant_Gen2_asis.cfg"),
        }
        jobs["build"] = lambda: vf.go_test_compile(ov, PKG, testbin)
        for g in gens:
            jobs["gen:" + g] = (lambda g=g: gen(sd, g, workers=1))
        R = par(jobs)
        vf.log("C23: build + model checking + generation %.1fs" % (time.time() - t0))
        # 1. the design satisfies C23
        chk.add_tlc(vf.tlc_ok(R["mc"], "OAuthGrant MC"), "MC fixed (%s)" % mc_cfg)
        # 2. negative control / vacuity guard
        for inv in ("SingleUse", "PKCEOnly"):
            if "Invariant %s is violated" % inv not in R["broken"].stdout:
                raise vf.NoVerdict("negative control: the broken model (Delete's result ignored, absent verifier accepted) does not violate %s: %s"
                                   % (inv, (R["broken"].error or "")[:300]))
        chk.add_tlc(R["broken"], "negative control: broken model violates SingleUse and PKCEOnly", count_states=False)
        # 3. R: all complete behaviours forced on the real TokenHandler (the unforced concurrent runs are recorded meanwhile)
        behs = []
        for g in gens:
            r, b = R["gen:" + g]
            chk.add_tlc(r, "behaviours " + g, count_states=False)
            behs += b
        lost = [b for b in behs if len(b["steps"]) >= 4 and b["steps"][0]["call"]["act"] == b["steps"][1]["call"]["act"] == "Arrive"
                and b["steps"][0]["call"]["target"] == b["steps"][1]["call"]["target"] and not b["steps"][0]["st"]["done"] and not b["steps"][1]["st"]["done"]]
        if not lost:
            raise vf.NoVerdict("vacuity: no generated behaviour has two requests holding the same grant between lookup and delete")
        chained = [b for b in behs if any(s["st"]["status"] == 200 and s["call"]["target"].startswith("m_") for s in b["steps"])]
        if not chained:
            raise vf.NoVerdict("vacuity: no generated behaviour redeems a refresh token minted by an earlier request")
        t0 = time.time()
        R2 = par({"replay": lambda: replay(sd, testbin, behs, "replay"),
                  "record": lambda: record(sd, racebin, thorough)})
        vf.log("C23: replay of %d behaviours + recording %.1fs" % (len(behs), time.time() - t0))
        res = R2["replay"]
        drift = classify(chk, res, behs)
        chk.cov["traces_validated_against_impl"] += res["behaviours"]
        chk.cov["evaluations"] += res["steps"]
        chk.cov["distinct_nontrivial"] += res["transitions"]
        chk.cov["replay"] = {k: res[k] for k in ("behaviours", "steps", "successes", "lost_race_refusals", "parked", "act_counts")}
        chk.cov["replay"]["per_cfg"] = {g: len(R["gen:" + g][1]) for g in gens}
        chk.cov["behaviours_redeeming_a_minted_refresh_token"] = len(chained)
        chk.cov["behaviours_with_two_lookups_before_a_delete"] = len(lost)
        chk.sample({"kind": "replayed behaviour", "grants": behs[-1]["grants"], "calls": calls_of(behs[-1])})
        chk.sample({"kind": "replayed race behaviour", "calls": calls_of(lost[0]),
                    "replies": [[s["st"]["status"], s["st"]["err"]] for s in lost[0]["steps"]]})
        if drift:
            chk.notes.append("%d step(s) where the real handler differs from the code-shaped model without a forbidden success (model drift)" % len(drift))
        if not chk.cands:
            if drift:
                d = drift[0]
                raise vf.NoVerdict("model drift (not a violation of C23): the real handler differs from the code-shaped model in %d step(s), first: "
                                   "behaviour %d step %d %s path %s spec=%s real=%s; calls=%s" %
                                   (len(drift), d["behaviour"], d["step"], d["act"], d["path"], d["want"], d["got"], calls_of(behs[d["behaviour"]])))
            if res["successes"] == 0 or res["lost_race_refusals"] == 0 or res["parked"] == 0:
                raise vf.NoVerdict("vacuity: the replay saw %d successes, %d refusals after a lost race, %d parked requests" %
                                   (res["successes"], res["lost_race_refusals"], res["parked"]))
        # 4. T (judged by TLC) and the binding self-tests, concurrently
        t0 = time.time()
        def trace_guarded():
            try:
                trace_stage(chk, sd, R2["record"])
            except vf.NoVerdict as ex:
                if not found_in_replay:
                    raise
                chk.notes.append("trace stage gave no verdict (violations already established by the replay): %s" % str(ex)[:400])
        found_in_replay = bool(chk.cands)
        jobs = {"trace": trace_guarded}
        if not found_in_replay:
            jobs["selftest"] = lambda: selftest(chk, sd, testbin, R["genasis"], behs)
        else:
            chk.notes.append("replay self-tests skipped: violations found in replay")
        par(jobs)
        vf.log("C23: trace validation + self-tests %.1fs" % (time.time() - t0))
        chk.cov["rule"] = ("behaviours = every path to a terminal state of OAuthGrant_Gen (BFS, exhaustive for each listed configuration; requests "
                           "arrive in index order to drop symmetric copies); evaluations = steps forced on the real handler; non-trivial+distinct = "
                           "distinct (spec state, call) pairs executed; trace events = critical sections/calls/responses of unforced concurrent runs "
                           "accepted by OAuthGrant_Trace")
        chk.cov["exhaustive"] = True
    return chk.finish()


def selftest(chk, sd, testbin, genasis, behs):
    # (a) behaviours of the as-is model (Delete's result ignored): the real (repaired) handler must be reported as different
    r, ab = genasis
    doubles = [b for b in ab if sum(1 for s in b["steps"] if s["st"]["status"] == 200 and s["st"]["forbid"] == "reuse") > 0]
    if not doubles:
        raise vf.NoVerdict("self-test: the as-is generator produced no double redemption")
    rs = replay(sd, testbin, doubles, "selftest-asis")
    hit = {m["behaviour"] for m in rs.get("mismatches") or [] if m["field"] in ("status", "err", "minted", "events", "present", "done")}
    if len(hit) != len(doubles):
        raise vf.NoVerdict("binding self-test failed: %d of %d double-redemption behaviours of the as-is model replayed without a mismatch"
                           % (len(doubles) - len(hit), len(doubles)))
    chk.add_tlc(r, "behaviours of the as-is model (self-test)", count_states=False)
    # (b) one falsified expected value per kind must be reported at exactly that step
    rng = random.Random(vf.SEED)
    sub = behs[:]
    rng.shuffle(sub)
    sub = sub[:40]
    cands = [(bi, si) for bi, b in enumerate(sub) for si, s in enumerate(b["steps"]) if s["st"]["done"]]
    picks = {field: rng.choice(cands) for field in ("status", "present", "events")}
    rr = par({field: (lambda field=field: replay(sd, testbin, sub, "selftest-" + field,
                                                  env={"VERIF_PERTURB": "%d:%d:%s" % (picks[field][0], picks[field][1], field)}))
              for field in picks})
    for field, (bi, si) in picks.items():
        ms = rr[field].get("mismatches") or []
        if not any(m["behaviour"] == bi and m["step"] == si and m["field"] == field for m in ms) or any(m["behaviour"] != bi for m in ms):
            raise vf.NoVerdict("binding self-test failed: falsified %s at behaviour %d step %d not reported exactly (%s)" %
                               (field, bi, si, [(m["behaviour"], m["step"], m["field"]) for m in ms][:5]))
    chk.cov["binding_selftest"] = ("%d double-redemption behaviours of the as-is model all rejected by the replay; falsified status / cache "
                                   "contents / critical-section list each reported at exactly the falsified step" % len(doubles))


def record(sd, racebin, thorough):
    """unforced concurrent runs of the real handler under -race; returns (path, runs, output)"""
    tr = os.path.join(sd, "trace.ndjson")
    runs = 400 if thorough else 60
    e = vf.goenv({"VERIF_OUT": tr, "VERIF_RUNS": str(runs), "VERIF_SEED": str(vf.SEED)})
    p = vf.run([racebin, "-test.run", "^TestVerifOAuthGrantConcurrent$", "-test.timeout", "900s"], cwd=sd, env=e, timeout=1000)
    return tr, runs, p


def trace_stage(chk, sd, rec):
    tr, runs, p = rec
    if "DATA RACE" in p.stdout + p.stderr:
        chk.violation("race/token-endpoint", "race detector report while concurrent token requests were served", (p.stdout + p.stderr)[-6000:])
        return
    if p.returncode != 0 or not os.path.exists(tr):
        raise vf.NoVerdict("concurrent driver failed (rc=%d)\n%s\n%s" % (p.returncode, p.stdout[-3000:], p.stderr[-2000:]))
    lines = open(tr).read().splitlines()
    # the recorded log, and (binding self-test) two corrupted copies that must be rejected, all judged by TLC
    rng = random.Random(vf.SEED)
    oks = [i for i, l in enumerate(lines) if '"ev":"Resp"' in l and '"status":400' in l and '"err":"invalid_grant"' in l]
    dels = [i for i, l in enumerate(lines) if '"ev":"Delete"' in l and '"ok":true' in l]
    if not oks or not dels:
        raise vf.NoVerdict("self-test: the recorded runs contain no refused request / successful Delete (driver too weak)")
    i = rng.choice(oks)
    ev = json.loads(lines[i]); ev["status"] = 200; ev["err"] = ""
    j = rng.choice(dels)
    variants = {"real": lines, "a refusal turned into a success": lines[:i] + [json.dumps(ev)] + lines[i + 1:],
                "a dropped Delete event": lines[:j] + lines[j + 1:]}

    def validate(nm):
        pth = tr if nm == "real" else os.path.join(sd, "corrupt-%d.ndjson" % len(nm))
        if nm != "real":
            open(pth, "w").write("\n".join(variants[nm]) + "\n")
        return vf.trace_validate(chk, SPEC, "OAuthGrant_Trace", "OAuthGrant_Trace.cfg", sd, pth, name=None, timeout=900)
    V = par({nm: (lambda nm=nm: validate(nm)) for nm in variants})
    rt = V["real"]
    chk.add_tlc(rt, "trace validation (unforced concurrent runs)", count_states=False)
    if not rt.accepted:
        info = vf.trace_reject_info(rt, tr)
        if rt.violated in ("TSingleUse", "TPKCEOnly"):
            key = "trace/" + rt.violated
            ls = re.findall(r"^/\\ l = (\d+)", rt.stdout, re.M)
            if ls:   # position in the log of the state that violates the invariant
                at = int(ls[-1]) - 1
                run_no = json.loads(lines[at - 1]).get("run") if 0 < at <= len(lines) else None
                info["stuck_at_line"] = at
                info["context"] = [l for l in lines[:at] if json.loads(l).get("run") == run_no]
            chk.violation(key, "a recorded concurrent execution of the real token endpoint violates %s: %s last events: %s" %
                          (rt.violated, json.dumps({k: v for k, v in info.items() if k != "context"})[:600], " ".join(info.get("context", [])[-6:])),
                          {"info": info})
            return
        raise vf.NoVerdict("model drift (not a violation of C23): a recorded concurrent execution is not a behaviour of OAuthGrant: %s"
                           % json.dumps(info)[:1500])
    for nm in variants:
        if nm != "real" and V[nm].accepted:
            raise vf.NoVerdict("binding self-test failed: trace with %s was accepted" % nm)
    chk.cov["traces_validated_against_impl"] += runs
    chk.cov["evaluations"] += len(lines)
    chk.cov["trace_events"] = len(lines)
    stats = {"resp200": sum(1 for l in lines if '"ev":"Resp"' in l and '"status":200' in l),
             "delete_lost": sum(1 for l in lines if '"ev":"Delete"' in l and '"ok":false' in l)}
    chk.cov["trace_stats"] = stats
    if stats["resp200"] == 0:
        raise vf.NoVerdict("vacuity: the concurrent runs contain no successful redemption")
    chk.cov["trace_selftest"] = "a refusal rewritten as a success and a dropped Delete event both rejected"
    chk.sample({"kind": "recorded concurrent events", "events": [json.loads(l) for l in lines[:10]]})


def run_replay(chk, sd, ov, testbin):
    """verif check C23 --replay <file>: force the stored behaviour on the real handler again"""
    obj = json.load(open(os.environ["VERIF_REPLAY"]))
    beh = obj.get("replay", obj).get("behaviour")
    if not beh:
        raise vf.NoVerdict("replay file has no behaviour")
    vf.go_test_compile(ov, PKG, testbin)
    behs = [{"grants": beh["grants"], "steps": beh["steps"]}]
    res = replay(sd, testbin, behs, "replay")
    drift = classify(chk, res, behs)
    chk.cov["traces_validated_against_impl"] = 1
    chk.cov["evaluations"] = res["steps"]
    chk.cov["states"] = chk.cov["transitions"] = max(1, res["steps"])
    chk.sample({"kind": "replayed behaviour", "calls": calls_of(behs[0])})
    chk.cov["rule"] = "single stored behaviour replayed"
    if not chk.cands and drift:
        raise vf.NoVerdict("the stored behaviour no longer reproduces a forbidden success; the real handler differs elsewhere: %s" % json.dumps(drift[0])[:800])
    return chk.finish()

"""C24 - failed logins lock the account as configured.
spec/RateLimit (+_Cover, _Gen).  Stages: MC (design) ; negative controls ; R transition cover (BFS spanning tree of the
model replayed on the real router) ; R simulated long histories (limits 0..6, defaults) ; binding self-test."""
import copy, json, os, random, subprocess, time
from concurrent.futures import ThreadPoolExecutor
import vf

PROP = "C24"
SPEC = "RateLimit"
PKG = "./internal/router/"
TEST = "TestVerifRateLimitReplay"
HARNESS = [vf.kit("internal/router", "router"),
           ("ratelimit/replay_test.go", "internal/router/zz_verif_ratelimit_test.go"),
           ("ratelimit/edge_test.go", "internal/router/zz_verif_ratelimit_edge_test.go"),
           # second front door (OAuth2 authorization-server login form), in-package there
           vf.kit("internal/server/oauth/authserver", "authserver"),
           ("ratelimit/doors_test.go", "internal/server/oauth/authserver/zz_verif_ratelimit_test.go")]
PKG2 = "./internal/server/oauth/authserver/"
TEST2 = "TestVerifRateLimitDoors"
TEST3 = "TestVerifRateLimitEdge"


def cover_paths(records):
    """Plumbing only: TLC printed one node per distinct (state, last step) with its path p (a sequence of step tokens).
    Assemble the root-to-leaf paths of that spanning tree; every expected value in them was computed by TLC."""
    nodes = {}
    for r in records:
        if isinstance(r, dict) and "id" in r and "call" in r:
            nodes[tuple(r["id"])] = r
    if not nodes:
        raise vf.NoVerdict("cover: TLC printed no nodes")
    has_child = set()
    for k in nodes:
        if len(k) > 1:
            if k[:-1] not in nodes:
                raise vf.NoVerdict("cover: node %r has no parent in the output" % (k,))
            has_child.add(k[:-1])
    paths = []
    for k in sorted(nodes):
        if k in has_child:
            continue
        paths.append([{"call": nodes[k[:i]]["call"], "st": nodes[k[:i]]["st"]} for i in range(1, len(k) + 1)])
    return nodes, paths


def run_bin(binary, sd, behs, tag, seed, plain=False, timeout=1500, test=TEST, pkg=PKG, extra_env=None):
    """One process of the compiled harness (cwd = the package directory, as `go test` does)."""
    bf = vf.write_ndjson(os.path.join(sd, "beh-%s.ndjson" % tag), behs)
    out = os.path.join(sd, "replay-%s.json" % tag)
    env = vf.goenv({"VERIF_IN": bf, "VERIF_OUT": out, "VERIF_SEED": str(seed)})
    if plain:
        env["VERIF_PLAIN"] = "1"
    env.update(extra_env or {})
    p = vf.run([binary, "-test.run", "^%s$" % test, "-test.timeout", "%ds" % timeout],
               cwd=os.path.join(vf.REPO, pkg), env=env, timeout=timeout + 60)
    if not os.path.exists(out):
        raise vf.NoVerdict("harness %s produced no result (rc=%d)\n%s\n%s" % (tag, p.returncode, p.stdout[-3000:], p.stderr[-3000:]))
    res = json.load(open(out))
    if res["behaviours"] != len(behs) and not res.get("mismatches"):
        raise vf.NoVerdict("replay %s stopped early: %s of %s" % (tag, res["behaviours"], len(behs)))
    return res


def replay(binary, sd, behs, tag, shards=1, plain=False):
    """Run the behaviours on the real router (sharded over processes); returns the merged harness result."""
    shards = max(1, min(shards, len(behs)))
    parts = [behs[i::shards] for i in range(shards)]
    with ThreadPoolExecutor(max_workers=shards) as ex:
        rs = list(ex.map(lambda i: run_bin(binary, sd, parts[i], "%s-%d" % (tag, i), vf.SEED * 1000 + i, plain), range(shards)))
    tot = {"behaviours": 0, "steps": 0, "transitions": 0, "mismatches": [], "act_counts": {}, "variants": {}, "replies": {}}
    for r in rs:
        tot["behaviours"] += r["behaviours"]
        tot["steps"] += r["steps"]
        tot["transitions"] += r["transitions"]
        tot["mismatches"] += r.get("mismatches") or []
        for fld, src in (("act_counts", r.get("act_counts") or {}), ("variants", (r.get("extra") or {}).get("variants") or {}),
                         ("replies", (r.get("extra") or {}).get("replies") or {})):
            for k, v in src.items():
                tot[fld][k] = tot[fld].get(k, 0) + v
    return tot


def mismatch_key(m):
    """Abstract identity of a divergence: action, what differs, the values, and how the attempt was presented."""
    var = {}
    for x in m.get("prefix") or []:
        if isinstance(x, dict) and "variant" in x:
            var = x["variant"]
    key = "replay/%s/%s" % (m["act"], vf.gen_path(m["path"]))
    if m["path"] in ("reply", "verified"):
        key += "/%s->%s" % (m["want"], m["got"])
    if m["act"] == "Attempt":
        if var.get("Upper"):
            key += "/uppercase-name"
        if var.get("Channel") not in (None, "basic"):
            key += "/" + var["Channel"]
    return key


def doors_key(m):
    var = {}
    for x in m.get("prefix") or []:
        if isinstance(x, dict) and "variant" in x:
            var = x["variant"]
    if var.get("UpperSeen"):
        # one class: the behaviour spelled an account name in another case at the OAuth login form before it diverged
        return "doors/name-case-variant-at-oauth-door"
    return "doors/%s/%s/%s->%s/%s" % (m["act"], m["path"], m["want"], m["got"], var.get("Channel"))


def edge_key(m):
    held = ""
    for x in m.get("prefix") or []:
        if isinstance(x, dict) and "held_offset_ms" in x:
            held = x["held_offset_ms"]
    key = "edge/%s/%s" % (m["act"], vf.gen_path(m["path"]))
    if m["path"] in ("reply", "verified"):
        key += "/%s->%s" % (m["want"], m["got"])
    return key + ("/deadline%+dms" % -int(held) if held else "")


def account(chk, res, name, keyfn=None):
    keyfn = keyfn or mismatch_key
    for m in res.get("mismatches") or []:
        chk.violation(keyfn(m), "real code differs from the specification at %s after %s: spec=%s real=%s"
                      % (m["path"], m["act"], m["want"], m["got"]), m)
    chk.cov["traces_validated_against_impl"] += res["behaviours"]
    chk.cov["evaluations"] += res["steps"]
    chk.cov["distinct_nontrivial"] += res["transitions"]
    chk.cov.setdefault("replay", {})[name] = {k: res[k] for k in ("behaviours", "steps", "transitions", "act_counts", "variants", "replies")}


def run():
    thorough = vf.TIER == "thorough"
    chk = vf.Check(PROP)
    chk.assumptions += [
        "time is virtual: one tick = 5 min; the harness ages the stored instants (lastFailure, lockedUntil) instead of sleeping; "
        "the real 'now' is therefore always a few microseconds past a tick boundary (exact equality now == lockedUntil is not reachable)",
        "millisecond instants (edge stage): the deadline of the real record is placed 999/500/1 ms ahead or 1/500 ms behind the step's instant; "
        "a step whose measured delay to the code's clock read is not under half its margin is retried from a snapshot, then abandoned as inconclusive",
        "attempts are sequential (the statement quantifies over sequences); concurrent attempts on one name are not explored",
        "the background scan is driven explicitly (pruneLoginAttempts); its goroutine is parked by consuming its sync.Once in the harness "
        "(at the OAuth door, where that is not possible, a replay longer than 240 s is no verdict)",
        "entry points exercised: HTTP Basic and credentials-in-body through Router.ServeHTTP/Session.Authenticate, names in lower and upper case; "
        "'password verification ran' = the credential store was read for that user during the request",
        "OAuth2 login form (POST /oauth2/authorize): only time-free histories, and only reply + 'verification ran' are compared there "
        "(that package cannot see or age the router's records)",
        "forgetting of stale records by the scan restarts the count (DESIGN Appendix C reading of 'most recent consecutive failures')"]
    with vf.scratch("c24-") as sd:
        ov = vf.make_overlay(sd, HARNESS)
        binary = os.path.join(sd, "router.test")
        pool = ThreadPoolExecutor(max_workers=8)
        # the harness is compiled while TLC works
        fbuild = pool.submit(vf.go_test_compile, ov, PKG, binary)
        binary2 = os.path.join(sd, "authserver.test")
        fbuild2 = pool.submit(vf.go_test_compile, ov, PKG2, binary2)
        fedge = pool.submit(vf.tlc, SPEC, "RateLimit_Edge", "RateLimit_Edge.cfg", sd, timeout=1500, workers=2)
        fdoors = pool.submit(vf.tlc, SPEC, "RateLimit_Cover", "RateLimit_CoverDoors.cfg", sd, timeout=1500, workers=2)
        # 1. the design satisfies C24 (exhaustive at the stated bound)
        fmc = pool.submit(vf.tlc, SPEC, SPEC, "RateLimit_MC.cfg" if thorough else "RateLimit_MCq.cfg", sd, timeout=1500, workers=6 if thorough else 4)
        # 2. negative controls: the statement-level invariants must be able to see a limiter that forgets to clear / locks late
        negs = [("RateLimit_MC_noclear.cfg", "RefusedOnlyWhileLocked"), ("RateLimit_MC_latelock.cfg", "RefusedWhileLocked")]
        fneg = [pool.submit(vf.tlc, SPEC, SPEC, cfg, sd, timeout=1200, workers=1) for cfg, _ in negs]
        # 3. transition covers of the model ; 4. simulated long histories (real defaults: limit 5, lockout 15 min; limits up to 6)
        covers = ["RateLimit_CoverQ.cfg", "RateLimit_CoverLock.cfg", "RateLimit_CoverDef.cfg"] + (["RateLimit_Cover.cfg", "RateLimit_CoverR.cfg"] if thorough else [])
        fcov = [pool.submit(vf.tlc, SPEC, "RateLimit_Cover", cfg, sd, timeout=1500, workers=4 if cfg in ("RateLimit_Cover.cfg", "RateLimit_CoverR.cfg") else 2) for cfg in covers]
        gens = [("RateLimit_Gen.cfg", 80 if thorough else 10, 40), ("RateLimit_GenHigh.cfg", 100 if thorough else 12, 60)]
        tmpchk = [vf.Check(PROP) for _ in gens]     # collectors (gen_behaviours records its TLC run there)
        fgen = [pool.submit(vf.gen_behaviours, tc, SPEC, "RateLimit_Gen", cfg, sd, num, depth, None, "gen " + cfg)
                for tc, (cfg, num, depth) in zip(tmpchk, gens)]

        r = vf.tlc_ok(fmc.result(), "RateLimit MC")
        chk.add_tlc(r, "MC code")
        for (cfg, inv), f in zip(negs, fneg):
            rn = f.result()
            if rn.violated != inv:
                raise vf.NoVerdict("negative control %s did not violate %s (%s %s)" % (cfg, inv, rn.violated, rn.error))
            chk.add_tlc(rn, "negative control %s violates %s" % (cfg, inv), count_states=False)
        fbuild.result()
        allpaths = []
        for cfg, f in zip(covers, fcov):
            rc = vf.tlc_ok(f.result(), "cover " + cfg)
            chk.add_tlc(rc, "transition cover %s (BFS spanning tree)" % cfg, count_states=False)
            nodes, paths = cover_paths(rc.records)
            if len(nodes) != rc.distinct:
                raise vf.NoVerdict("cover %s: %d nodes printed but %d distinct states" % (cfg, len(nodes), rc.distinct))
            res = replay(binary, sd, paths, "cover-" + cfg.split(".")[0][10:], shards=8 if thorough else 4)
            account(chk, res, "cover " + cfg)
            chk.cov.setdefault("cover_nodes", {})[cfg] = len(nodes)
            allpaths += paths
            chk.sample({"kind": "cover path " + cfg, "calls": [s["call"] for s in paths[len(paths) // 2]]})
        chk.cov["exhaustive"] = True
        behs = []
        for tc, f in zip(tmpchk, fgen):
            behs += f.result()
            chk.cov["tlc_runs"] += tc.cov["tlc_runs"]
        res2 = replay(binary, sd, behs, "sim", shards=8 if thorough else 4)
        account(chk, res2, "simulated")
        chk.sample({"kind": "simulated history (calls only)", "calls": [s["call"] for s in behs[0]][:30]})
        # 4a. sub-tick instants around the deadline (clock unit 1 ms; lockouts of 900 ms, 1 s, 5 min); the same TLC run
        #     checks the statement's invariants on these behaviours
        re_ = vf.tlc_ok(fedge.result(), "RateLimit_Edge")
        chk.add_tlc(re_, "MC + transition cover RateLimit_Edge.cfg (millisecond clock)")
        enodes, epaths = cover_paths(re_.records)
        if len(enodes) != re_.distinct:
            raise vf.NoVerdict("edge cover: %d nodes printed but %d distinct states" % (len(enodes), re_.distinct))
        rese = None
        for attempt in range(3):          # a starved machine can make many margins overrun; that is never a verdict
            rese = run_bin(binary, sd, epaths, "edge", vf.SEED, test=TEST3)
            ex = rese.get("extra") or {}
            if rese.get("mismatches") or ex.get("inconclusive", 0) * 10 <= len(epaths):
                break
        ex = rese.get("extra") or {}
        chk.cov["edge"] = {"nodes": len(enodes), "paths": len(epaths), "attempts_with_deadline_held_at_offset_ms": ex.get("placed"),
                           "steps_retried_after_overrunning_margin": ex.get("retried"), "behaviours_inconclusive": ex.get("inconclusive"),
                           "worst_delay_us_in_a_conclusive_step": ex.get("worst_delay_us")}
        resE = {"behaviours": rese["behaviours"], "steps": rese["steps"], "transitions": rese["transitions"],
                "mismatches": rese.get("mismatches") or [], "act_counts": rese.get("act_counts") or {}, "variants": {}, "replies": {}}
        account(chk, resE, "edge (millisecond instants around the deadline)", keyfn=edge_key)
        if not resE["mismatches"]:
            if ex.get("inconclusive", 0) * 10 > len(epaths):
                raise vf.NoVerdict("edge replay: %s of %s behaviours inconclusive (steps kept overrunning their margins)" % (ex.get("inconclusive"), len(epaths)))
            pl = ex.get("placed") or {}
            if any(not pl.get(k) for k in ("-999", "-500", "-1", "1", "500")):
                raise vf.NoVerdict("edge replay too weak: attempts per held offset %s" % pl)
            ce = [p for p in epaths if any(s["call"]["act"] == "Attempt" and s["call"]["reply"] == "refused" and i > 0 and p[i - 1]["call"]["act"] == "AdvanceTo"
                                           for i, s in enumerate(p))]
            pb = copy.deepcopy(ce[len(ce) // 2])
            i = [i for i, s in enumerate(pb) if s["call"]["act"] == "Attempt" and s["call"]["reply"] == "refused" and pb[i - 1]["call"]["act"] == "AdvanceTo"][0]
            pb[i]["call"].update(reply="denied", verified=True, retry=0)
            rs = run_bin(binary, sd, [pb], "edge-selftest", vf.SEED, test=TEST3)
            if not rs.get("mismatches"):
                raise vf.NoVerdict("edge binding self-test failed: perturbed reply at a held deadline not noticed")
        chk.sample({"kind": "edge path (calls only)", "calls": [s["call"] for s in epaths[len(epaths) // 2]]})
        main_bad = bool(chk.cands)
        # 4b. the second front door: time-free cover, every attempt presented at the OAuth login form or at the native router
        rd = vf.tlc_ok(fdoors.result(), "cover doors")
        chk.add_tlc(rd, "transition cover RateLimit_CoverDoors.cfg (time-free)", count_states=False)
        dnodes, dpaths = cover_paths(rd.records)
        fbuild2.result()
        resd = run_bin(binary2, sd, dpaths, "doors", vf.SEED, test=TEST2, pkg=PKG2)
        if (resd.get("extra") or {}).get("wall_s", 0) > 240:
            # this package cannot park the router's background scan (first pass after 5 real minutes)
            raise vf.NoVerdict("doors replay took %.0f s - too slow to rule out interference of the background scan" % resd["extra"]["wall_s"])
        resd = {"behaviours": resd["behaviours"], "steps": resd["steps"], "transitions": resd["transitions"],
                "mismatches": resd.get("mismatches") or [], "act_counts": resd.get("act_counts") or {},
                "variants": (resd.get("extra") or {}).get("variants") or {}, "replies": (resd.get("extra") or {}).get("replies") or {}}
        account(chk, resd, "doors (OAuth login form + native router)", keyfn=doors_key)
        if not resd["mismatches"]:
            if not resd["replies"].get("oauth/refused") or not resd["replies"].get("basic/refused") or \
               not any(k == "oauth/upper=true" for k in resd["variants"]):
                raise vf.NoVerdict("doors replay too weak: %s %s" % (resd["replies"], resd["variants"]))
            # self-test of this binding: a perturbed expected reply must be noticed
            cd = [p for p in dpaths if any(s["call"]["reply"] == "refused" for s in p)]
            pb = copy.deepcopy(cd[len(cd) // 2])
            i = [i for i, s in enumerate(pb) if s["call"]["reply"] == "refused"][0]
            pb[i]["call"].update(reply="denied", verified=True)
            rs = run_bin(binary2, sd, [pb], "doors-selftest", vf.SEED, test=TEST2, pkg=PKG2)
            if not rs.get("mismatches"):
                raise vf.NoVerdict("doors binding self-test failed: perturbed reply not noticed")
        chk.sample({"kind": "doors path (calls only)", "calls": [s["call"] for s in dpaths[len(dpaths) // 2]]})
        # vacuity guards: the replays really locked accounts, refused, cleared, pruned and reconfigured
        tot = {}
        for nm, rr in chk.cov["replay"].items():
            if nm.startswith("doors") or nm.startswith("edge"):
                continue
            for fld in ("replies", "act_counts"):
                for k, v in rr[fld].items():
                    tot[k] = tot.get(k, 0) + v
        if not main_bad and min(tot.get(k, 0) for k in ("refused", "ok", "denied", "Prune", "Configure", "Tick")) == 0:
            raise vf.NoVerdict("replay too weak: %s" % tot)
        # 5. binding self-test: perturbed expected values must each be reported by the harness
        if not main_bad:
            rng = random.Random(vf.SEED)
            cands = [p for p in allpaths if any(s["call"]["reply"] == "refused" for s in p)]
            if not cands:
                raise vf.NoVerdict("self-test: no cover path with a refusal")
            kinds = ("reply", "failures", "lockedFor")
            bad = []
            for kind in kinds:
                p = copy.deepcopy(rng.choice(cands))
                i = rng.choice([i for i, s in enumerate(p) if s["call"]["reply"] == "refused"])
                if kind == "reply":
                    p[i]["call"].update(reply="denied", verified=True, retry=0)
                else:
                    p[i]["st"][p[i]["call"]["u"]][kind] += 1
                bad.append(p)
            rs = run_bin(binary, sd, bad, "selftest", vf.SEED)
            hit = {m["behaviour"] for m in rs.get("mismatches") or []}
            if hit != set(range(len(kinds))):
                raise vf.NoVerdict("binding self-test failed: perturbed behaviours noticed = %s of %s" % (sorted(hit), list(kinds)))
            chk.cov["binding_selftest"] = "perturbed expected %s each reported as a mismatch" % ", ".join(kinds)
        chk.cov["rule"] = ("cover = every distinct (state, last step) of RateLimit at the cover bounds, reached along the BFS spanning tree "
                           "and executed on the real router with reply/verified/Retry-After and the whole limiter map compared after each step; "
                           "simulated = TLC -simulate histories of RateLimit_Gen; non-trivial+distinct = distinct (projected state before, call) pairs executed")
        pool.shutdown()
    return chk.finish()

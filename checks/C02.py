"""C02 - performance settings never change program behaviour.
spec/Ego/EgoCore.tla (reference semantics, which has no configuration input) + EgoCore_Prog.tla (program corpus; theorem
ConfigFree) ; also the cells of EgoTypes_Arith (C03 builder) and the control-flow cases of EgoControl_Gen (C10 builder).
Stages: TLC enumerates the corpus and computes the expected output / end per --types mode ; negative control (a
semantics with a fused increment that lacks an int8 case at optimizer level 2 must violate ConfigFree) ;
R binding: every case is run on the real `ego run` under a covering set of settings (optimizer 0-3 x registers x constfold
x globalcache x symbol allocation, in every --types mode) and each observation is compared with TLC's expectation; a
divergence is attributed to the settings that show it.  A program that diverges from the expectation in the same way
under EVERY setting is not a C02 matter (it belongs to C01 / C03 / C10) and is only counted ; binding self-test."""
import itertools, json, os, random, sys
from concurrent.futures import ThreadPoolExecutor
import vf

sys.path.insert(0, os.path.join(vf.VERIF, "lib"))
import egocore as ec

PROP = "C02"
DIMS = (("opt", (0, 1, 2, 3)), ("registers", ("off", "on")), ("constfold", ("off", "on")), ("globalcache", ("off", "on")),
        ("alloc", (16, 32, 4096)))
KEYS = {"registers": "ego.compiler.registers", "constfold": "ego.compiler.constfold", "globalcache": "ego.runtime.globalcache"}


def canon(cfg):
    """optimizer level 3 switches registers, constfold and the global cache on by itself (commands/run.go configureOptimizer)"""
    c = dict(cfg)
    if c["opt"] == 3:
        c.update(registers="on", constfold="on", globalcache="on")
    return c


def cfg_name(c):
    return "o%d%s%s%s.a%d" % (c["opt"], "R" if c["registers"] == "on" else "r", "F" if c["constfold"] == "on" else "f",
                             "G" if c["globalcache"] == "on" else "g", c["alloc"])


def setting(c, mode):
    pre = []
    for d, k in KEYS.items():
        pre += ["--set", "%s=%s" % (k, "true" if c[d] == "on" else "false")]
    return ec.Setting(cfg_name(c) + "/" + mode, mode, pre=pre, post=["-o", str(c["opt"]), "--symbol-allocation", str(c["alloc"])],
                      feat=dict(c))


def all_cfgs():
    seen, out = set(), []
    for vals in itertools.product(*[v for _, v in DIMS]):
        c = canon(dict(zip([d for d, _ in DIMS], vals)))
        if cfg_name(c) not in seen:
            seen.add(cfg_name(c))
            out.append(c)
    return out


def pairwise(rng):
    """a small set of configurations in which every pair of (dimension, value) choices occurs together (greedy)"""
    cfgs = all_cfgs()
    rng.shuffle(cfgs)
    need = set()
    for c in cfgs:
        for a, b in itertools.combinations(sorted(c.items()), 2):
            need.add((a, b))
    out = []
    while need:
        best = max(cfgs, key=lambda c: sum(1 for p in itertools.combinations(sorted(c.items()), 2) if p in need))
        out.append(best)
        need -= set(itertools.combinations(sorted(best.items()), 2))
    return out


def plan(thorough, rng):
    """[(Setting...)] : quick = pairwise-covering configurations, each under one --types mode (rotating), plus the two
    extreme configurations under every mode; thorough = every configuration (rotating mode) + the pairwise set x 3 modes"""
    pw = pairwise(rng)
    lo = canon(dict(opt=0, registers="off", constfold="off", globalcache="off", alloc=32))
    hi = canon(dict(opt=3, registers="on", constfold="on", globalcache="on", alloc=32))
    wide, deep = [], []
    for i, c in enumerate(pw):
        wide.append(setting(c, ec.MODES[(i + vf.SEED) % 3]))
    for m in ec.MODES:                                   # every mode has its unoptimised baseline
        wide.append(setting(lo, m))
    wide.append(setting(hi, ec.MODES[vf.SEED % 3]))
    if thorough:
        for c in pw:
            for m in ec.MODES:
                deep.append(setting(c, m))
        for i, c in enumerate(all_cfgs()):
            deep.append(setting(c, ec.MODES[(i + vf.SEED) % 3]))

    def uniq(l):
        seen, out = set(), []
        for s in l:
            if s.name not in seen:
                seen.add(s.name)
                out.append(s)
        return out
    return uniq(wide), uniq(deep)


def replay(path):
    rp = json.load(open(path))["replay"]
    case, mode = rp["case"], rp["mode"]
    ad = {"core": ec.CoreAdapter, "ctl": ec.CtlAdapter, "arith": ec.ArithAdapter}[rp.get("adapter", "core")]()
    names = (rp.get("diverging") or [])[:2] + (rp.get("conforming") or [])[:1]
    cf = {cfg_name(c): c for c in all_cfgs()}
    rc = 0
    with vf.scratch() as sd:
        ego = ec.build_ego(sd)
        print(ad.text([case]))
        for n in names:
            s = setting(cf[n.split("/")[0]], mode)
            o = ec.rerun_alone(ego, vf.ego_env(sd), sd, ad, [(case, s)])[0]
            d = ad.judge(case, mode, o)
            print(" ".join(s.argv("ego", "prog.ego")), "->", {k: v for k, v in o.items() if k != "_file"}, "=>", d or "conforms")
            if d and n in (rp.get("diverging") or []):
                rc = 1
    if rc:
        print("VIOLATION property=%s replay=%s" % (PROP, path))
    return rc


def run():
    if os.environ.get("VERIF_REPLAY"):
        return replay(os.environ["VERIF_REPLAY"])
    thorough = vf.TIER == "thorough"
    chk = vf.Check(PROP)
    rng = random.Random(vf.SEED)
    chk.assumptions += [
        "programs are those of the EgoCore_Prog templates (typed arithmetic in loops, comparisons with constants, calls, closures, "
        "slices, maps, structs and methods, switch, nested loops with labels, variadics, multiple returns, defer/panic/recover, "
        "strings, package-level variables), the arithmetic cells of EgoTypes_Arith and the try/catch/defer cases of EgoControl",
        "settings are given on the command line: -o N, --symbol-allocation N, --set ego.compiler.registers / ego.compiler.constfold / "
        "ego.runtime.globalcache; optimizer level 3 implies the three switches",
        "a divergence from the reference semantics that is identical under every setting is not attributed to C02 (counted as base divergence)",
        "cases share a process through a try/catch + recover wrapper; a diverging case is re-run in a process of its own before it is reported",
        "EgoControl cases in the two defect classes C10 reported on the unchanged tree (loop inside try, jump out of try) are left out"]
    with vf.scratch() as sd:
        env = vf.ego_env(sd)
        wide, deep = plan(thorough, rng)
        with ThreadPoolExecutor(max_workers=5) as ex:
            f_bin = ex.submit(ec.build_ego, sd)
            f_core = ex.submit(ec.gen_cases, sd, "EgoCore_Prog_MC.cfg" if thorough else "EgoCore_Prog_MCq.cfg", None, None, 3000 if thorough else 1200)
            f_neg = ex.submit(ec.gen_cases, sd, "EgoCore_Prog_MC_fused.cfg", None, None, 900, 2)
            f_ctl = ex.submit(vf.tlc, "Ego", "EgoControl_Gen", "EgoControl_Genq.cfg", sd, workers=2, timeout=1200)
            import re
            atext = re.sub(r"Seed = \d+", "Seed = %d" % vf.SEED, open(os.path.join(vf.VERIF, "spec", "Ego", "EgoTypes_Arith_MCq.cfg")).read())
            f_ar = ex.submit(vf.tlc, "Ego", "EgoTypes_Arith", "run.cfg", sd, files={"run.cfg": atext}, timeout=1800, keep_stdout=False, workers=2)
            r = vf.tlc_ok(f_core.result(), "EgoCore_Prog MC")
            chk.add_tlc(r, "EgoCore_Prog: corpus enumerated, theorems (ConfigFree, StrictIncluded) checked")
            core = ec.cases_of(r)
            rn = f_neg.result()
            if rn.violated != "ConfigFree":
                raise vf.NoVerdict("negative control: the fused-increment semantics did not violate ConfigFree (%s %s)" % (rn.violated, rn.error))
            chk.add_tlc(rn, "negative control (fused increment without an int8 case at -o 2) violates ConfigFree", count_states=False)
            rc = vf.tlc_ok(f_ctl.result(), "EgoControl_Gen")
            chk.add_tlc(rc, "EgoControl_Gen: control-flow cases (C10 generator)", count_states=False)
            ctl = [c for c in rc.records if isinstance(c, dict) and "toks" in c and ec.ctl_usable(c)]
            ra = vf.tlc_ok(f_ar.result(), "EgoTypes_Arith")
            chk.add_tlc(ra, "EgoTypes_Arith: arithmetic cells (C03 generator)", count_states=False)
            arith = [c for c in ra.records if isinstance(c, dict) and "form" in c]
            ego = f_bin.result()
        if len(core) < 200 or len(ctl) < 100 or len(arith) < 500:
            raise vf.NoVerdict("generators too weak: %d programs, %d control cases, %d cells" % (len(core), len(ctl), len(arith)))
        rng.shuffle(ctl)
        rng.shuffle(arith)
        if thorough and len(core) > 3000:           # (the whole table is run by C01 / C04; here every program meets ~16-110 settings)
            rng.shuffle(core)
            core = core[:3000]
        ctl = ctl[:1500 if thorough else 200]
        # statement forms the optimizer rewrites first (x = x + k, x += k, x++), then the rest
        arith = ([c for c in arith if c["form"] in ("asg", "cas", "inc")] + [c for c in arith if c["form"] not in ("asg", "cas", "inc")])[:6000 if thorough else 800]
        vf.log("corpus: %d programs, %d control cases, %d arithmetic cells; %d settings (+%d on a sample)" % (len(core), len(ctl), len(arith), len(wide), len(deep)))
        stats, base, total, classes = {}, {}, 0, set()
        alone_n = [0]
        for adapter, cases in ((ec.CoreAdapter(alias=True), core), (ec.CtlAdapter(), ctl), (ec.ArithAdapter(), arith)):
            groups = [(wide, cases)]
            if deep:
                sample = list(cases)
                random.Random(vf.SEED + 7).shuffle(sample)
                groups.append((deep, sample[:600]))
            for gi, (settings, cs) in enumerate(groups):
                obs = ec.run_matrix(ego, env, sd, adapter, cs, settings, nproc=10, stats=stats, tag="g%d" % gi)

                def rerun(pairs, adapter=adapter):
                    stats["processes"] = stats.get("processes", 0) + len(pairs)
                    return ec.rerun_alone(ego, env, sd, adapter, pairs)
                n, cl = ec.assess_matrix(chk, adapter, cs, settings, obs, rerun, base)
                ec.message_check(chk, adapter, cs, settings, obs)
                total += n
                classes |= cl
                if gi == 0 and adapter.name == "core":
                    keep = (adapter, cs, settings, obs)
        # binding self-test: the comparison rejects perturbed expectations and observations of a neighbouring case
        adapter, cs, settings, obs = keep
        s0 = settings[0]
        tested = rejected = 0
        idx = sorted(obs[s0.name])
        for a, b in zip(idx, idx[1:]):
            ea, eb = cs[a]["exp"][s0.mode], cs[b]["exp"][s0.mode]
            if adapter.judge(cs[a], s0.mode, obs[s0.name][a]) is None and (ea["out"], ea["status"]) != (eb["out"], eb["status"]) \
                    and not (eb["status"] == "error" and eb["ec"] == "type"):
                tested += 1
                rejected += adapter.judge(cs[b], s0.mode, obs[s0.name][a]) is not None
            if tested >= 60:
                break
        for a in idx[:40]:
            e = cs[a]["exp"][s0.mode]
            if adapter.judge(cs[a], s0.mode, obs[s0.name][a]) is None and e["out"] and not (e["status"] == "error" and e["ec"] == "type"):
                pert = json.loads(json.dumps(cs[a]))
                pert["exp"][s0.mode]["out"][-1] += "1"
                tested += 1
                rejected += adapter.judge(pert, s0.mode, obs[s0.name][a]) is not None
        if tested < 20 or rejected != tested:
            raise vf.NoVerdict("binding self-test failed: %d of %d wrong expectations rejected" % (rejected, tested))
        chk.cov["binding_selftest"] = "%d of %d wrong expectations (neighbouring case / perturbed line) rejected" % (rejected, tested)
        chk.cov["traces_validated_against_impl"] = total
        chk.cov["evaluations"] = total
        chk.cov["distinct_nontrivial"] = len(classes)
        chk.cov["programs"] = len(core)
        chk.cov["control_cases"] = len(ctl)
        chk.cov["arith_cells"] = len(arith)
        chk.cov["settings"] = [s.name for s in wide]
        chk.cov["settings_on_sample"] = len(deep)
        chk.cov["ego_processes"] = stats.get("processes", 0)
        chk.cov["base_divergences"] = len(base)
        chk.cov["base_divergence_examples"] = ["%s/%s/%s: %s" % (k[0], k[1], k[2], v[:120]) for k, v in sorted(base.items())[:12]]
        chk.cov["rule"] = ("case = one program / cell / control-flow behaviour generated by TLC with its expected output per --types mode; "
                           "each is run under every listed setting whose mode it is defined in and compared for equality with the expectation; "
                           "distinct = (case identity, mode) pairs compared; quick covers every pair of setting values, thorough every "
                           "combination on a sample")
        chk.cov["exhaustive"] = False
        for c in core[:2] + core[-1:]:
            chk.sample({"key": c["key"], "program": ec.render(c).splitlines(), "expected": c["exp"]})
    return chk.finish()

"""C37 - printed durations can be read back.
spec/Duration (DurationDefs: documented meaning + code-shaped parser models; Duration: the state machine of one
ParseDuration call; Duration_Gen: model check + case generation; Duration_Trace: the F contract).
Stages: MC of the fixed model + cases ; two negative controls (parser as found) ; real I/O of internal/util (Go,
in-package) and of the Ego time package (ego binary) ; the TLA+ contract judges every logged pair ; binding self-test
(known-bad pairs appended to the log must be flagged)."""
import json, os, random, time
import vf

PROP = "C37"
HARNESS = [vf.kit("internal/util", "util"),
           ("duration/fio_test.go", "internal/util/zz_verif_duration_test.go")]
EGO_PROG = os.path.join(vf.VERIF, "harness", "duration", "drive.ego")
JVM = {"JAVA_TOOL_OPTIONS": "-XX:ParallelGCThreads=2 -Xmx3g"}     # small, short runs: keep the JVM's footprint low
INVS = "TypeOK Correct PrintedIsDocumented TypedIsDocumented MachineIsModel"


def tla_set(vals):
    return "{" + ", ".join(str(v) for v in sorted(set(vals))) + "}"


def gen_cfg(thorough, rng):
    """constants of the MC+Gen run: boundaries of every field plus seeded representatives (inputs only)."""
    r = rng.randint
    if thorough:
        c = dict(Mixed="TRUE",
                 TD=[0, 1, 2, 41666, r(3, 99), r(100, 41665)], TH=[0, 1, 23, 24, r(25, 999)],
                 TM=[1, 59, 60, r(61, 999)], TS=[1, 59, 60, r(61, 999)], TMs=[5, 1500],
                 PD=[0, 1, 2, 9, 10, 99, 100, 999, 1000, 9999, 10000, 41665, 41666, r(3, 8), r(11, 98), r(101, 998),
                     r(1001, 9998), r(10001, 41664)],
                 PH=[0, 1, 9, 10, 22, 23, r(2, 8), r(11, 21)], PM=[0, 1, 9, 10, 58, 59, r(11, 57)],
                 PS=[0, 1, 9, 10, 58, 59, r(11, 57)], PNs=[0, 1, 500000000, 999999999])
    else:
        c = dict(Mixed="FALSE",
                 TD=[[0, 1, 41666][vf.SEED % 3], r(2, 41665)], TH=[[1, 23, 24][vf.SEED % 3], r(25, 999)],
                 TM=[[1, 59, 60][(vf.SEED + 1) % 3], r(61, 999)], TS=[[1, 59, 60][(vf.SEED + 2) % 3], r(61, 999)],
                 TMs=[[5, 1500][vf.SEED % 2]],
                 PD=[0, 1, 41666, r(2, 9), r(10, 41665)], PH=[0, 23, r(1, 22)], PM=[0, 59, r(1, 58)],
                 PS=[0, 59, r(1, 58)], PNs=[0, [1, 500000000, 999999999][vf.SEED % 3]])
    lines = ["SPECIFICATION Spec", "CONSTANTS", '  Impl = "fixed"', "  Signs = {TRUE, FALSE}", "  Mixed = " + c.pop("Mixed")]
    lines += ["  %s = %s" % (k, tla_set(v)) for k, v in c.items()]
    lines += ["INVARIANTS " + INVS + " Emit", "CHECK_DEADLOCK FALSE"]
    return "\n".join(lines) + "\n", c


def to_ns(x):
    n = (x["min"] * 60 + x["sec"]) * 10 ** 9 + x["ns"]
    return -n if x["neg"] else n


def project(n):
    """nanoseconds -> the record shape of the spec (same projection as the Go harness)."""
    a = abs(n)
    return {"neg": n < 0, "min": a // (60 * 10 ** 9), "sec": a // 10 ** 9 % 60, "ns": a % 10 ** 9}


def run_ego(sd, ov, cases, chunk):
    """the Ego-level wrappers: the same cases through an Ego program; returns I/O records (via = ego)."""
    ego = vf.build_ego(sd, ov)
    env = vf.ego_env(sd)
    jobs, parts = [], []
    for ci in range(0, len(cases), chunk):
        sub = cases[ci:ci + chunk]
        path = os.path.join(sd, "ego-cases-%d.txt" % ci)
        with open(path, "w") as f:
            for c in sub:
                f.write(("rt %d\n" % to_ns(c["x"])) if c["k"] == "rt" else ("sp %s\n" % "".join(c["chars"])))
        e = dict(env)
        e["VERIF_IN"] = path
        jobs.append(([ego, "run", EGO_PROG], None, sd, e))
        parts.append(sub)
    recs = []
    for (rc, out, err), sub in zip(vf.run_many(jobs, nproc=8, timeout=600), parts):
        lines = out.splitlines()
        if rc != 0 or not lines or lines[-1] != "DONE %d" % len(sub):
            raise vf.NoVerdict("ego driver failed (rc=%s)\n%s\n%s" % (rc, out[-1500:], err[-1500:]))
        for line in lines[:-1]:
            idx, text, reply = line.split("|")
            c = sub[int(idx)]
            rec = {"k": c["k"], "via": "ego", "gen": True, "err": reply == "E", "y": project(0 if reply == "E" else int(reply))}
            if c["k"] == "rt":
                rec["x"], rec["text"] = c["x"], list(text)
            else:
                if text != "".join(c["chars"]):
                    raise vf.NoVerdict("ego driver echoed another text: %r" % line)
                rec.update(neg=c["neg"], parts=c["parts"], chars=c["chars"])
            recs.append(rec)
    if len(recs) != len(cases):
        raise vf.NoVerdict("ego driver answered %d of %d cases" % (len(recs), len(cases)))
    return recs


def run():
    thorough = vf.TIER == "thorough"
    rng = random.Random(vf.SEED)
    chk = vf.Check(PROP)
    chk.assumptions += [
        "documented forms = optional '-' then integer fields in the order d h m s ms, each gap '' or ' ' "
        "(docs/LANGUAGE.md); fractional values and us/ns units combined with days or spaces are not claimed",
        "'the same duration to the second' = the two differ by less than one second (equality for whole seconds)",
        "Go's time.ParseDuration / time.Duration arithmetic and the projection duration <-> [neg,min,sec,ns] of the harness are trusted",
        "the range -10^6 h .. 10^6 h is covered exhaustively only in a window around zero; beyond it by the grid of field "
        "boundaries and seeded representatives of every class (sign x fields present x digit counts)"]
    t0 = time.time()
    stage = lambda what: vf.log("C37 %-28s at %5.1fs" % (what, time.time() - t0))
    with vf.scratch() as sd:
        # 1. the design: the fixed parser model reads back everything printed / typed (exhaustive at the bound);
        #    the same run prints the cases for the F binding
        # (the three TLC runs and the two Go builds are independent of each other: run side by side)
        from concurrent.futures import ThreadPoolExecutor
        cfg, consts = gen_cfg(thorough, rng)
        controls = (("Duration_MC_asis.cfg", "positive spaced forms without a day field"),
                    ("Duration_MC_asis_neg.cfg", "negative forms with a day field"))

        def build():
            ov = vf.make_overlay(sd, HARNESS)
            tb = vf.go_test_compile(ov, "./internal/util/", os.path.join(sd, "util.test"))
            vf.build_ego(sd, ov)
            return ov, tb

        with ThreadPoolExecutor(max_workers=4) as ex:
            fb = ex.submit(build)
            fn = [ex.submit(vf.tlc, "Duration", "Duration", c, sd, workers=1, timeout=300, env=JVM) for c, _ in controls]
            r = vf.tlc_ok(vf.tlc("Duration", "Duration_Gen", "gen.cfg", sd, files={"gen.cfg": cfg}, workers=4,
                                 timeout=900, env=JVM), "Duration MC+Gen")
            chk.add_tlc(r, "MC fixed model + case generation (seeded constants)")
            cases = r.records
            stage("MC+Gen done")
            if thorough:
                r2 = vf.tlc_ok(vf.tlc("Duration", "Duration", "Duration_MC.cfg", sd, workers=4, timeout=900, env=JVM), "Duration MC")
                chk.add_tlc(r2, "MC fixed model, fixed bound, mixed spacing")
            nsp = sum(1 for c in cases if c["k"] == "sp")
            if not cases or nsp == 0 or nsp == len(cases):
                raise vf.NoVerdict("generator printed %d cases (%d spellings)" % (len(cases), nsp))
            # 2. negative controls: the model of the parser as found must fail for each defect class (vacuity guard)
            for f, (cfgname, what) in zip(fn, controls):
                rn = f.result()
                if rn.violated != "Correct":
                    raise vf.NoVerdict("negative control (%s): as-is model did not violate Correct (%s %s)" % (what, rn.violated, rn.error))
                chk.add_tlc(rn, "negative control, parser as found: %s violate Correct" % what, count_states=False)
            stage("negative controls done")
            ov, testbin = fb.result()
            stage("builds done")
        # 3. real I/O: internal/util in-package (all cases + window + seeded range) ...
        cf = vf.write_ndjson(os.path.join(sd, "cases.ndjson"), cases)
        io = os.path.join(sd, "io.ndjson")
        env = {"VERIF_IN": cf, "VERIF_OUT": io, "VERIF_SEED": str(vf.SEED),
               "VERIF_WINDOW": "180000" if thorough else "0",
               "VERIF_CENTERS": "" if thorough else "0,86400,172800,3599998100",
               "VERIF_RADIUS": "0" if thorough else "700",
               "VERIF_RANDOM": "150000" if thorough else "2500"}
        p = vf.run([testbin, "-test.run", "^TestVerifDurationIO$", "-test.count=1", "-test.timeout=900s"],
                   cwd=vf.REPO + "/internal/util", env=vf.goenv(env), timeout=1000)
        if p.returncode != 0 or not os.path.exists(io):
            raise vf.NoVerdict("util harness failed (rc=%d)\n%s\n%s" % (p.returncode, p.stdout[-3000:], p.stderr[-2000:]))
        n_util = sum(1 for _ in open(io))
        stage("util harness done")
        # ... and the Ego time package (time.Duration.String(true), time.ParseDuration) through the ego binary
        ecases = cases if len(cases) <= 200000 else rng.sample(cases, 200000)
        erecs = run_ego(sd, ov, ecases, chunk=8000 if thorough else 600)
        with open(io, "a") as f:
            for rec in erecs:
                f.write(json.dumps(rec) + "\n")
        n_real = n_util + len(erecs)
        stage("ego harness done")
        # 4. binding self-test: known-bad pairs appended after the real ones must be flagged by the contract
        okrt, oksp = [], []
        for l in open(io):
            if '"err":false' in l and len(okrt if '"k":"rt"' in l else oksp) < 2000:
                x = json.loads(l)
                if x["k"] == "sp":
                    oksp.append(x)
                elif x["x"]["min"] > 2 and x["x"]["ns"] == 0:     # whole seconds: one second off is a real difference
                    okrt.append(x)
        if not okrt or not oksp:
            raise vf.NoVerdict("self-test: no accepted round trip / spelling among the first records (nothing to corrupt)")
        b1 = json.loads(json.dumps(rng.choice(okrt))); b1["y"]["sec"] = (b1["y"]["sec"] + 1) % 60      # off by one second
        b2 = json.loads(json.dumps(rng.choice(okrt))); b2["err"] = True                               # rejected
        b3 = json.loads(json.dumps(rng.choice(oksp))); b3["y"]["min"] += 1440                        # a day too many
        b4 = json.loads(json.dumps(rng.choice(okrt))); b4["y"]["neg"] = not b4["y"]["neg"]           # sign lost
        selftest = (b1, b2, b3, b4)
        with open(io, "a") as f:
            for j, b in enumerate(selftest):
                b["via"], b["gen"] = "selftest%d" % (j + 1), False
                f.write(json.dumps(b) + "\n")
        n_all = n_real + len(selftest)
        # 5. the contract judges every pair
        rt = vf.tlc("Duration", "Duration_Trace", "Duration_Trace.cfg", sd, workers=1, files={"io.ndjson": io},
                    timeout=1500, env={"JAVA_TOOL_OPTIONS": "-XX:ParallelGCThreads=4 -Xmx8g"})
        if rt.error or rt.violated or rt.rc != 0:
            raise vf.NoVerdict("contract evaluation failed: %s %s\n%s" % (rt.violated, rt.error, rt.stdout[-2500:]))
        rep = [x for x in rt.records if isinstance(x, dict) and "bad" in x and "cnt" in x]
        if not rep:
            raise vf.NoVerdict("contract spec printed no report\n" + rt.stdout[-1500:])
        rep = rep[-1]
        stage("contract done")
        chk.add_tlc(rt, "contract over logged I/O", count_states=False)
        aslist = lambda v: v if isinstance(v, list) else []
        cnt, bad, classes = rep["cnt"], aslist(rep["bad"]), set(aslist(rep["classes"]))
        if rep["n"] != n_all or cnt["skipped"] != 0 or cnt["judged"] != n_all:
            raise vf.NoVerdict("contract judged %s of %d records (skipped %s: harness produced out-of-domain input)"
                               % (cnt["judged"], n_all, cnt["skipped"]))
        st = sorted((b["idx"], b["count"]) for b in bad if b["key"].startswith("selftest"))
        if st != [(n_real + j + 1, 1) for j in range(len(selftest))]:
            raise vf.NoVerdict("binding self-test failed: known-bad pairs not flagged (%s)" % st)
        bad = [b for b in bad if not b["key"].startswith("selftest")]
        classes = {c for c in classes if not c.startswith("selftest")}
        if any(b["idx"] > n_real for b in bad):
            raise vf.NoVerdict("internal: a real key points at a self-test record")
        chk.cov["binding_selftest"] = "4 known-bad pairs (off by one second, rejected, a day too many, sign lost) flagged by the contract"
        # vacuity guard: the classes the statement talks about were really exercised, on both paths
        need = ["%s:rt/%s/%s" % (v, s, pat) for v in ("util", "ego") for s in ("pos", "neg")
                for pat in ("d", "dh", "dhms", "hm", "hms", "ms", "h", "m", "s")]
        need += ["%s:sp/%s/%s/%s" % (v, s, pat, gap) for v in ("util", "ego") for s in ("pos", "neg")
                 for pat, gap in (("d", "single"), ("dh", "spaced"), ("dh", "tight"), ("hm", "spaced"), ("hm", "tight"),
                                  ("dhms", "spaced"), ("hms", "spaced"))]
        missing = [c for c in need if c not in classes]
        if missing:
            raise vf.NoVerdict("classes not exercised: %s" % missing[:8])
        # verdict
        lines = open(io).read().splitlines() if bad or aslist(rep["offmodel"]) else []
        for b in sorted(bad, key=lambda b: b["key"]):
            rec = json.loads(lines[b["idx"] - 1])
            text = "".join(rec["text"] if rec["k"] == "rt" else rec["chars"])
            reply = ("failed: " + rec.get("msg", "error")) if rec["err"] else ("gave %d ns" % to_ns(rec["y"]))
            if rec["k"] == "rt":
                what = "FormatDuration(%d ns, true) printed %r; ParseDuration of it %s" % (to_ns(rec["x"]), text, reply)
            else:
                what = "ParseDuration(%r) [a documented form] %s" % (text, reply)
            chk.violation(b["key"], "%s (via %s, class %s; %d pairs with this key failed)" % (what, rec["via"], b["class"], b["count"]), rec)
        for idx in aslist(rep["offmodel"]):
            rec = json.loads(lines[idx - 1])
            if rec["via"].startswith("selftest"):
                continue
            chk.notes.append("printed text differs from the spec's Fmt: FormatDuration(%d ns, true) = %r"
                             % (to_ns(rec["x"]), "".join(rec["text"])))
        chk.cov["traces_validated_against_impl"] = n_real
        chk.cov["evaluations"] = n_real
        chk.cov["distinct_nontrivial"] = len(classes)
        chk.cov["io_pairs"] = {"util": n_util, "ego": len(erecs), "round_trips": cnt["rt"] - 3, "spellings": cnt["sp"] - 1,
                                "compared_with_parser_models": cnt["modelled"]}
        chk.cov["classes_exercised"] = len(classes)
        chk.cov["model_conformance"] = {
            "printed_texts_equal_to_spec_Fmt": "%d of %d" % (cnt["onmodel"], cnt["printable"]),
            "replies_equal_to_model_fixed": "%d of %d" % (cnt["fixed"], cnt["modelled"]),
            "replies_equal_to_model_asis": "%d of %d" % (cnt["asis"], cnt["modelled"])}
        if cnt["onmodel"] != cnt["printable"]:
            chk.notes.append("%d printed texts differ from the spec's Fmt (not a C37 violation by itself: the contract judged the "
                             "pair anyway; the model-level argument does not cover those texts)" % (cnt["printable"] - cnt["onmodel"]))
        chk.cov["constants"] = {k: sorted(set(v)) for k, v in consts.items()}
        chk.cov["rule"] = ("states = TLC exhaustive check of the fixed parser model over the seeded grid; evaluations = real "
                           "(FormatDuration, ParseDuration) call pairs judged by the TLA+ contract Duration_Trace (Go in-package and "
                           "Ego time package), each pair being one recorded execution (also counted as traces_validated_against_impl); distinct_nontrivial = distinct abstract classes (path:kind/sign/fields/spacing) judged")
        chk.cov["exhaustive"] = False      # the model grid and the window are enumerated completely, the +-10^6 h range is not
        chk.cov["window"] = ("every whole second of [-180000 s, 180000 s]" if thorough else
                             "every whole second within 700 s of 0, +-1d, +-2d and of +-(10^6 h - 1900 s), clipped to the range")
        for c in (okrt[0], oksp[0], erecs[0]):
            chk.sample({"kind": "judged I/O pair", "record": c})
    return chk.finish()

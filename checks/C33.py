"""C33 - minified dashboard JavaScript behaves like the original (binding structure + token integrity).
spec/JsScopes: JsScopes (programs as scope trees, JavaScript scoping, Resolve, the contract Judge, what a program prints,
token-level models of the renamer), JsScopes_Gen (generator + model checking root), JsScopes_Trace (contract over logged
Minify outputs), JsTokens_Trace (token integrity of the shipped dashboard scripts).
Stages: MC + generation (exhaustive BFS over small alphabets, -simulate over the full alphabet) ; negative controls ;
F (real Minify, both modes, on every generated program and on the shipped scripts; harness tokenizer; TLC judges) ;
binding self-test ; optional observations when `node` is on PATH (TLC-predicted output vs what the original and the
minified texts print; node --check of the minified shipped scripts).  `--replay f` re-runs a stored program."""
import json, os, random, shutil, subprocess, time
from concurrent.futures import ThreadPoolExecutor
import vf

PROP = "C33"
SPEC = "JsScopes"
HARNESS = [vf.kit("internal/util/javascript", "javascript"),
           ("jsscopes/lex.go.tmpl", "internal/util/javascript/zz_verif_c33lex_test.go", "javascript"),
           ("jsscopes/minify_test.go", "internal/util/javascript/zz_verif_c33_test.go"),
           vf.kit("internal/server/assets", "assets"),
           ("jsscopes/lex.go.tmpl", "internal/server/assets/zz_verif_c33lex_test.go", "assets"),
           ("jsscopes/asset_test.go", "internal/server/assets/zz_verif_c33_test.go")]
RUNJS = os.path.join(vf.VERIF, "harness", "jsscopes", "run.js")
JVM = {"JAVA_TOOL_OPTIONS": "-XX:ParallelGCThreads=2 -Xmx3g -Xss64m"}
ALLREF = '{"plain","tmpl","ntmpl","short","set","dot","optdot","key","method","getter","cls","regex","str"}'
NSIM_Q, NSIM_T = 8, 150      # simulated traces (every complete successor of every state of a trace is a program)
SIMCAP_Q, SIMCAP_T = 700, 10000
NAMES = {"NamesA": ["a"], "NamesAB": ["a", "b"], "NamesABC": ["a", "b", "c"]}


def _cfg(names, declf, dstrf, reff, topreff, fnf, defaults, noparam, others, maxitems, maxdepth, impl, invariants, topdecl=True):
    tf = lambda b: "TRUE" if b else "FALSE"
    return ("SPECIFICATION Spec\nCONSTANTS\n  Names <- %s\n  DeclF = %s\n  DstrF = %s\n  RefF = %s\n  TopRefF = %s\n  TopDecl = %s\n  FnF = %s\n"
            "  Defaults = %s\n  NoParam = %s\n  Others = %s\n  MaxItems = %d\n  MaxDepth = %d\n  Impl = \"%s\"\n"
            "INVARIANTS %s\nCHECK_DEADLOCK FALSE\n"
            % (names, declf, dstrf, reff, topreff, tf(topdecl), fnf, tf(defaults), tf(noparam), others, maxitems, maxdepth, impl, invariants))


def _tok(k, t):
    return {"k": k, "t": t}


def _plain(toks):
    """token records of a token-text list as the harness tokenizer would give them (used for the self-test pairs only)"""
    out = []
    for t in toks:
        k = ("str" if t[0] in "'\"" else "tmpl" if t[0] == "`" or (t[0] == "}" and len(t) > 1) else
             "regex" if t[0] == "/" and len(t) > 1 else "id" if (t[0].isalpha() or t[0] in "_$") else "punct")
        out.append(_tok(k, t))
    return out


def _items(*its):
    return [dict(zip(("k", "f", "n", "d", "g"), it)) for it in its]


# binding self-test: (program, shortenNames, output tokens, key prefix the contract must report or None = must accept)
def _selftest():
    fa = ("fn", "iife", "a", "-", "-")
    cl = ("close", "-", "-", "-", "-")
    p1 = _items(fa, ("ref", "plain", "a", "-", "-"), cl, ("ref", "plain", "a", "-", "-"))
    # (function(a){out(a);})('v1');out(a);
    t = lambda s: _plain(s.split())
    good = t("( function ( x ) { out ( x ) ; } ) ( 'v1' ) ; out ( a ) ;")
    glob = t("( function ( x ) { out ( x ) ; } ) ( 'v1' ) ; out ( x ) ;")
    stale = t("( function ( x ) { out ( a ) ; } ) ( 'v1' ) ; out ( a ) ;")
    drop = t("( function ( x ) { out ( x ) ; } ) ( 'v1' ) ; out ( a )")
    p2 = _items(fa, ("decl", "let", "b", "-", "-"), ("ref", "short", "b", "-", "-"), ("ref", "dot", "a", "-", "-"), cl)
    # (function(a){let b='v2';out({b}.b);out(o.a);})('v1');
    good2 = t("( function ( x ) { let y = 'v2' ; out ( { b : y } . b ) ; out ( o . a ) ; } ) ( 'v1' ) ;")
    key2 = t("( function ( x ) { let y = 'v2' ; out ( { y } . b ) ; out ( o . a ) ; } ) ( 'v1' ) ;")
    prop2 = t("( function ( x ) { let y = 'v2' ; out ( { b : y } . b ) ; out ( o . x ) ; } ) ( 'v1' ) ;")
    merge2 = t("( function ( x ) { let x = 'v2' ; out ( { b : x } . b ) ; out ( o . a ) ; } ) ( 'v1' ) ;")
    p3 = _items(("decl", "var", "a", "-", "-"), fa, cl)
    file3 = t("var x = 'v1' ; ( function ( y ) { } ) ( 'v2' ) ;")
    plain3 = t("var a = 'v1' ; ( function ( y ) { } ) ( 'v2' ) ;")
    return [
        (p1, True, good, None), (p1, True, glob, "short/global-renamed/"), (p1, True, stale, "short/reference-not-renamed-with-its-declaration/"),
        (p1, True, drop, "short/token-skeleton/"),
        (p2, True, good2, None), (p2, True, key2, "short/property-renamed/"), (p2, True, prop2, "short/property-renamed/"),
        (p2, True, merge2, "short/two-bindings-merged"),
        (p3, True, file3, "short/file-scope-name-renamed/"), (p3, False, plain3, "plain/renamed-without-shortenNames/"),
        (p3, True, plain3, None),
    ]


def _render(toks, rnd):
    """joins token texts with seeded white space / comments; no line break where JavaScript forbids one or would insert a
    semicolon (after return / throw, before =>)"""
    out = []
    for i, t in enumerate(toks):
        out.append(t)
        if i + 1 < len(toks):
            seps = [" ", " ", " ", "  ", "\t", " /* c */ "]
            if t not in ("return", "throw") and toks[i + 1] != "=>":
                seps += ["\n", " // x = 'a'\n"]
                if t in (";", "{", "}"):
                    seps += ["\n", "\n", "\n    "]
            out.append(rnd.choice(seps))
    return "".join(out) + rnd.choice(["", "\n"])


def _contract(chk, sd, module, fname, path, name, timeout):
    r = vf.tlc(SPEC, module, module + ".cfg", sd, workers=1, files={fname: path}, timeout=timeout, env=JVM)
    if r.error or r.violated or r.rc != 0:
        raise vf.NoVerdict("contract failed to evaluate: %s %s\n%s" % (r.violated, r.error, r.stdout[-2500:]))
    rep = [x for x in r.records if isinstance(x, dict) and "bad" in x and "n" in x]
    if not rep:
        raise vf.NoVerdict("contract printed no report\n%s" % r.stdout[-1500:])
    if name:
        chk.add_tlc(r, name, count_states=False)
    vf.log("tlc %-30s %6.1fs  %d records judged" % (name or module, r.wall, int(rep[-1]["n"])))
    return rep[-1]


def _judge(chk, sd, recs, label, shards, timeout):
    """JsScopes_Trace over recs in `shards` parallel TLC runs, the self-test pairs appended to every shard.
    Returns ({record index: [keys]}, feature counts)."""
    st = _selftest()
    selfrecs = [{"p": p, "short": s, "out": o, "same": True, "self": True} for p, s, o, _w in st]
    shards = max(1, min(shards, (len(recs) + 299) // 300))
    idx = [list(range(k, len(recs), shards)) for k in range(shards)]
    paths = [vf.write_ndjson(os.path.join(sd, "io-%s-%d.ndjson" % (label, k)), [recs[i] for i in ix] + selfrecs)
             for k, ix in enumerate(idx)]
    with ThreadPoolExecutor(max_workers=shards) as ex:
        reps = list(ex.map(lambda kp: _contract(chk, sd, "JsScopes_Trace", "io.ndjson", kp[1],
                                                "contract %s shard %d" % (label, kp[0]) if kp[0] == 0 else None, timeout),
                           enumerate(paths)))
    bad, feats = {}, {}
    for ix, rep in zip(idx, reps):
        if int(rep["n"]) != len(ix) + len(st):
            raise vf.NoVerdict("contract judged %s of %d records" % (rep["n"], len(ix) + len(st)))
        bl = rep["bad"] if isinstance(rep["bad"], list) else []
        for k, (_p, _s, _o, want) in enumerate(st):
            got = sorted(b["key"] for b in bl if b["idx"] == len(ix) + k + 1)
            if (want is None and got) or (want is not None and not any(g.startswith(want) for g in got)):
                raise vf.NoVerdict("binding self-test failed: pair %d expected %s, contract said %s" % (k, want, got))
        for f, c in (rep.get("feat") or {}).items():
            feats[f] = feats.get(f, 0) + int(c)
        for b in bl:
            if b["idx"] <= len(ix):
                bad.setdefault(ix[b["idx"] - 1], []).append(b["key"])
    return bad, feats


def _drive(sd, progs, files, served):
    """Level A: the real Minify on every program and every shipped script, both modes.  Level B: the programs `served`
    (indices) and the shipped scripts fetched through the real asset handler, both modes."""
    tin = vf.write_ndjson(os.path.join(sd, "progs.ndjson"), [{"p": r["p"], "text": r["text"]} for r in progs])
    sin = vf.write_ndjson(os.path.join(sd, "served.ndjson"), [{"p": progs[i]["p"], "text": progs[i]["text"]} for i in served])
    fin = vf.write_ndjson(os.path.join(sd, "files.in.ndjson"), [{"path": f} for f in files])
    out, outb = os.path.join(sd, "minify.out.ndjson"), os.path.join(sd, "asset.out.ndjson")
    ov = vf.make_overlay(sd, HARNESS)

    def a():
        return vf.go_test(ov, "./internal/util/javascript/", "^TestVerifC33Minify$",
                          env={"VERIF_IN": tin, "VERIF_OUT": out, "VERIF_FILES": fin}, timeout=3000)

    def b():
        return vf.go_test(ov, "./internal/server/assets/", "^TestVerifC33Asset$",
                          env={"VERIF_IN": sin, "VERIF_OUT": outb, "VERIF_FILES": fin}, timeout=3000)

    with ThreadPoolExecutor(max_workers=2) as ex:
        fa, fb = ex.submit(a), ex.submit(b)
        pa, pb = fa.result(), fb.result()
    for p, o in ((pa, out), (pb, outb)):
        if p.returncode != 0 or not os.path.exists(o):
            raise vf.NoVerdict("driver failed (rc=%d)\n%s\n%s" % (p.returncode, p.stdout[-3000:], p.stderr[-3000:]))
    log = vf.read_ndjson(out)
    gen = [r for r in log if "p" in r]
    fl = [r for r in log if "src" in r]
    if len(gen) != 2 * len(progs) or len(fl) != 2 * len(files) or any(gen[2 * i]["p"] != progs[i]["p"] for i in range(len(progs))):
        raise vf.NoVerdict("level A driver did not run every program and every shipped script in both modes")
    logb = vf.read_ndjson(outb)
    genb = [r for r in logb if "p" in r]
    flb = [r for r in logb if "src" in r]
    if len(genb) != 2 * len(served) or len(flb) != 2 * len(files) or [r["short"] for r in flb] != [False] * len(files) + [True] * len(files):
        raise vf.NoVerdict("level B driver did not serve every program and every shipped script in both modes")
    return gen, fl, genb, flb


def _node_run(jobs, nproc=4, timeout=2400):
    """jobs: [{"id","text","names"}] -> {id: obs}.  Anything going wrong here only loses observations."""
    parts = [jobs[k::nproc] for k in range(nproc) if jobs[k::nproc]]

    def one(part):
        inp = "".join(json.dumps(j) + "\n" for j in part)
        try:
            p = subprocess.run(["node", RUNJS], input=inp, stdout=subprocess.PIPE, stderr=subprocess.PIPE, text=True, timeout=timeout)
        except (subprocess.TimeoutExpired, OSError):
            return {}
        res = {}
        for l in p.stdout.splitlines():
            try:
                o = json.loads(l)
                res[o["id"]] = o["obs"]
            except Exception:
                pass
        return res
    out = {}
    with ThreadPoolExecutor(max_workers=len(parts) or 1) as ex:
        for r in ex.map(one, parts):
            out.update(r)
    return out


def _files():
    d = os.path.join(vf.REPO, "lib/assets/dashboard")
    fs = sorted(os.path.join(d, f) for f in os.listdir(d) if f.endswith(".js")) if os.path.isdir(d) else []
    if len(fs) < 3:
        raise vf.NoVerdict("shipped dashboard scripts missing under " + d)
    return fs


def _show(s, n=400):
    return s[:n].replace("\n", "\\n")


def _report_gen(chk, progs, where, bad):
    """where[i] = (program index, logged record) for contract record i"""
    for gi, keys in sorted(bad.items()):
        pi, rec = where[gi]
        pr = progs[pi]
        how = "GET /assets/ of " if "status" in rec else "Minify("
        for key in sorted(set(keys)):
            chk.violation(key, "%s%s, shortenNames=%s) = %s" % (how, _show(pr["text"]), rec["short"], _show(rec["text"])),
                          {"p": pr["p"], "text": pr["text"], "short": rec["short"], "minified": rec["text"], "names": pr["names"],
                           "served": "status" in rec})


def _files_stage(chk, sd, fl, flb, node, timeout):
    keep = ("src", "short", "in", "out", "lexok", "same", "status")
    allf = [dict((k, r[k]) for k in keep if k in r) for r in fl + flb]
    # self-test of the token contract (appended to the same run): one identifier after a dot renamed, one token dropped
    r0 = dict((k, fl[1][k]) for k in ("src", "short", "in", "out", "lexok", "same"))
    outs = [dict(t) for t in r0["out"]]
    k = next((i for i in range(1, len(outs)) if outs[i]["k"] == "id" and outs[i - 1]["t"] == "."), None)
    if k is None:
        raise vf.NoVerdict("token-contract self-test: no property access in " + r0["src"])
    outs[k]["t"] = outs[k]["t"] + "_zz"
    selfrecs = [dict(r0, out=outs, src="selftest-prop"), dict(r0, out=r0["out"][:-1], src="selftest-drop")]
    path = vf.write_ndjson(os.path.join(sd, "files.ndjson"), allf + selfrecs)
    rep = _contract(chk, sd, "JsTokens_Trace", "files.ndjson", path, "token integrity of the shipped scripts (Minify and asset handler)", timeout)
    if int(rep["n"]) != len(allf) + 2:
        raise vf.NoVerdict("token contract judged %s of %d records" % (rep["n"], len(allf) + 2))
    bl = rep["bad"] if isinstance(rep["bad"], list) else []
    got = sorted(b["key"] for b in bl if b["idx"] > len(allf))
    if not (any("property-renamed/selftest-prop" in g for g in got) and any("token-skeleton" in g and "selftest-drop" in g for g in got)):
        raise vf.NoVerdict("token-contract self-test failed: %s" % got)
    for b in bl:
        if b["idx"] > len(allf):
            continue
        r = allf[b["idx"] - 1]
        lvl = "served by the asset handler" if "status" in r else "minified"
        chk.violation(b["key"], "shipped %s %s with shortenNames=%s breaks token integrity (%s)" % (r["src"], lvl, r["short"], b["key"]),
                      {"file": r["src"], "short": r["short"], "served": "status" in r})
    parsed = 0
    if node:
        for r in fl:
            f = os.path.join(sd, "chk-%s-%s" % ("s" if r["short"] else "p", r["src"]))
            open(f, "w").write(r["text"])
            try:
                q = subprocess.run(["node", "--check", f], stdout=subprocess.PIPE, stderr=subprocess.PIPE, text=True, timeout=300)
            except (subprocess.TimeoutExpired, OSError):
                continue
            parsed += 1
            if q.returncode != 0:
                chk.violation("assets/%s/does-not-parse/%s" % ("short" if r["short"] else "plain", r["src"]),
                              "node --check rejects the minified %s: %s" % (r["src"], _show(q.stderr, 300)),
                              {"file": r["src"], "short": r["short"]})
    return parsed


def _node_stage(chk, progs, gen, bad, sample):
    """original / plain-minified / short-minified texts of a sample under node against what TLC predicted (Expect)."""
    jobs = []
    for i in sample:
        pr = progs[i]
        jobs.append({"id": "o%d" % i, "text": pr["text"], "names": pr["names"]})
        jobs.append({"id": "p%d" % i, "text": gen[2 * i]["text"], "names": pr["names"]})
        jobs.append({"id": "s%d" % i, "text": gen[2 * i + 1]["text"], "names": pr["names"]})
    res = _node_run(jobs)
    seen = agree = 0
    for i in sample:
        pr = progs[i]
        o = res.get("o%d" % i)
        if o is None:
            continue
        if o != pr["exp"]:
            raise vf.NoVerdict("the specification's Expect disagrees with node on an ORIGINAL text (model of JavaScript wrong?): %s\n spec=%s node=%s"
                               % (_show(pr["text"]), pr["exp"], o))
        for tag, gi, mode in (("p", 2 * i, "plain"), ("s", 2 * i + 1, "short")):
            m = res.get("%s%d" % (tag, i))
            if m is None:
                continue
            seen += 1
            if m == pr["exp"]:
                agree += 1
            elif gi not in bad:     # a behaviour change the structural contract did not flag
                k = next((x for x in range(min(len(m), len(pr["exp"]))) if m[x] != pr["exp"][x]), min(len(m), len(pr["exp"])))
                sep = pr["exp"].index("--")
                where = "printed-value" if k < sep else "seen-by-later-script"
                if k < len(m) and m[k].endswith("Error") and k <= sep:
                    where = "throws-" + m[k]
                chk.violation("node/%s/%s" % (mode, where),
                              "run under node the minified text behaves differently: %s -> %s prints %s, specification (and the original) %s"
                              % (_show(pr["text"]), _show(gen[gi]["text"]), m, pr["exp"]),
                              {"p": pr["p"], "text": pr["text"], "short": mode == "short", "minified": gen[gi]["text"], "names": pr["names"]})
    return seen, agree


def _recs(log):
    return [dict((k, r[k]) for k in ("p", "short", "out", "same", "status") if k in r) for r in log]


def _replay(chk, sd, path):
    rp = json.load(open(path)).get("replay") or {}
    files = _files()
    if "p" not in rp:
        gen, fl, genb, flb = _drive(sd, [], files, [])
        _files_stage(chk, sd, fl, flb, shutil.which("node"), 2400)
        chk.cov.update(states=1, transitions=1, traces_validated_against_impl=len(fl) + len(flb), evaluations=len(fl) + len(flb),
                       rule="replay of " + path)
        chk.sample({"kind": "replayed shipped scripts", "files": [os.path.basename(f) for f in files]})
        return chk.finish()
    progs = [{"p": rp["p"], "text": rp["text"], "names": rp.get("names") or ["a", "b", "c"], "exp": None}]
    gen, fl, genb, flb = _drive(sd, progs, files[:1], [0])
    where = [(0, r) for r in gen + genb]
    bad, _f = _judge(chk, sd, _recs(gen + genb), "replay", 1, 2400)
    _report_gen(chk, progs, where, bad)
    chk.cov.update(states=1, transitions=1, traces_validated_against_impl=4, evaluations=4, rule="replay of " + path)
    chk.sample({"kind": "replayed", "in": _show(rp["text"]), "plain": _show(gen[0]["text"]), "short": _show(gen[1]["text"]),
                "served_short": _show(genb[1]["text"])})
    return chk.finish()


def run():
    thorough = vf.TIER == "thorough"
    chk = vf.Check(PROP)
    chk.assumptions += [
        "claimed: binding structure (every reference resolves to the declaration it resolved to before; renaming consistent per binding, capture-free; property names, file-scope names and globals keep their spelling; nothing renamed without shortenNames) and token integrity (same JavaScript token sequence, a shorthand {n} may become {n: m}) for the generated programs; token integrity for the shipped scripts",
        "not claimed: JavaScript evaluation semantics beyond name binding (automatic semicolon insertion, numeric semantics, with, eval, Function.prototype.toString); 'valid JavaScript' and 'same observable results' are observed only when node is on PATH (original and minified texts run in a fresh realm against the output TLC predicted; node --check of the minified shipped scripts) and node never is required",
        "programs are semicolon-terminated, sloppy-mode classic scripts over the constructs of JsScopes (var/let/const, destructuring, parameters with defaults, function declarations / expressions / arrows, blocks, catch, for-of, closures over outer names, object literals incl. shorthand / methods / getters, classes, template literals incl. nested, regex literals, optional chaining); pool names a, b, c collide with the short names the renamer generates",
        "level B serves through Router.ServeHTTP + AssetsHandler in process (httptest recorder), one fresh file name per mode",
        "the output tokens come from the harness tokenizer (ECMAScript lexical grammar: template head/middle/tail, regex by previous token), independent of the minifier's",
    ]
    node = shutil.which("node")
    with vf.scratch() as sd:
        if os.environ.get("VERIF_REPLAY"):
            return _replay(chk, sd, os.environ["VERIF_REPLAY"])
        inv = "ModelKeeps Emit"
        top = '{"plain","set","short","tmpl"}'
        jobs = {
            # exhaustive: two names, declarations / plain references / functions / blocks (nesting, shadowing, hoisting, collisions)
            "core": ("NamesAB", _cfg("NamesAB", '{"var","let"}', "{}", '{"plain"}', '{"plain"}', '{"decl","iife"}', False, False, '{"blk"}',
                                     5 if thorough else 4, 3 if thorough else 2, "careful", inv), {}),
            # exhaustive: a function with a parameter, every way of mentioning a name inside it, evaluated mentions outside it
            "forms": ("NamesAB", (_cfg("NamesAB", '{"const"}', '{"obj","objdef","objkey","arr"}', ALLREF, top, '{"iife","arrow"}', False, True,
                                       '{"catch","for"}', 4, 1, "careful", inv, topdecl=False) if thorough else
                                  _cfg("NamesAB", "{}", '{"objdef","objkey"}', ALLREF, '{"plain","set"}', '{"iife"}', False, True, "{}", 4, 1,
                                       "careful", inv, topdecl=False)), {}),
            # long random programs over everything
            "sim": ("NamesABC", _cfg("NamesABC", '{"var","let","const"}', '{"obj","objdef","objkey","arr"}', ALLREF, ALLREF, '{"decl","iife","arrow"}',
                                     True, True, '{"blk","catch","for"}', 14, 3, "careful", inv),
                    dict(simulate="num=%d" % (NSIM_T if thorough else NSIM_Q), depth=15, seed=vf.SEED, workers=1)),
            # exhaustive: parameters with default values naming the other pool name (all three function forms)
            "dflt": ("NamesAB", _cfg("NamesAB", '{"let"}', "{}", '{"plain","tmpl"}', '{"plain"}', '{"decl","iife","arrow"}', True, False, "{}",
                                     4, 1, "careful", inv), {}),
            # the ideal (binding-based) renamer satisfies the contract: the contract does not ask for the impossible
            "scoped": ("NamesAB", _cfg("NamesAB", '{"var","let"}', '{"obj","objdef"}', '{"plain","tmpl","short","method"}', '{"plain","tmpl"}',
                                       '{"decl","iife"}', True, False, '{"blk"}', 3, 2, "scoped", "ModelKeeps"), {}),
            # negative control: the renamer as found (rename map keyed by name) breaks four clauses
            "asis": ("NamesAB", _cfg("NamesAB", '{"var"}', "{}", '{"plain","tmpl","method"}', '{"plain"}', '{"iife"}', False, False, '{"blk"}', 3, 1,
                                     "asis", "NoGlobalRenamed NoStaleReference NoPropertyRenamed NoFileScopeRenamed"), dict(extra=["-continue"])),
        }

        if not thorough:        # the quick tier leaves the default-value table and the positive control to the thorough tier
            del jobs["dflt"], jobs["scoped"]

        def one(item):
            name, (_names, cfg, kw) = item
            kw = dict(kw)
            kw.setdefault("workers", (4 if thorough else 2) if name in ("core", "forms", "dflt") else 1)
            r = vf.tlc(SPEC, "JsScopes_Gen", name + ".cfg", sd, timeout=9000 if thorough else 2400, files={name + ".cfg": cfg}, env=JVM, **kw)
            vf.log("tlc %-6s %6.1fs  %d states, %d records" % (name, r.wall, r.distinct, len(r.records)))
            return name, r

        with ThreadPoolExecutor(max_workers=4) as ex:      # generous timeouts: the machine is shared
            res = dict(ex.map(one, jobs.items()))

        what = {"core": "MC: every program over {a,b} x var/let/plain reference/function/block up to %d items" % (5 if thorough else 4),
                "forms": "MC: every program of up to 4 items over {a,b}: a function with or without parameter (thorough: + arrow, catch, for-of, const, all destructuring forms) x every reference form and {k: n} / {n = v} patterns inside x evaluated references outside",
                "dflt": "MC: every program of up to 4 items over {a,b}: function declaration / expression / arrow whose parameter defaults to the other name",
                "scoped": "MC: the binding-based renamer satisfies the contract"}
        for nm, w in what.items():
            if nm not in res:
                continue
            vf.tlc_ok(res[nm], w)
            chk.add_tlc(res[nm], w)
        vf.tlc_ok(res["sim"], "simulation over the full alphabet")
        chk.add_tlc(res["sim"], "long random programs over the full alphabet (simulation)", count_states=False)
        broken = set()
        for m in __import__("re").finditer(r"Invariant (\S+) is violated", res["asis"].stdout):
            broken.add(m.group(1))
        need = {"NoGlobalRenamed", "NoStaleReference", "NoPropertyRenamed", "NoFileScopeRenamed"}
        if broken != need:
            raise vf.NoVerdict("negative control: the name-keyed renamer should break %s, TLC reported %s %s"
                               % (sorted(need), sorted(broken), (res["asis"].error or "")[:300]))
        chk.add_tlc(res["asis"], "negative control: the name-keyed renamer as found breaks global / stale-reference / property / file-scope clauses",
                    count_states=False)

        # programs for the real code
        rnd = random.Random(vf.SEED)
        progs, seen = [], set()
        for nm in ("core", "forms", "dflt", "sim"):
            if nm not in res:
                continue
            names = NAMES[jobs[nm][0]]
            rs = res[nm].records
            if nm == "sim":     # a seeded sample of the simulated programs, the longest first
                rs = [x for x in rs if isinstance(x, dict) and "p" in x]
                rnd.shuffle(rs)
                rs.sort(key=lambda x: -len(x["p"]))
                rs = rs[:(SIMCAP_T if thorough else SIMCAP_Q) * 2]
                rnd.shuffle(rs)
                rs = rs[:(SIMCAP_T if thorough else SIMCAP_Q)]
            for x in rs:
                if not (isinstance(x, dict) and "p" in x and "toks" in x):
                    continue
                k = json.dumps(x["p"], sort_keys=True)
                if k in seen:
                    continue
                seen.add(k)
                progs.append({"p": x["p"], "toks": x["toks"], "exp": x["exp"], "names": names, "src": nm, "text": _render(x["toks"], rnd)})
        nsim = sum(1 for q in progs if q["src"] == "sim")
        if len(progs) - nsim < 500 or nsim < 30:
            raise vf.NoVerdict("generators produced too little (%d exhaustive, %d simulated)" % (len(progs) - nsim, nsim))
        files = _files()
        served = sorted(rnd.sample(range(len(progs)), min(len(progs), 2000 if thorough else 300)))
        gen, fl, genb, flb = _drive(sd, progs, files, served)
        vf.log("drivers done at %.0fs: %d programs x 2 modes (%d also served), %d shipped scripts x 2 modes x 2 levels"
               % (time.time() - chk.t0, len(progs), len(served), len(files)))

        to = 9000 if thorough else 2400
        where = [(i // 2, r) for i, r in enumerate(gen)] + [(served[i % len(served)], r) for i, r in enumerate(genb)]
        with ThreadPoolExecutor(max_workers=2) as ex:
            fj = ex.submit(_judge, chk, sd, _recs(gen + genb), "gen", 8 if thorough else 4, to)
            ff = ex.submit(_files_stage, chk, sd, fl, flb, node, to)
            (bad, feats), parsed = fj.result(), ff.result()
        _report_gen(chk, progs, where, bad)
        for f in ("global-and-local-share-a-name", "file-scope-and-local-share-a-name", "two-locals-share-a-name", "locals"):
            if feats.get(f, 0) == 0 and not chk.cands:
                raise vf.NoVerdict("the programs did not cover %s: %s" % (f, feats))

        nseen = nagree = 0
        if node:
            pool = list(range(len(progs)))
            sample = rnd.sample(pool, min(len(pool), 2500 if thorough else 200))
            nseen, nagree = _node_stage(chk, progs, gen, bad, sample)

        chk.cov["binding_selftest"] = ("appended to every contract run: 11 pairs (global renamed, reference left behind, token dropped, shorthand key "
                                       "renamed, property renamed, two bindings merged, file-scope name renamed, renamed without shortenNames -> "
                                       "rejected with the right clause; three good pairs accepted); token contract: a renamed property and a dropped "
                                       "token in a shipped script rejected")
        chk.cov["traces_validated_against_impl"] = len(gen) + len(genb) + len(fl) + len(flb)
        chk.cov["evaluations"] = len(gen) + len(genb) + len(fl) + len(flb)
        chk.cov["served_by_asset_handler"] = {"programs": len(served), "scripts": len(files), "modes": 2}
        chk.cov["distinct_nontrivial"] = sum(v for f, v in feats.items() if f != "no-locals")
        chk.cov["generated_programs"] = {"exhaustive": len(progs) - nsim, "simulated": nsim, "classes": feats,
                               "max_items": max(len(q["p"]) for q in progs)}
        chk.cov["shipped_scripts"] = {"files": [os.path.basename(f) for f in files], "tokens": sum(len(r["in"]) for r in fl[::2]),
                                      "node_check_runs": parsed}
        chk.cov["node"] = {"present": bool(node), "minified_texts_run": nseen, "agree_with_specification": nagree}
        chk.cov["exhaustive"] = True
        chk.cov["rule"] = ("every program TLC enumerated (BFS of JsScopes_Gen over three alphabets) plus a seeded sample of %d of the complete "
                           "programs met along %d simulated traces over the full alphabet (seed = VERIF_SEED), rendered with seeded white space and "
                           "comments, goes through the real Minify with and without shortenNames; the harness tokenizer projects the output to "
                           "tokens; JsScopes_Trace judges every pair; the shipped dashboard scripts go through both modes and JsTokens_Trace judges "
                           "token integrity; distinct_nontrivial = distinct programs with local bindings (counted by the contract, once per program)"
                           % (nsim, NSIM_T if thorough else NSIM_Q))
        mid = len(progs) // 2
        chk.sample({"kind": "generated", "in": _show(progs[mid]["text"]), "plain": _show(gen[2 * mid]["text"]), "short": _show(gen[2 * mid + 1]["text"]),
                    "expect": progs[mid]["exp"]})
        last = len(progs) - 1
        chk.sample({"kind": "simulated", "in": _show(progs[last]["text"], 700), "short": _show(gen[2 * last + 1]["text"], 500), "expect": progs[last]["exp"]})
        chk.sample({"kind": "shipped", "src": fl[1]["src"], "tokens": len(fl[1]["in"]), "bytes_out": len(fl[1]["text"])})
    return chk.finish()

"""C15 - SQL endpoints authorize every table the statement touches.

spec/SqlShape (SqlShapeDefs, SqlShape, _Gen, _Trace).  Stages:
  MC (design: Authorize with a complete extractor satisfies OnlyIfAuthorized for every shape x grant profile)
  negative control (the as-is clause list violates it)
  Gen (every shape of the bound with its SQL text and Required)
  in-package extraction (sqlparse.Tables on every shape) -> TLA+ picks suspects
  F: real `ego server` requests (@sql, @transaction sql task, @transaction readrows+sql) by non-admin users holding
     everything but one demanded permission; status / executed statement (server SQL log) / database file state /
     logged permission lookups / SQLite EXPLAIN recorded and judged by the TLA+ contract SqlShape_Trace
  binding self-test (corrupted records must be rejected by the contract)
"""
import collections, http.client, json, os, random, shutil, sqlite3, threading, time
from concurrent.futures import ThreadPoolExecutor
import vf, egosrv

PROP = "C15"
HARNESS = [("sqlshape/extract_test.go", "internal/sqlparse/zz_verif_c15_test.go")]

FIXTURE = """
CREATE TABLE T(a INTEGER UNIQUE, b INTEGER, c INTEGER);
CREATE TABLE S(x INTEGER, y INTEGER);
CREATE TABLE U(p INTEGER, q INTEGER);
CREATE TABLE D(z INTEGER, z2 INTEGER);
INSERT INTO T VALUES (10,1,1),(20,2,2);
INSERT INTO S VALUES (1,100),(2,200);
INSERT INTO U VALUES (1,7),(2,8);
INSERT INTO D VALUES (1,2);
CREATE INDEX IX ON T(b);
CREATE VIEW V AS SELECT x, y FROM S;
CREATE VIEW VU AS SELECT p, q FROM U;
CREATE VIEW W AS SELECT a FROM T;
"""
PERM2EGO = {"read": "ego.table.read", "insert": "ego.table.write", "update": "ego.table.update", "delete": "ego.table.delete"}
EGO2PERM = {v: k for k, v in PERM2EGO.items()}
NOW = {"t": "", "p": ""}          # "nothing withheld"
FEW = {"scalar", "exists", "in", "rowsub"}
STRUCT_POS = {"join_right", "join_left", "left_join", "comma", "paren_join", "compound", "from", "using", "source", "as", "body"}
ADMIN = ("admin", "secret")


def uname(d):
    return "all" if not d["p"] else ("no%s%s" % (d["p"], d["t"].replace("*", "dsn"))).lower()


# ------------------------------------------------------------------ database projection / fixture

def db_connect(path):
    con = sqlite3.connect(path, timeout=20, isolation_level=None)
    con.execute("PRAGMA busy_timeout=20000")
    return con


def db_project(path):
    """The real state of the SQLite file: schema objects and all rows."""
    con = db_connect(path)
    try:
        objs = con.execute("SELECT type, name, tbl_name, sql FROM sqlite_master ORDER BY type, name").fetchall()
        data = []
        for typ, name, _t, _s in objs:
            if typ == "table":
                data.append((name, sorted(con.execute('SELECT * FROM "%s"' % name).fetchall(), key=repr)))
        return repr((objs, data))
    finally:
        con.close()


def db_restore(path):
    con = db_connect(path)
    try:
        for _ in range(3):      # views first, then indexes, then tables
            for typ, name in con.execute("SELECT type, name FROM sqlite_master WHERE name NOT LIKE 'sqlite_%'").fetchall():
                try:
                    con.execute('DROP %s IF EXISTS "%s"' % (typ.upper(), name))
                except sqlite3.Error:
                    pass
        con.executescript(FIXTURE)
    finally:
        con.close()


class Explainer:
    """SQLite's own account of what a statement opens (reference for Required): OpenRead/OpenWrite root pages
    of EXPLAIN mapped to table names on a pristine copy of the fixture."""

    def __init__(self):
        self.cache = {}
        self.lock = threading.Lock()

    def explain(self, sql):
        with self.lock:
            if sql in self.cache:
                return self.cache[sql]
            con = sqlite3.connect(":memory:")
            try:
                con.executescript(FIXTURE)
                roots = {1: "sqlite_master"}
                for name, tbl, root in con.execute("SELECT name, tbl_name, rootpage FROM sqlite_master WHERE rootpage > 0"):
                    roots[root] = tbl
                ro, wr = set(), set()
                try:
                    rows = con.execute("EXPLAIN " + sql).fetchall()
                except sqlite3.Error:
                    self.cache[sql] = None
                    return None
                for row in rows:
                    op, p1, p2, p3, p5 = row[1], row[2], row[3], row[4], row[6]
                    if op == "Clear" and p2 == 0 and roots.get(p1):     # DELETE without WHERE: truncate optimisation
                        wr.add(roots[p1])
                    if op not in ("OpenRead", "OpenWrite") or p3 != 0:
                        continue
                    p5 = int(p5, 16) if isinstance(p5, str) and p5 else int(p5 or 0)
                    if p5 & 0x10:       # P2 is a register (table created by this very statement)
                        continue
                    name = roots.get(p2)
                    if name:
                        (ro if op == "OpenRead" else wr).add(name)
                self.cache[sql] = (sorted(ro), sorted(wr))
                return self.cache[sql]
            finally:
                con.close()


# ------------------------------------------------------------------ server provisioning

def provision(srv, sd, ndsn, demands, allgrants):
    """Users (one per withheld demand + 'all'), ndsn restricted SQLite DSNs with the fixture, DSN-level and
    table-level grants = AllGrants minus the withheld one.  All through the real admin API."""
    profiles = [NOW] + demands
    dsns = []
    atok = logon(srv, *ADMIN)        # bearer token: basic auth would pay a password hash per request
    if not atok:
        raise vf.NoVerdict("admin logon failed")
    for k in range(ndsn):
        name = "d%d" % k
        path = os.path.join(sd, "%s.db" % name)
        con = db_connect(path)
        con.executescript(FIXTURE)
        con.close()
        r = areq(srv, "POST", "/dsns/", {"name": name, "provider": "sqlite", "database": path, "restricted": True}, token=atok)
        if r.status != 201:
            raise vf.NoVerdict("cannot create DSN: %r" % r)
        dsns.append((name, path))

    def grant(job):
        name, w = job
        user = uname(w)
        acts = ["+ego.dsn.read", "+ego.dsn.write"] + ([] if w["p"] == "schema" else ["+ego.dsn.admin"])
        r = areq(srv, "POST", "/dsns/@permissions", {"dsn": name, "user": user, "actions": acts}, token=atok)
        if r.status != 200:
            raise vf.NoVerdict("DSN grant failed: %r" % r)
        bytable = collections.defaultdict(list)
        for g in allgrants:
            if g["p"] != "schema" and g != w:
                bytable[g["t"]].append("+" + PERM2EGO[g["p"]])
        for t, perms in sorted(bytable.items()):
            r = areq(srv, "PUT", "/dsns/%s/tables/%s/permissions?user=%s" % (name, t, user), sorted(perms), token=atok)
            if r.status != 200:
                raise vf.NoVerdict("table grant failed: %r" % r)

    for n, _p in dsns:          # sequential: the server's permission store is one SQLite file (concurrent writers get SQLITE_BUSY)
        for w in profiles:
            grant((n, w))
    tokens = {}
    for w in profiles:
        tok = logon(srv, uname(w), "pw")
        if not tok:
            raise vf.NoVerdict("logon failed for %s" % uname(w))
        tokens[uname(w)] = tok
    return dsns, tokens


def logon(srv, user, pw):
    """srv.logon with a generous timeout (the first login re-hashes the stored credential; slow on a loaded machine)."""
    try:
        r = srv.req("POST", "/services/admin/logon", auth=(user, pw), timeout=300)
    except (OSError, http.client.HTTPException) as ex:
        raise vf.NoVerdict("logon of %s failed: %s" % (user, ex))
    return (r.json() or {}).get("token")


def areq(srv, *a, **kw):
    try:
        return srv.req(*a, timeout=300, **kw)
    except (OSError, http.client.HTTPException) as ex:
        raise vf.NoVerdict("admin request failed: %s %s" % (a[:2], ex))


def send(srv, dsn, ep, sqls, token):
    try:        # never retried: a statement may have run although its answer was lost
        if ep == "sql":
            r = srv.req("POST", "/dsns/%s/tables/@sql" % dsn, json.dumps(sqls[0] if len(sqls) == 1 else sqls), token=token,
                        headers={"Content-Type": "application/json"}, timeout=300)
        else:
            op = "sql" if ep == "tx" else "readrows"
            r = srv.req("POST", "/dsns/%s/tables/@transaction" % dsn, [{"operation": op, "sql": q} for q in sqls], token=token, timeout=300)
    except (OSError, http.client.HTTPException) as ex:
        raise vf.NoVerdict("request to the server failed (%s): %s via %s" % (ex, sqls, ep))
    j = r.json() or {}
    sess = (j.get("server") or {}).get("session")
    return r.status, sess, (j.get("msg") or "")[:200]


def drive(srv, dsns, tokens, cases, pristine):
    """cases: list of (shape-record, endpoint).  Per case: the control request by the user holding everything, then one
    request per demanded permission by the user lacking exactly it.  Sequential per DSN (the database file is
    restored whenever a request changed it)."""
    out = [None] * len(cases)
    buckets = [[] for _ in dsns]
    for n, c in enumerate(cases):
        buckets[n % len(dsns)].append((n, c))

    def work(k):
        name, path = dsns[k]
        for n, (g, ep) in buckets[k]:
            recs = []
            for w in [NOW] + list(g["required"]):      # the control request first: a statement that does not run for
                status, sess, msg = send(srv, name, ep, g["sqls"], tokens[uname(w)])    # the full profile decides nothing
                changed = db_project(path) != pristine
                if changed:
                    db_restore(path)
                    if db_project(path) != pristine:
                        raise vf.NoVerdict("fixture restore failed on %s" % name)
                recs.append({"rec": "req", "ep": ep, "shape": g["shape"], "sql": g["sql"], "w": w, "status": status,
                             "session": sess or 0, "changed": changed, "msg": msg})
                if not w["p"] and status != 200 and not changed:
                    break
            out[n] = recs[1:] + recs[:1]                # the control record closes its group

    with ThreadPoolExecutor(max_workers=len(dsns)) as ex:
        list(ex.map(work, range(len(dsns))))
    return out


def read_server_log(srv, upto, wait=20):
    """session -> {"exec": [sql...], "checks": [{t,p}...]} from the server's own log (SQL and TABLES classes)."""
    t0 = time.time()
    while True:
        by = collections.defaultdict(lambda: {"exec": [], "checks": [], "done": False})
        for line in srv.log_text().splitlines():
            if not line.startswith("{"):
                continue
            try:
                j = json.loads(line)
            except ValueError:
                continue
            s, msg, a = j.get("session"), j.get("msg"), j.get("args") or {}
            if s is None:
                continue
            if msg in ("log.sql.exec", "log.sql.query") and "sql" in a:
                by[s]["exec"].append(a["sql"])
            elif msg == "log.table.auth":
                for p in a.get("perms") or []:
                    if p in EGO2PERM:
                        by[s]["checks"].append({"t": a.get("table", ""), "p": EGO2PERM[p]})
            elif msg == "log.server.request":
                by[s]["done"] = True
        if by[upto]["done"] or time.time() - t0 > wait:
            return by
        time.sleep(0.25)


# ------------------------------------------------------------------ contract evaluation (TLC)

REQ_FIELDS = ("rec", "ep", "shape", "w", "status", "executed", "changed", "checks", "ctl", "xplain", "xopen", "xwrite", "execk")
X_FIELDS = ("rec", "id", "shape", "parsed", "kind", "usages")


def contract(chk, sd, recs, name):
    path = os.path.join(sd, "io-%d.ndjson" % int(time.time() * 1e6))
    vf.write_ndjson(path, [{k: r[k] for k in (REQ_FIELDS if r["rec"] == "req" else X_FIELDS)} for r in recs])
    r = vf.tlc("SqlShape", "SqlShape_Trace", "SqlShape_Trace.cfg", sd, workers=1, files={"io.ndjson": path}, timeout=1500)
    if r.error or r.violated or r.rc != 0:
        raise vf.NoVerdict("contract evaluation failed: %s %s\n%s" % (r.violated, r.error, r.stdout[-2500:]))
    rep = [x for x in r.records if isinstance(x, dict) and "bad" in x and "n" in x]
    if not rep or int(rep[-1]["n"]) != len(recs):
        raise vf.NoVerdict("contract spec printed no (complete) report\n" + r.stdout[-1500:])
    if name:
        chk.add_tlc(r, name, count_states=False)
    rep = rep[-1]
    for k in ("bad", "xbad", "suspects"):
        if not isinstance(rep[k], list):
            rep[k] = []
    return rep


def finalize(groups, log):
    """Flatten the per-case request groups into the io log: attach the log-derived observations and the index of
    each record's control record (1-based, as TLA+ sequences are)."""
    flat = []
    for grp in groups:
        ctl = len(flat) + len(grp)
        for r in grp:
            ent = log.get(r["session"]) if r["session"] else None
            r = dict(r)
            r["executed"] = bool(ent and ent["exec"])
            r["exec_sql"] = ent["exec"][-1] if ent and ent["exec"] else ""
            r["execk"] = [(q.split() or [""])[0].upper() for q in ent["exec"]] if ent else []
            r["checks"] = ent["checks"] if ent else []
            r["ctl"] = ctl
            r["xplain"], r["xopen"], r["xwrite"] = False, [], []
            flat.append(r)
    return flat


# ------------------------------------------------------------------ the check

def run():
    thorough = vf.TIER == "thorough"
    rng = random.Random(vf.SEED)
    chk = vf.Check(PROP)
    chk.assumptions += [
        "SQLite only (no PostgreSQL offline); fixture schema T,S,U,D + views V,VU,W + index IX; one statement per request",
        "a view reference demands read on the view's own name (grants on a view stand for the view, not its base tables)",
        "UPDATE/DELETE targets demand the matching write permission only (no extra read on the target); INSERT .. ON CONFLICT "
        "DO UPDATE / OR REPLACE are judged as INSERT (the statement's kind), as the property's EXPLAIN observer would",
        "'executed' = the server's SQL log shows the statement handed to the database for that request, or the SQLite file changed",
        "the DSN-administrator lookup is not logged by the server: the schema clause is decided by withholding it only",
        "transaction-control statements (BEGIN/COMMIT/...) touch no table and are not generated"]
    with vf.scratch(prefix="c15-") as sd:
        res = {}

        def stage(name, fn):
            try:
                res[name] = fn()
            except BaseException as ex:     # re-raised in the main thread
                res[name] = ex

        def build():
            # private copies of the two generated build products: the shared cache is pruned by concurrent checks
            g = vf.gen_files()
            extra = {}
            for key, dst in (("messages", vf.REPO + "/internal/i18n/messages.go"), ("libzip", vf.REPO + "/internal/cli/app/lib.zip")):
                cp = os.path.join(sd, "gen-" + os.path.basename(dst))
                shutil.copy(g[key], cp)
                extra[dst] = cp
            ov = vf.make_overlay(sd, HARNESS, extra=extra)
            return ov, vf.go_build(ov, ".", os.path.join(sd, "ego"), timeout=3000)   # cold builds on a loaded machine exceed build_ego's 900 s

        gen_cfg = "SqlShape_Gen.cfg" if thorough else "SqlShape_Gen1.cfg"
        jobs = {
            "build": build,
            "mc": lambda: vf.tlc("SqlShape", "SqlShape", "SqlShape_MC.cfg" if thorough else "SqlShape_MCq.cfg", sd, workers=4, timeout=1200),
            "neg": lambda: vf.tlc("SqlShape", "SqlShape", "SqlShape_MC_asis.cfg", sd, workers=2, timeout=600),
            "gen": lambda: vf.tlc("SqlShape", "SqlShape_Gen", gen_cfg, sd, workers=1, timeout=1200),
        }
        ths = [threading.Thread(target=stage, args=(n, f)) for n, f in jobs.items()]
        for t in ths:
            t.start()
        for t in ths:
            t.join()
        for n in jobs:
            if isinstance(res[n], BaseException):
                raise res[n]
        ov, ego = res["build"]
        vf.log("C15 build+MC+neg+gen done %.0fs (mc %.0fs, neg %.0fs, gen %.0fs)" % (time.time() - chk.t0, res["mc"].wall, res["neg"].wall, res["gen"].wall))
        # 1. the design satisfies C15 for every shape x profile of the bound
        chk.add_tlc(vf.tlc_ok(res["mc"], "SqlShape MC"), "MC complete extractor")
        # 2. negative control: the clause list of the unchanged tree must violate it (vacuity guard)
        if res["neg"].violated != "OnlyIfAuthorized":
            raise vf.NoVerdict("negative control: as-is extractor model did not violate OnlyIfAuthorized (%s)" % res["neg"].violated)
        chk.add_tlc(res["neg"], "negative control (as-is clause walk) violates OnlyIfAuthorized", count_states=False)
        # 3. every shape of the bound
        rg = vf.tlc_ok(res["gen"], "SqlShape_Gen")
        chk.add_tlc(rg, "Gen (all shapes, depth <= %d)" % (2 if thorough else 1), count_states=False)
        uni = [x for x in rg.records if "demands" in x]
        shapes = [x for x in rg.records if "sql" in x]
        if len(uni) != 1 or len(shapes) != rg.distinct or not shapes:
            raise vf.NoVerdict("generator output incomplete: %d shapes for %d states" % (len(shapes), rg.distinct))
        if any("?" in g["sql"] for g in shapes):
            raise vf.NoVerdict("generator produced an unfinished SQL template")
        shapes.sort(key=lambda g: json.dumps(g["shape"], sort_keys=True))
        for n, g in enumerate(shapes):
            g["id"] = n + 1
        demands, allgrants = uni[0]["demands"], uni[0]["allgrants"]
        chk.cov["shapes"] = {"total": len(shapes), "depth1": sum(1 for g in shapes if g["depth"] <= 1),
                             "depth2": sum(1 for g in shapes if g["depth"] == 2)}
        # 4. what the real extractor reports for every shape (in-package); TLA+ picks the suspects
        xin, xout = os.path.join(sd, "x-in.ndjson"), os.path.join(sd, "x-out.ndjson")
        single = [g for g in shapes if g["shape"]["kind"] != "batch"]       # a batch is not one statement: nothing to parse as one
        vf.write_ndjson(xin, [{"id": g["id"], "sql": g["sql"], "shape": g["shape"]} for g in single])
        vf.run_harness(sd, ov, "./internal/sqlparse/", "TestVerifC15Extract", {"VERIF_IN": xin, "VERIF_OUT": xout}, expect_out=xout)
        xrecs = vf.read_ndjson(xout)
        if len(xrecs) != len(single):
            raise vf.NoVerdict("extraction harness returned %d of %d records" % (len(xrecs), len(single)))
        rep = contract(chk, sd, xrecs, "extractor output judged (suspect selection)")
        suspects = set(rep["suspects"])
        vf.log("C15 extraction judged %.0fs: %d suspects" % (time.time() - chk.t0, len(suspects)))
        parsed = {x["id"] for x in xrecs if x["parsed"]}
        chk.cov["extractor"] = {"parsed": len(parsed), "unparsed": len(single) - len(parsed), "suspects": len(suspects)}
        # 5. which shapes go to the real server.  thorough: every depth<=1 shape; quick: every statement position with the
        #    basic forms plus every other form in some positions (seeded).  Both: every suspect that is new at depth 2
        #    (its depth-1 prefix is not a suspect), a few suspects per position, a seeded stratified sample of depth 2.
        byid = {g["id"]: g for g in shapes}
        skey = lambda sh: json.dumps(sh, sort_keys=True)
        bykey = {skey(g["shape"]): g for g in shapes}
        d1 = [g for g in shapes if g["depth"] <= 1]
        if thorough:
            chosen = {g["id"] for g in d1}
        else:
            ctes = [g for g in d1 if g["shape"]["cte"]["on"]]
            chosen = {g["id"] for g in d1 if (g["depth"] == 0 and not g["shape"]["cte"]["on"])
                      or (g["depth"] == 1 and (g["shape"]["plants"][0]["form"] in FEW or g["shape"]["plants"][0]["pos"] in STRUCT_POS))}
            chosen |= {g["id"] for g in rng.sample(ctes, min(16, len(ctes)))}
            rest = collections.defaultdict(list)
            for g in d1:
                if g["id"] not in chosen and g["depth"] == 1:
                    rest[(g["shape"]["kind"], g["pos"])].append(g)
            for key in sorted(rest):
                chosen |= {g["id"] for g in rng.sample(rest[key], min(3, len(rest[key])))}
        d2 = [g for g in shapes if g["depth"] == 2 and g["id"] in parsed]
        strata = collections.defaultdict(list)
        for g in d2:
            strata[(g["shape"]["kind"], g["pos"], g["shape"]["plants"][1]["pos"])].append(g)
        pick = []
        for key in sorted(strata):
            pick += rng.sample(strata[key], min(1, len(strata[key])))
        chosen |= {g["id"] for g in pick}
        deep, sus_by_pos = set(), collections.defaultdict(list)
        for gid in sorted(suspects):
            g = byid[gid]
            if g["depth"] == 2:
                parent = bykey[skey(dict(g["shape"], plants=g["shape"]["plants"][:1]))]
                if parent["id"] not in suspects:
                    deep.add(gid)
                    continue
            sus_by_pos[(g["shape"]["kind"], g["pos"])].append(gid)
        chosen |= deep
        for key in sorted(sus_by_pos):
            chosen |= set(rng.sample(sus_by_pos[key], min(6 if thorough else 3, len(sus_by_pos[key]))))
        chk.cov["extractor"]["suspects_new_at_depth2"] = len(deep)
        eps = ["sql", "tx", "rows"] if thorough else ["sql", "tx"]
        replay = os.environ.get("VERIF_REPLAY")
        if replay:              # bin/verif check C15 --replay replays/C15-....json : only that shape, on its endpoint
            rr = json.load(open(replay))["replay"]["record"]
            rr["shape"].setdefault("cte", {"on": False, "site": "", "name": "", "ref": "", "body": "", "nest": ""})
            rr["shape"].setdefault("batch", [])
            if skey(rr["shape"]) not in bykey:
                raise vf.NoVerdict("replay: the shape is not in this tier's bound (depth 2 needs --tier thorough)")
            chosen, deep, eps = {bykey[skey(rr["shape"])]["id"]}, set(), [rr["ep"]]
        cases = []
        for gid in sorted(chosen):
            g = byid[gid]
            for ep in eps:
                if ep == "rows" and ((g["depth"] == 2 and gid not in deep) or g["shape"]["kind"] == "batch"):
                    continue
                cases.append((g, ep))
        rng.shuffle(cases)
        # 6. F: the real server
        ndsn = 6
        users = {"admin": (ADMIN[1], ["ego.root", "ego.logon"])}
        for w in [NOW] + demands:
            users[uname(w)] = ("pw", ["ego.logon", "ego.sql"])
        t0 = time.time()
        srv = egosrv.Server(sd, ego, users=users, settings={"ego.server.userdata": "sqlite3://%s/sys.db" % sd},
                            env={"EGO_DEFAULT_LOGGING": "SQL,TABLES"})
        try:
            srv.start(wait=180)         # generous: the machine may be heavily loaded
            dsns, tokens = provision(srv, sd, ndsn, demands, allgrants)
            pristine = db_project(dsns[0][1])
            vf.log("C15 provisioned %.0fs; %d cases" % (time.time() - chk.t0, len(cases)))
            groups = drive(srv, dsns, tokens, cases, pristine)
            last = max(r["session"] or 0 for grp in groups for r in grp)
            log = read_server_log(srv, last)
            if not srv.alive():
                raise vf.NoVerdict("the server died during the run\n" + srv.log_text()[-2000:])
        finally:
            srv.stop()
        if not log[last]["done"]:
            raise vf.NoVerdict("server log incomplete (request of session %s not logged)" % last)
        flat = finalize(groups, log)
        vf.log("C15 %d requests done %.0fs" % (len(flat), time.time() - chk.t0))
        # SQLite's own account of the executed text (control records)
        xp = Explainer()
        for r in flat:
            if not r["w"]["p"] and r["executed"] and r["shape"]["kind"] != "batch":
                e = xp.explain(r["exec_sql"])
                if e is not None:
                    r["xplain"], r["xopen"], r["xwrite"] = True, e[0], e[1]
        chk.cov["server_run"] = {"cases": len(cases), "requests": len(flat), "wall_s": round(time.time() - t0, 1), "dsns": ndsn}
        # 7. the contract judges every request
        rep = contract(chk, sd, flat, "requests judged by the contract")
        if rep["xbad"]:
            ex = [{k: flat[i - 1][k] for k in ("sql", "exec_sql", "xopen", "xwrite")} for i in sorted(rep["xbad"])[:5]]
            raise vf.NoVerdict("specification and SQLite (EXPLAIN) disagree on what is touched, e.g. %s" % json.dumps(ex)[:1500])
        decided = [r for r in flat if flat[r["ctl"] - 1]["executed"] and flat[r["ctl"] - 1]["status"] == 200]
        # vacuity guards: enough of the space is executable, and every demanded permission was really withheld somewhere
        dec_keys = {(r["shape"]["kind"], bykey[skey(r["shape"])]["pos"]) for r in decided}
        all_keys = {(g["shape"]["kind"], g["pos"]) for g in d1 if g["id"] in chosen}
        refused = {k for k in all_keys if k[0] in ("create_table", "create_index") and k[1] not in ("-", "as")} | {("delete", "using")}
        missing = sorted(all_keys - refused - dec_keys)
        if missing and not replay:
            raise vf.NoVerdict("no executable (deciding) case for statement positions %s" % missing)
        denied = {(r["w"]["t"], r["w"]["p"]) for r in decided if r["w"]["p"] and not r["executed"] and not r["changed"]}
        chk.cov["withheld_permissions_seen_denying"] = sorted("%s.%s" % d for d in denied)
        if not denied and not rep["bad"]:
            raise vf.NoVerdict("no request was ever denied: the grants are not in force")
        und = collections.Counter()
        for r in flat:
            if not r["w"]["p"] and not (r["executed"] and r["status"] == 200):
                und[(r["ep"], r["status"])] += 1
        chk.cov["undecided_controls_by_status"] = {"%s/%s" % k: v for k, v in sorted(und.items())}
        for item in rep["bad"]:
            r = flat[item["idx"] - 1]
            c = flat[r["ctl"] - 1]
            what = ("%s by a caller lacking %s: status %s, executed=%s, database changed=%s, checks logged=%s; statement: %s"
                    % (r["ep"], (r["w"]["t"] + "." + r["w"]["p"]) if r["w"]["p"] else "nothing", r["status"], r["executed"],
                       r["changed"], r["checks"], r["sql"]))
            chk.violation(item["key"], what, {"record": r, "control": c, "fixture": FIXTURE})
        chk.cov["traces_validated_against_impl"] += len({(r["ep"], json.dumps(r["shape"], sort_keys=True)) for r in decided})
        chk.cov["evaluations"] += len(decided)
        chk.cov["distinct_nontrivial"] += len({(r["ep"], json.dumps(r["shape"], sort_keys=True), r["w"]["t"], r["w"]["p"]) for r in decided})
        chk.cov["undecided_records"] = rep["undecided"]
        seen_kinds = set()
        for r in decided:        # samples: one control and one denied request per endpoint, different statement kinds
            tag = (r["ep"], bool(r["w"]["p"]))
            if tag in seen_kinds or (r["shape"]["kind"] in {k for _e, k in seen_kinds if isinstance(k, str)}):
                continue
            seen_kinds.add(tag)
            seen_kinds.add(("kind", r["shape"]["kind"]))
            chk.sample({"kind": "request", **{k: r[k] for k in ("ep", "sql", "w", "status", "executed", "changed", "checks", "xopen", "xwrite")}})
        # 8. binding self-test: a record that ran although a demanded permission was withheld, and a control that ran
        #    without one demanded lookup, must both be rejected
        cand1 = [r for r in decided if r["shape"]["kind"] != "batch" and r["w"]["p"] and r["w"] in _req(byid, r) and not r["executed"] and not r["changed"]]
        cand2 = [r for r in decided if r["shape"]["kind"] != "batch" and not r["w"]["p"] and r["executed"] and r["checks"]
                 and all(d["p"] == "schema" or d in r["checks"] for d in _req(byid, r)) and any(d["p"] != "schema" for d in _req(byid, r))]
        if replay:
            chk.cov["rule"] = "replay of one shape"
            return chk.finish()
        if not cand1 or not cand2:
            raise vf.NoVerdict("self-test: no denied / fully checked record to corrupt (driver too weak)")
        a, b = rng.choice(cand1), rng.choice(cand2)
        ca = dict(flat[a["ctl"] - 1], ctl=1)
        bad_a = dict(a, ctl=1, executed=True)
        cb = dict(b, ctl=3)
        drop = rng.choice([d for d in _req(byid, b) if d["p"] != "schema"])
        bad_b = dict(cb, checks=[c for c in b["checks"] if c != drop])
        rs = contract(chk, sd, [ca, bad_a, bad_b, dict(a, ctl=1), cb], None)
        got = sorted(x["idx"] for x in rs["bad"])
        if got != [2, 3]:
            raise vf.NoVerdict("binding self-test failed: corrupted records 2,3 expected to be rejected, contract rejected %s" % got)
        chk.cov["binding_selftest"] = "a withheld-but-executed record and a control missing one demanded lookup were both rejected; their originals accepted"
        chk.cov["rule"] = ("shape = statement kind x position x embedding form x nesting<=2 (TLC enumerates all); evaluations = real requests "
                           "whose shape is executable (its control request ran); non-trivial+distinct = distinct (endpoint, shape, withheld permission)")
        chk.cov["exhaustive"] = False
    return chk.finish()


def _req(byid, r):
    key = json.dumps(r["shape"], sort_keys=True)
    m = _req.cache
    if not m:
        for g in byid.values():
            m[json.dumps(g["shape"], sort_keys=True)] = g["required"]
    return m[key]


_req.cache = {}

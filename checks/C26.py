"""C26 - sandboxed programs stay inside the sandbox.
spec/SandboxPath (+_MC, _Gen, _Trace), harness/sandbox.  Stages:
  MC            the code-shaped model of util.SandboxJoin (lexical join + containment + symlink resolution of the
                longest existing prefix) composed with POSIX resolution: for every layout x spelling x kind of
                operation the effect is under the root (Impl="fixed", exhaustive at the bound)
  negative ctl  Impl="asis" (what sandbox.go does) must violate it (dangling link + create)
  Gen           TLC emits (file tree, path spelling) cases with their abstract class
  harness       the REAL interpreter (compiler + bytecode context + runtime packages, as the dashboard "run code"
                endpoint uses them), chroot'ed into a scratch universe built from the case; the inventory of
                functions is derived from the runtime package tables (every function with a string parameter,
                path in every string position; follow-up calls of every method of a returned handle)
     stage A    every function of the inventory x probe cases of every class, under strace -> the functions that
                touch files ("touchers": any effect, any path system call, or a core function)
     stage B    touchers x all cases, sandboxed
     plain      core functions WITHOUT sandbox: calibrates the spec's POSIX model and the observation machinery
  F             SandboxPath_Trace judges every record: each observed effect location (snapshot diff of the whole
                universe, marked values returned to the program, strace paths resolved by the spec) is under the
                root; the plain records must equal the spec's prediction exactly (else no verdict)
  self-test     records with an effect moved outside / a perturbed plain effect must be reported."""
import json, os, random, re, shutil, subprocess, time
from concurrent.futures import ThreadPoolExecutor
import vf

PROP = "C26"
SPEC = "SandboxPath"
PKG = "internal/verifharness/sandbox"
HARNESS = [("sandbox/run_test.go", PKG + "/run_test.go")]

# values for NON-path parameters (they widen what is exercised; the inventory itself is derived by the harness)
HINTS = {"io.Open#1": {"values": ["read", "write", "append"]},
         "sql.Open#0": {"values": ["sqlite3"]}, "sql.Open#1": {"deco": ["", "file:"]},
         "os.CreateTemp#1": {"values": ["t*"]},
         "io.Expand#1": {"values": ["", ".txt"]}, "io.Expand": {"recursive": True},
         "cipher.Encrypt": {"slow": True}, "cipher.Decrypt": {"slow": True}, "cipher.Seal": {"slow": True}, "cipher.Unseal": {"slow": True}}
# functions whose effect the spec predicts (calibration / model agreement); CoreOp in SandboxPath_Trace
CORE = ["os.ReadFile#0", "json.ReadFile#0", "os.WriteFile#0", "json.WriteFile#0", "os.Mkdir#0", "io.ReadDir#0",
        "os.Stat#0", "os.Chmod#0", "os.Remove#0"]
CLASSES = ["inside", "error", "abs", "dotdot", "link", "dangling"]

# ---------------------------------------------------------------- strace projection
_LINE = re.compile(r"^(\d+)\s+(\w+)\((.*)\)\s+=\s+(-?\d+|\?)(?:\s+(\w+))?")
_UNF = re.compile(r"^(\d+)\s+(\w+)\((.*) <unfinished \.\.\.>$")
_RES = re.compile(r"^(\d+)\s+<\.\.\. (\w+) resumed>(.*)$")
_STR = re.compile(r'"((?:[^"\\]|\\.)*)"')
NOFOLLOW_SC = {"lstat", "readlink", "readlinkat", "lchown", "unlink", "unlinkat", "mkdir", "mkdirat", "rmdir", "rename", "renameat",
               "renameat2", "symlink", "symlinkat", "link", "linkat", "mknod", "mknodat"}
PROBE_SC = {"lstat", "readlink", "readlinkat"}     # how the containment check itself looks at the tree (no follow, result not returned)


def _unescape(s):
    try:
        return bytes(s, "latin1").decode("unicode_escape").encode("latin1").decode("utf8", "replace")
    except Exception:
        return s


def strace_segments(path):
    """-> {(case index, function index): [ {sc, path, fol} ... ]} for the thread that issued the markers."""
    pend, lines = {}, []
    for raw in open(path, errors="replace"):
        raw = raw.rstrip("\n")
        m = _UNF.match(raw)
        if m:
            pend[m.group(1)] = "%s %s(%s" % (m.group(1), m.group(2), m.group(3))
            continue
        m = _RES.match(raw)
        if m and m.group(1) in pend:
            raw = pend.pop(m.group(1)) + m.group(3)
        lines.append(raw)
    segs, cur, tid, cwd, fds = {}, None, None, "/", {}
    for raw in lines:
        m = _LINE.match(raw)
        if not m:
            continue
        pid, sc, args, ret = m.group(1), m.group(2), m.group(3), m.group(4)
        strs = [_unescape(x) for x in _STR.findall(args)]
        if strs and strs[0].startswith("/@@B/"):
            tid = pid
            _, _, ci, fi = strs[0].split("/")
            cur = (int(ci), int(fi))
            segs[cur] = []
            cwd, fds = "/a/w/root", {}
            continue
        if strs and strs[0].startswith("/@@E/"):
            cur = None
            continue
        if cur is None or pid != tid or ret in ("?",) or int(ret) < 0 or not strs or sc in ("getcwd", "execve"):
            continue
        first = args.split(",")[0].strip()
        base = cwd
        if sc.endswith("at") or sc in ("statx", "faccessat2", "renameat2", "openat2"):
            if first != "AT_FDCWD":
                base = fds.get(first)
        for k, p in enumerate(strs[:2] if sc in ("rename", "renameat", "renameat2", "link", "linkat") else strs[:1]):
            if sc in ("symlink", "symlinkat") and k == 0:
                continue
            if p == "":
                continue
            if p.startswith("/"):
                full = p
            elif base is None:
                segs[cur].append({"sc": sc, "odd": "relative to unknown descriptor " + first, "path": p})
                continue
            else:
                full = base.rstrip("/") + "/" + p
            fol = not (sc in NOFOLLOW_SC or "AT_SYMLINK_NOFOLLOW" in args or "O_NOFOLLOW" in args)
            probe = sc in PROBE_SC or (sc in ("newfstatat", "statx", "fstatat64") and "AT_SYMLINK_NOFOLLOW" in args)
            if sc == "chdir":
                cwd = full
            if sc in ("open", "openat", "openat2", "creat"):
                fds[ret] = full
            if not probe:
                segs[cur].append({"sc": sc, "path": full, "fol": fol, "cr": "O_CREAT" in args or sc == "creat"})
    return segs


def comps(text):
    return [] if text == "/" else text[1:].split("/")


# ---------------------------------------------------------------- running the harness
def run_harness(sd, binp, cases, mode, fns, tag, strace=False, timeout=3000):
    """One process over `cases` (list of case dicts with id/nodes/sp/loopy).  Returns (out records by id, selected ids, strace segments)."""
    wd = os.path.join(sd, "h-" + tag)
    g = os.path.join(wd, "G")
    shutil.rmtree(wd, ignore_errors=True)
    os.makedirs(g)
    inp, outp, invp = os.path.join(wd, "in.ndjson"), os.path.join(wd, "out.ndjson"), os.path.join(wd, "inv.json")
    with open(inp, "w") as f:
        for c in cases:
            f.write(json.dumps({"id": c["id"], "nodes": c["nodes"], "sp": c["sp"], "loopy": c["loopy"]}) + "\n")
    e = vf.ego_env(sd)
    e.update(VERIF_IN=inp, VERIF_OUT=outp, VERIF_MODE=mode, VERIF_G=g, VERIF_REPO_DIR=vf.REPO, TZ="UTC",
             VERIF_HINTS=json.dumps(HINTS), VERIF_FNS="*" if fns is None else json.dumps(sorted(fns)),
             VERIF_CORE=json.dumps(CORE), VERIF_INV_OUT=invp)
    cmd = [binp, "-test.run", "^TestVerifSandbox$", "-test.timeout", "%ds" % timeout]
    slog = os.path.join(wd, "strace.log")
    if strace:
        e["VERIF_STRACE"] = "1"
        cmd = ["strace", "-f", "-qq", "-s", "4096", "-e", "trace=%file", "-e", "signal=none", "-o", slog] + cmd
    p = vf.run(cmd, cwd=wd, env=e, timeout=timeout + 60)
    if p.returncode != 0:
        hang = open(outp + ".hang").read() if os.path.exists(outp + ".hang") else ""
        raise vf.NoVerdict("harness (%s) failed rc=%s hang=%r\n%s\n%s" % (tag, p.returncode, hang[:500], p.stdout[-2500:], p.stderr[-1500:]))
    outs = {}
    for line in open(outp):
        if line.strip():
            o = json.loads(line)
            outs[o["id"]] = o
    if len(outs) != len(cases):
        raise vf.NoVerdict("harness (%s) answered %d of %d cases" % (tag, len(outs), len(cases)))
    inv = json.load(open(invp))
    segs = strace_segments(slog) if strace else None
    shutil.rmtree(g, ignore_errors=True)
    return outs, inv, segs


def run_sharded(sd, binp, cases, mode, fns, tag, shards):
    parts = [cases[i::shards] for i in range(shards)]
    parts = [p for p in parts if p]
    with ThreadPoolExecutor(max_workers=len(parts)) as ex:
        res = list(ex.map(lambda a: run_harness(sd, binp, a[1], mode, fns, "%s%d" % (tag, a[0])), enumerate(parts)))
    outs = {}
    for o, _inv, _s in res:
        outs.update(o)
    return outs, res[0][1]


def records(cases, outs, mode):
    by = {c["id"]: c for c in cases}
    recs = []
    for cid, o in sorted(outs.items()):
        c = by[cid]
        recs.append({"m": mode, "id": cid, "nodes": c["nodes"], "sp": c["sp"], "groups": o["groups"], "core": o["core"]})
    return recs


def sys_records(cases, segs, selected):
    """strace segments -> one record per case: per function the successful, non-probing path system calls."""
    per, odd = {}, []
    for (ci, fi), calls in sorted(segs.items()):
        c = cases[ci]
        base = selected[fi].split("@")[0]
        sysl = []
        for s in calls:
            if "odd" in s:
                odd.append({"case": c["id"], "fn": base, **s})
                continue
            if s["path"].startswith("/@@"):
                continue
            sysl.append({"sc": s["sc"], "abs": True, "c": comps(s["path"]), "fol": s["fol"], "cr": s["cr"]})
        if sysl:
            per.setdefault(ci, []).append({"fn": base, "sys": sysl})
    recs = [{"m": "sys", "id": cases[ci]["id"], "nodes": cases[ci]["nodes"], "sp": cases[ci]["sp"], "calls": calls}
            for ci, calls in sorted(per.items())]
    return recs, odd


def _judge1(sd, recs, tag, timeout):
    pth = os.path.join(sd, "io-%s.ndjson" % tag)
    vf.write_ndjson(pth, recs)
    r = vf.tlc(SPEC, "SandboxPath_Trace", "SandboxPath_Trace.cfg", sd, workers=1, files={"io.ndjson": pth}, timeout=timeout, keep_stdout=False)
    if r.error or r.violated or r.rc != 0:
        raise vf.NoVerdict("contract evaluation failed (%s): %s %s\n%s" % (tag, r.violated, r.error, r.stdout[-2500:]))
    rep = [x for x in r.records if isinstance(x, dict) and "bad" in x and "n" in x]
    if not rep:
        raise vf.NoVerdict("contract spec printed no report (%s)\n%s" % (tag, r.stdout[-1500:]))
    rep = rep[-1]
    for k in ("bad", "calbad", "classes"):
        if not isinstance(rep[k], list):
            rep[k] = []
    return r, rep


def judge(chk, sd, recs, name, timeout=2400, chunk=600):
    """SandboxPath_Trace over the records, in chunks judged by parallel TLC processes; the reports are merged
    (record indices become global, counts per key are summed)."""
    tag = re.sub(r"\W+", "_", name or "selftest")[:24]
    parts = [(k, recs[k:k + chunk]) for k in range(0, len(recs), chunk)] or [(0, [])]
    with ThreadPoolExecutor(max_workers=min(6, len(parts))) as ex:
        res = list(ex.map(lambda a: (a[0],) + _judge1(sd, a[1], "%s-%d" % (tag, a[0]), timeout), parts))
    tot = {"n": 0, "bad": {}, "calbad": [], "classes": set(), "cnt": {}}
    for off, r, rep in res:
        tot["n"] += rep["n"]
        for b in rep["bad"]:
            t = tot["bad"].setdefault(b["key"], {"key": b["key"], "idx": b["idx"] + off, "count": 0})
            t["count"] += b["count"]
        tot["calbad"] += [dict(b, idx=b["idx"] + off) for b in rep["calbad"]]
        tot["classes"].update(rep["classes"])
        for k, v in rep["cnt"].items():
            tot["cnt"][k] = tot["cnt"].get(k, 0) + v
        if name:
            chk.add_tlc(r, "%s [records %d..]" % (name, off + 1), count_states=False)
    tot["bad"] = sorted(tot["bad"].values(), key=lambda b: b["key"])
    tot["classes"] = sorted(tot["classes"])
    return tot


def sp_text(sp):
    return ("/" if sp["abs"] else "") + "/".join(sp["c"])


def tree_text(nodes):
    out = []
    for n in sorted(nodes, key=lambda n: n["p"]):
        p = "/" + "/".join(n["p"])
        out.append(p + ("/" if n["k"] == "dir" else "") + (" -> " + sp_text({"abs": n["ta"], "c": n["tc"]}) if n["k"] == "link" else ""))
    return out


def gen_cases(chk, sd, cfg):
    r = vf.tlc(SPEC, "SandboxPath_Gen", cfg, sd, workers=1, seed=vf.SEED, timeout=1500, keep_stdout=False)
    if r.violated or r.error or r.rc != 0 or not r.records:
        raise vf.NoVerdict("case generation failed: %s %s\n%s" % (r.violated, r.error, r.stdout[-2000:]))
    chk.add_tlc(r, "Gen (layout x spelling cases)")
    cases = r.records
    for i, c in enumerate(cases):
        c["id"] = i
    return cases


def _replay(path):
    """bin/verif check C26 --replay replays/C26-<key>.json : re-run the recorded case (all functions of the key's function) and judge it."""
    o = json.load(open(path))
    rp = o["replay"]
    chk = vf.Check(PROP)
    with vf.scratch() as sd:
        ov = vf.make_overlay(sd, HARNESS)
        binp = vf.go_test_compile(ov, "./" + PKG + "/", os.path.join(sd, "sandbox.test"))
        case = dict(rp["case"], id=0)
        outs, inv, segs = run_harness(sd, binp, [case], "sand", [rp["fn"]], "replay", strace=rp.get("mode") == "sys")
        recs = records([case], outs, "sand")
        if segs is not None:
            sysr, _odd = sys_records([case], segs, inv["selected"])
            recs += sysr
            print("system calls:", json.dumps([c for x in sysr for c in x["calls"]])[:2000])
        rep = judge(chk, sd, recs, "replay")
        print("observed:", json.dumps(outs[0]["groups"]))
        print("bad:", json.dumps(rep["bad"]))
        if any(b["key"] == o["key"] for b in rep["bad"]):
            print("VIOLATION property=%s replay=%s" % (PROP, path))
            return 1
        return 0


def run():
    if os.environ.get("VERIF_REPLAY"):
        return _replay(os.environ["VERIF_REPLAY"])
    thorough = vf.TIER == "thorough"
    rng = random.Random(vf.SEED)
    chk = vf.Check(PROP)
    chk.assumptions += [
        "the harness runs as root and chroots into a scratch universe (/a/w/root = sandbox root, /a/w/out = outside); programs run in-process through compiler.CompileString + bytecode.Context.Sandboxed(true) with ego.runtime.sandbox.path set, as internal/server/admin/run.go does (the `ego run --sandbox` CLI wrapper is not in the loop)",
        "inventory = every function of every internal/runtime/* package (runtime.AddPackage) that declares a string parameter, path in each string position, plus every method of a handle it returns; functions that reach files without any string parameter, compile-time `import`, and @-directives are not exercised",
        "fixed-location files the runtime writes by itself (profile store under $HOME, logs) are outside the universe and not judged",
        "reads are observed as marked values flowing back to the program (content, hidden entry names, size, mtime) and, under strace, as successful path system calls other than lstat/readlink; existence oracles through error texts are not judged",
        "single-threaded programs: no time-of-check/time-of-use races between the containment check and the operation",
        "io.Expand is not called on trees with a directory cycle as the sandbox sees it (it never returns there - see notes)"]
    with vf.scratch() as sd:
        # 1. the design: exhaustive at the bound, and the negative control
        dev = bool(os.environ.get("VERIF_C26_DEV"))      # development aid: skip the model-level stage; such a run never gives a verdict
        if not dev:
            r = vf.tlc_ok(vf.tlc(SPEC, "SandboxPath_MC", "SandboxPath_MC.cfg" if thorough else "SandboxPath_MCq.cfg", sd, timeout=2400, keep_stdout=False), "SandboxPath MC")
            chk.add_tlc(r, "MC Impl=fixed")
            if thorough:
                r2 = vf.tlc_ok(vf.tlc(SPEC, "SandboxPath_MC", "SandboxPath_MC2.cfg", sd, timeout=2400, keep_stdout=False), "SandboxPath MC2")
                chk.add_tlc(r2, "MC Impl=fixed, longer spellings on the one/two-link family")
            rn = vf.tlc(SPEC, "SandboxPath_MC", "SandboxPath_MC_asis.cfg", sd, timeout=900)
            if rn.violated != "Safe":
                raise vf.NoVerdict("negative control: the as-is SandboxJoin model did not violate Safe (%s %s)" % (rn.violated, rn.error))
            chk.add_tlc(rn, "negative control (Impl=asis) violates Safe", count_states=False)
        # 2. cases
        t0 = time.time()
        cases = gen_cases(chk, sd, "SandboxPath_GenT.cfg" if thorough else "SandboxPath_Gen.cfg")
        vf.log("generated %d cases in %.0fs" % (len(cases), time.time() - t0))
        bycls = {}
        for c in cases:
            bycls.setdefault(c["cls"], []).append(c)
        if set(bycls) != set(CLASSES):
            raise vf.NoVerdict("generated cases do not cover every class: %s" % sorted(bycls))
        # 3. harness binary
        ov = vf.make_overlay(sd, HARNESS)
        t0 = time.time()
        binp = vf.go_test_compile(ov, "./" + PKG + "/", os.path.join(sd, "sandbox.test"))
        vf.log("harness built in %.0fs" % (time.time() - t0))
        # 4. stage A: whole inventory x probe cases, under strace
        nprobe = 10 if thorough else 3
        probe = []
        for cls in CLASSES:
            probe += rng.sample(bycls[cls], min(nprobe, len(bycls[cls])))
        t0 = time.time()
        outsA, inv, segs = run_harness(sd, binp, probe, "sand", None, "A", strace=True)
        vf.log("stage A: %d probe cases x %d calls in %.0fs" % (len(probe), len(inv["selected"]), time.time() - t0))
        if not segs:
            raise vf.NoVerdict("strace recorded no call segments")
        sysA, odd = sys_records(probe, segs, inv["selected"])
        touch = set(CORE)
        for o in outsA.values():
            for g in o["groups"]:
                touch.update(g["fns"])
        for rec in sysA:
            for cl in rec["calls"]:
                touch.add(cl["fn"])
        allbases = sorted({x.split("@")[0] for x in inv["selected"]})
        chk.cov["inventory_functions"] = len(allbases)
        chk.cov["inventory_not_exercised"] = [x for x in inv["report"]]
        chk.cov["touchers"] = sorted(touch)
        if len(touch) < 12 or "os.Open#0" not in touch:
            raise vf.NoVerdict("stage A found implausibly few file-touching functions: %s" % sorted(touch))
        # 5. stage B: touchers x all cases
        t0 = time.time()
        shards = 6 if thorough else 4
        outsB, _ = run_sharded(sd, binp, cases, "sand", touch, "B", shards)
        ncallsB = sum(o["calls"] for o in outsB.values())
        vf.log("stage B: %d cases, %d calls in %.0fs" % (len(cases), ncallsB, time.time() - t0))
        # thorough: a slice of stage B under strace as well
        sysB = []
        if thorough:
            sl = rng.sample(cases, 400)
            _o, invS, segsS = run_harness(sd, binp, sl, "sand", touch, "S", strace=True)
            sysB, odd2 = sys_records(sl, segsS, invS["selected"])
            odd += odd2
        # 6. calibration: core functions without sandbox
        cal = rng.sample(cases, min(len(cases), 3000 if thorough else 200))
        t0 = time.time()
        outsP, _ = run_sharded(sd, binp, cal, "plain", CORE, "P", 2)
        vf.log("calibration: %d cases in %.0fs" % (len(cal), time.time() - t0))
        # 7. the contract (the two self-test records of step 8 ride along at the end: one JVM start less)
        recs = records(probe, outsA, "sand") + records(cases, outsB, "sand") + sysA + sysB + records(cal, outsP, "plain")
        donors = [x for x in recs if x["m"] == "sand" and any(all(e["loc"][:3] == ["a", "w", "root"] for e in g["e"]) and g["e"] for g in x["groups"])]
        pl = [x for x in recs if x["m"] == "plain" and any(c["e"] for c in x["core"])]
        if not donors or not pl:
            raise vf.NoVerdict("self-test: no sandboxed record with an inside effect / no calibration record with an effect")
        d = json.loads(json.dumps(rng.choice(donors)))
        gi = next(i for i, g in enumerate(d["groups"]) if g["e"] and all(e["loc"][:3] == ["a", "w", "root"] for e in g["e"]))
        d["groups"] = [dict(d["groups"][gi], fns=["selftest.fn#0"])]
        d["groups"][0]["e"][0]["loc"] = ["a", "w", "out", "s"]
        d["core"] = []
        q = json.loads(json.dumps(rng.choice(pl)))
        ci = next(i for i, c in enumerate(q["core"]) if c["e"])
        q["core"][ci]["e"][0]["loc"] = q["core"][ci]["e"][0]["loc"] + ["zz"]
        nreal = len(recs)
        t0 = time.time()
        rep = judge(chk, sd, recs + [d, q], "contract (sandboxed effects, strace paths, calibration)")
        vf.log("contract: %d records judged in %.0fs" % (nreal, time.time() - t0))
        st_bad = [x for x in rep["bad"] if x["key"].startswith("selftest.fn#0/")]
        st_cal = [x for x in rep["calbad"] if x["idx"] == nreal + 2]
        rep["bad"] = [x for x in rep["bad"] if not x["key"].startswith("selftest.fn#0/")]
        rep["calbad"] = [x for x in rep["calbad"] if x["idx"] <= nreal]
        rep["n"] -= 2
        for k, dv in (("judged", 1), ("pairs", 1), ("outside", 1), ("cal", len(q["core"])), ("calok", len(q["core"]) - len(st_cal))):
            rep["cnt"][k] -= dv
        cnt = rep["cnt"]
        if rep["n"] != len(recs) or cnt["skipped"]:
            raise vf.NoVerdict("contract run judged %s of %d records, %s outside the spec's domain" % (rep["n"], len(recs), cnt["skipped"]))
        if rep["calbad"] or cnt["cal"] == 0 or cnt["calok"] != cnt["cal"]:
            ex = []
            for b in rep["calbad"][:6]:
                rr = recs[b["idx"] - 1]
                got = [x["e"] for x in rr["core"] if x["fn"] == b["fn"]]
                ex.append({"fn": b["fn"], "spelling": sp_text(rr["sp"]), "tree": tree_text(rr["nodes"]), "spec": b["want"], "real": got})
            raise vf.NoVerdict("calibration: the spec's POSIX model and the unsandboxed real calls disagree (%d of %d agree) - fix the spec/harness\n%s"
                               % (cnt["calok"], cnt["cal"], json.dumps(ex, indent=1)[:6000]))
        if cnt["inside"] < 50:
            raise vf.NoVerdict("vacuity: only %d sandboxed calls had an effect inside the root" % cnt["inside"])
        for b in rep["bad"]:
            rr = recs[b["idx"] - 1]
            fn = b["key"].split("/")[0]
            if rr["m"] == "sys":
                seen = [c for c in rr["calls"] if c["fn"] == fn]
            else:
                seen = [g["e"] for g in rr["groups"] if fn in g["fns"]]
            case = {"nodes": rr["nodes"], "sp": rr["sp"], "loopy": True}
            chk.violation(b["key"], "sandboxed %s reached outside the sandbox root: spelling %r on tree %s -> observed %s (%d cases of this class)"
                          % (fn, sp_text(rr["sp"]), tree_text(rr["nodes"]), json.dumps(seen)[:600], b["count"]),
                          {"fn": fn, "mode": rr["m"], "case": case, "observed": seen})
        # 8. binding self-test: the effect moved outside / the perturbed calibration record must have been reported
        if not (len(st_bad) == 1 and st_bad[0]["idx"] == nreal + 1 and len(st_cal) == 1):
            raise vf.NoVerdict("binding self-test failed: perturbed records were not reported (%s %s)" % (json.dumps(st_bad)[:400], json.dumps(st_cal)[:400]))
        chk.cov["binding_selftest"] = "an inside effect moved to /a/w/out/s was reported as %s; a perturbed calibration effect was reported" % st_bad[0]["key"]
        # 9. evidence
        chk.cov["traces_validated_against_impl"] = cnt["judged"]
        chk.cov["evaluations"] = cnt["pairs"] + cnt["cal"]
        chk.cov["distinct_nontrivial"] = len({(x["id"], f, json.dumps(g["e"], sort_keys=True)) for x in recs if x["m"] == "sand"
                                              for g in x["groups"] for f in g["fns"]})
        chk.cov["calls_executed"] = sum(o["calls"] for o in outsA.values()) + ncallsB + sum(o["calls"] for o in outsP.values())
        chk.cov["cases"] = {k: len(v) for k, v in sorted(bycls.items())}
        chk.cov["classes_judged"] = sorted(rep["classes"])
        chk.cov["calibration"] = {"calls": cnt["cal"], "agree": cnt["calok"]}
        chk.cov["model_agreement_core_calls"] = {"calls": cnt["core"], "asis": cnt["asis"], "fixed": cnt["fixed"]}
        chk.cov["strace"] = {"records": cnt["sys"], "odd_calls": odd[:10]}
        chk.cov["rule"] = ("cases = TLC-generated (file tree, spelling) pairs; evaluations = (function#position, effect set) pairs judged by "
                           "SandboxPath_Trace + calibration calls; non-trivial = pairs with at least one observed effect")
        chk.cov["exhaustive"] = False
        c0 = probe[0]
        chk.sample({"kind": "case", "class": c0["cls"], "spelling": sp_text(c0["sp"]), "tree": tree_text(c0["nodes"]),
                    "observed": outsA[c0["id"]]["groups"][:4]})
        for c in cases[:2]:
            chk.sample({"kind": "case", "class": c["cls"], "spelling": sp_text(c["sp"]), "tree": tree_text(c["nodes"]),
                        "observed": outsB[c["id"]]["groups"][:4]})
        if dev:
            chk.cov["states"] = max(chk.cov["states"], 1)
            for k, w, _r in chk.cands:
                print("DEV candidate:", k, w[:300])
            rc = chk.finish()
            if rc == 0:
                raise vf.NoVerdict("VERIF_C26_DEV run (model-level stage skipped): nothing new found, but such a run never passes")
            return rc
    return chk.finish()

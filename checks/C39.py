"""C39 - static assets are served exactly and only from the asset root.
spec/AssetRange (+_MC, _Gen, _Trace).  Stages:
  1. MC: the handler model (design variant) satisfies the contract for every request of the domain and every
     cache history of length <= 2;  negative controls: the as-is variant must violate NoPanic, Exact and NoOutside.
  2. F binding: every case of the domain (TLC-generated: literal request line, Range text, method, minify setting,
     cache history) is executed on the real AssetsHandler through the real router on the fixture the spec prints;
     every (case, response) pair is judged by the TLA+ contract AssetRange!Allowed (AssetRange_Trace).
  3. binding self-test: perturbed copies of accepted pairs must all be rejected by the contract.
"""
import json, os, random, re
from concurrent.futures import ThreadPoolExecutor
import vf

PROP = "C39"
SPEC = "AssetRange"
HARNESS = [vf.kit("internal/server/assets", "assets"),
           ("assets/c39_test.go", "internal/server/assets/zz_verif_c39_test.go")]


def _tlc_jobs(sd, jobs):
    """jobs: name -> kwargs for vf.tlc.  Run concurrently (each JVM small)."""
    def one(item):
        name, kw = item
        try:
            return name, vf.tlc(SPEC, kw.pop("module"), kw.pop("cfg"), sd, **kw), None
        except vf.NoVerdict as ex:
            return name, None, ex
    with ThreadPoolExecutor(max_workers=len(jobs)) as ex:
        res = list(ex.map(one, list(jobs.items())))
    out = {}
    for name, r, err in res:
        if err:
            raise err
        out[name] = r
    return out


def _describe(rec):
    i, o = rec["in"], rec["out"]
    rng = i["range"]["text"] if i["range"]["shape"] != "none" else "(no Range)"
    if o.get("big"):
        body = "<%d bytes in %d runs: %s%s>" % (sum(n for _, n in o["rle"]), len(o["rle"]), o["rle"][:4], "..." if len(o["rle"]) > 4 else "")
    else:
        body = repr(bytes(b & 255 for b in o["body"][:60]))
    return ("%s%s %s Range: %s minify=%s prime=%s => status %s Content-Range=%r Content-Length=%r body=%s%s"
            % ("[concurrent, GOMAXPROCS=%s] " % rec.get("gomaxprocs") if rec.get("stage") == "conc" else "",
               i["method"], i["path"]["url"], rng, i["min"], i["prime"] or "-", o["status"], o["cr"], o["cl"], body,
               " (handler panicked)" if o["panicked"] else ""))


_DECL = re.compile(r"^\s*(?:const\s+|var\s+)?([A-Za-z_]\w*)(?:\s+u?int(?:8|16|32|64)?)?\s*=\s*([0-9][0-9_ \t*+()<]*?)\s*(?://.*)?$", re.M)


def _read_limits():
    """Size constants of the asset handler, read from the source of the tree under test: every const/var of
    handler.go / cache.go with an integer initialiser >= 1 KiB, and thresholds derived from one of them by a
    literal factor (name/2, name*2).  Nothing is hard-coded here."""
    found = {}
    srcs = []
    for fn in ("handler.go", "cache.go"):
        pth = os.path.join(vf.REPO, "internal/server/assets", fn)
        if os.path.exists(pth):
            srcs.append(open(pth).read())
    for src in srcs:
        for m in _DECL.finditer(src):
            expr = m.group(2).replace("_", "")
            if not re.fullmatch(r"[0-9 \t*+()<]+", expr):
                continue
            try:
                v = int(eval(expr, {"__builtins__": {}}, {}))
            except Exception:
                continue
            if 1024 <= v < 2 ** 30:
                found[m.group(1)] = v
    derived = set()
    for src in srcs:
        for name, v in found.items():
            for m in re.finditer(r"\b%s\s*([/*])\s*(\d+)\b" % re.escape(name), src):
                d = int(m.group(2))
                w = v // d if m.group(1) == "/" and d else v * d
                if 1024 <= w < 2 ** 30:
                    derived.add(w)
    lim = sorted(set(found.values()) | derived)
    if not lim:
        raise vf.NoVerdict("no size constant found in internal/server/assets/{handler,cache}.go: the reading of the source no longer works")
    return lim, found


def run():
    thorough = vf.TIER == "thorough"
    sfx = "_wide" if thorough else ""
    chk = vf.Check(PROP)
    # several small JVMs run side by side: keep each one's helper threads few; deep (non-tail) recursion over run lists
    os.environ.setdefault("JAVA_TOOL_OPTIONS", "-XX:ParallelGCThreads=2 -XX:CICompilerCount=2 -Xss16m")
    replay = os.environ.get("VERIF_REPLAY")
    chk.assumptions += [
        "minification and Markdown rendering are an oracle: the real javascript.Minify / MinifyCSS / mdToHTML applied to the whole raw file (their correctness is C19/C33/C34's subject)",
        "requests are parsed by net/http.ReadRequest from the literal request line and served by Router.ServeHTTP into an httptest recorder (thorough and the concurrent stage: a real net/http server on loopback); a panic is observed by a wrapper around AssetsHandler that re-panics",
        "the minify setting is constant within a history; sequential stage: the asset cache is flushed before each case and filled only by the priming GET",
        "concurrent stage: real schedules are sampled (8 clients, several GOMAXPROCS values, the ResponseWriter given to the handler yields the processor at every call); every interleaving of the handler's phases is explored on the model only",
        "path resolution is lexical below the root (the handler cleans the path before touching the file system); symbolic links are followed one level as built by the fixture",
        "Range header values above 2^31 are represented by the literal texts 2^63-1, 2^63, 2^64 and the token Big in the contract",
        "size constants are read from handler.go / cache.go of the tree under test; a limit that is not an integer constant there (or lives in another file) is not represented in the fixture",
    ]
    limits, names = _read_limits()
    chk.cov["size_constants"] = {"limits": limits, "declared": names}
    limtxt = "  Limits = {%s}" % ", ".join(str(v) for v in limits)

    def cfg(name):
        txt = open(os.path.join(vf.VERIF, "spec", SPEC, name)).read()
        txt2 = re.sub(r"^  Limits = .*$", limtxt, txt, flags=re.M)
        if txt2 == txt and limtxt not in txt:
            raise vf.NoVerdict("cfg %s has no Limits line" % name)
        return {name: txt2}

    with vf.scratch(prefix="c39-") as sd:
        # ---- 1. model checking + negative controls + case generation, concurrently
        w = 4 if thorough else 2
        jobs = {
            "mc": dict(module="AssetRange_MC", cfg="AssetRange_MC%s.cfg" % sfx, workers=w, timeout=1500),
            "conc": dict(module="AssetConc", cfg="AssetConc_large.cfg" if thorough else "AssetConc.cfg", workers=w, timeout=1500),
            "neg_NoPanic": dict(module="AssetRange_MC", cfg="AssetRange_MC_asis_NoPanic.cfg", workers=1, timeout=900),
            "neg_Exact": dict(module="AssetRange_MC", cfg="AssetRange_MC_asis_Exact.cfg", workers=1, timeout=900),
            "neg_NoOutside": dict(module="AssetRange_MC", cfg="AssetRange_MC_asis_NoOutside.cfg", workers=1, timeout=900),
            "neg_trunc": dict(module="AssetRange_MC", cfg="AssetRange_MC_trunc_Exact.cfg", workers=1, timeout=900),
            "neg_pool": dict(module="AssetConc", cfg="AssetConc_pool.cfg", workers=1, timeout=900),
            "gen": dict(module="AssetRange_Gen", cfg="AssetRange_Gen%s.cfg" % sfx, workers=1, timeout=1500),
        }
        if thorough:
            jobs["conc3"] = dict(module="AssetConc", cfg="AssetConc_3.cfg", workers=w, timeout=1500)
        for kw in jobs.values():
            kw["files"] = cfg(kw["cfg"])
        res = _tlc_jobs(sd, jobs)
        vf.tlc_ok(res["mc"], "AssetRange MC (design)")
        chk.add_tlc(res["mc"], "MC design variant: NoPanic NoOutside Exact Conforms")
        vf.tlc_ok(res["conc"], "AssetConc MC (design, interleaved requests)")
        chk.add_tlc(res["conc"], "MC concurrent design: ConcConforms over all interleavings of 2 requests")
        if thorough:
            vf.tlc_ok(res["conc3"], "AssetConc MC (3 requests)")
            chk.add_tlc(res["conc3"], "MC concurrent design: 3 requests")
        for job, inv, what in (("neg_NoPanic", "NoPanic", "as-is"), ("neg_Exact", "Exact", "as-is"), ("neg_NoOutside", "NoOutside", "as-is"),
                               ("neg_trunc", "Exact", "reads capped at a size constant"),
                               ("neg_pool", "ConcConforms", "read buffer recycled while the handler holds the slice")):
            rn = res[job]
            if rn.violated != inv:
                raise vf.NoVerdict("negative control: the %s model did not violate %s (violated=%s error=%s)"
                                   % (what, inv, rn.violated, (rn.error or "")[:300]))
            chk.add_tlc(rn, "negative control: %s variant violates %s" % (what, inv), count_states=False)
        rg = res["gen"]
        if rg.violated or rg.error or rg.rc != 0:
            raise vf.NoVerdict("case generation failed: %s %s\n%s" % (rg.violated, rg.error, rg.stdout[-2000:]))
        chk.add_tlc(rg, "case generation (every case of the domain is one initial state)", count_states=False)
        fixture = [r for r in rg.records if isinstance(r, dict) and "fixture" in r]
        cases = [r for r in rg.records if isinstance(r, dict) and "path" in r]
        if len(fixture) != 1 or len(cases) != rg.distinct or not cases:
            raise vf.NoVerdict("generator output incomplete: %d fixture records, %d cases, %d states" % (len(fixture), len(cases), rg.distinct))
        fx = fixture[0]["fixture"]
        if not fx["bigfiles"] or max(f["size"] for f in fx["bigfiles"]) <= max(limits):
            raise vf.NoVerdict("fixture has no asset above the largest size constant")
        rng = random.Random(vf.SEED)
        rng.shuffle(cases)          # execution order must not matter (cache flushed per case); the seed varies it
        if replay:                  # --replay <file>: only the recorded case (it must still be a case of the spec)
            want = json.load(open(replay))["replay"]["in"]
            cases = [c for c in cases if c == want]
            if not cases:
                raise vf.NoVerdict("the replay file's input is not a case of the current domain (tier %s)" % vf.TIER)
        cf = vf.write_ndjson(os.path.join(sd, "cases.ndjson"), fixture + cases)
        # concurrent stage: the cold-cache cases of the small assets, all spellings, in the seed's order
        conc = [] if replay else [c for c in cases if c["prime"] == "" and c["path"]["cls"] != "big"]
        ccf = vf.write_ndjson(os.path.join(sd, "conc.ndjson"), conc)
        gmps = "1,2,4,16,3" if thorough else "1,4"
        nconc = len(conc) * len(gmps.split(","))

        # ---- 2. execute on the real handler (thorough: also behind a real net/http server on loopback)
        # private accelerator cache: the shared one is pruned by concurrent checks of other trees (seen: a generated
        # file vanished between make_overlay and the build)
        vf.CACHE = os.environ.get("VERIF_CACHE_C39", "/var/tmp/verif-cache-c39")
        ov = vf.make_overlay(sd, HARNESS)
        for mode in (("recorder", "wire") if thorough else ("recorder",)):
            io = os.path.join(sd, "io-%s.ndjson" % mode)
            reps = os.path.join(sd, "reps.json")
            withconc = mode == "recorder" and conc
            p = vf.run_harness(sd, ov, "./internal/server/assets/", "TestVerifC39",
                               {"VERIF_IN": cf, "VERIF_OUT": io, "VERIF_REPS": reps, "EGO_DEFAULT_LOGGING": "",
                                "VERIF_WIRE": "1" if mode == "wire" else "0",
                                "VERIF_IN_CONC": ccf if withconc else "", "VERIF_CONC": gmps, "VERIF_CONC_CLIENTS": "8"},
                               timeout=1500, expect_out=io)
            if p.returncode != 0 or not os.path.exists(reps):
                raise vf.NoVerdict("harness failed (rc=%d)\n%s\n%s" % (p.returncode, p.stdout[-3000:], p.stderr[-2000:]))
            recs = vf.read_ndjson(io)
            want_n = len(cases) + (nconc if withconc else 0)
            if len(recs) != want_n or any(a["in"] != b for a, b in zip(recs, cases)):
                raise vf.NoVerdict("harness executed %d of %d cases (or echoed a different input)" % (len(recs), want_n))
            if withconc:
                crecs = recs[len(cases):]
                if any(r.get("stage") != "conc" for r in crecs) or \
                   sorted(json.dumps(r["in"], sort_keys=True) for r in crecs) != sorted(json.dumps(c, sort_keys=True) for c in conc for _ in gmps.split(",")):
                    raise vf.NoVerdict("concurrent stage did not execute exactly the given cases once per GOMAXPROCS value")
                chk.cov["concurrent_pairs"] = len(crecs)
                chk.cov["concurrent_rounds"] = "GOMAXPROCS %s, 8 clients, yielding ResponseWriter" % gmps
            # vacuity guards on the driver (not verdicts): the oracle really transforms, every answer class occurs
            rp = json.load(open(reps))
            for fid, fld in (("j", "min"), ("c", "min"), ("m", "html")):
                if rp[fid][fld] == fx["raw"][fid] or not rp[fid][fld]:
                    raise vf.NoVerdict("oracle does not transform file %s (%s == raw): the fixture no longer separates the representations" % (fid, fld))
            hist = {}
            for r in recs:
                hist[r["out"]["status"]] = hist.get(r["out"]["status"], 0) + 1
            if not replay and (not hist.get(200) or not hist.get(206) or not any(400 <= s < 500 for s in hist)):
                raise vf.NoVerdict("degenerate run: status histogram %s" % hist)
            if not replay and not any(r["out"]["big"] and r["out"]["status"] == 206 for r in recs):
                raise vf.NoVerdict("degenerate run: no ranged answer longer than 256 bytes (big assets not exercised)")
            chk.cov["status_histogram_" + mode] = {str(k): v for k, v in sorted(hist.items())}

            # ---- 3. the contract judges every pair
            tcfg = "AssetRange_Trace%s.cfg" % sfx
            xf = {"reps.json": reps}
            xf.update(cfg(tcfg))
            n, bad = vf.fio_validate(chk, SPEC, "AssetRange_Trace", tcfg, sd, io,
                                     name="contract Allowed over real responses (%s)" % mode, extra_files=xf, timeout=1500)
            if n != len(recs):
                raise vf.NoVerdict("contract saw %d of %d records" % (n, len(recs)))
            if any(b["key"].startswith("not-a-case") for b in bad):
                raise vf.NoVerdict("the log contains inputs outside the spec's domain (WF failed)")
            badidx = {b["idx"] for b in bad}
            for b in sorted(bad, key=lambda b: b["idx"]):
                rec = recs[b["idx"] - 1]
                chk.violation(b["key"], _describe(rec), rec)
            chk.cov["evaluations"] += n
            chk.cov["traces_validated_against_impl"] += n
            if mode == "recorder":
                chk.cov["distinct_nontrivial"] += len({json.dumps(r["in"], sort_keys=True) for r in recs})
            for want in ((200, "none"), (206, "ab"), (206, "from"), (400, "multi")):
                for k, r in enumerate(recs):
                    if (k + 1) not in badidx and r["out"]["status"] == want[0] and r["in"]["range"]["shape"] == want[1] and r["in"]["method"] == "GET":
                        chk.sample({"kind": "accepted pair", "case": _describe(r)}, limit=8)
                        break

        if replay:
            chk.cov["rule"] = "replay of one recorded case"
            return chk.finish()
        # ---- 4. binding self-test: perturbed accepted pairs must all be rejected
        good = [r for k, r in enumerate(recs) if (k + 1) not in badidx]
        def pick(pred):
            c = [r for r in good if pred(r)]
            if not c:
                raise vf.NoVerdict("self-test: no accepted pair of the needed kind (driver too weak)")
            return json.loads(json.dumps(rng.choice(c)))
        muts = []
        r = pick(lambda r: r["out"]["status"] == 206 and r["in"]["method"] == "GET" and len(r["out"]["body"]) >= 2 and r["in"]["range"]["sem"] == "ab")
        m = json.loads(json.dumps(r)); m["out"]["body"][0] ^= 32; muts.append(("206 body byte flipped", m))
        m = json.loads(json.dumps(r)); m["out"]["body"] = m["out"]["body"][:-1]; m["out"]["cl"] = str(len(m["out"]["body"])); muts.append(("206 body one byte short", m))
        m = json.loads(json.dumps(r)); a, rest = m["out"]["cr"].split("-", 1); e, tot = rest.split("/"); m["out"]["cr"] = "%s-%s/%d" % (a, e, int(tot) + 1); muts.append(("Content-Range total off by one", m))
        m = json.loads(json.dumps(r)); m["out"]["panicked"] = True; muts.append(("handler panicked", m))
        r = pick(lambda r: r["out"]["status"] == 200 and r["in"]["method"] == "GET" and len(r["out"]["body"]) >= 2)
        m = json.loads(json.dumps(r)); m["out"]["body"] = [1, 2, 3, 4]; muts.append(("200 body replaced by the outside file", m))
        m = json.loads(json.dumps(r)); m["out"]["status"] = 206; muts.append(("206 without a range", m))
        r = pick(lambda r: r["out"]["status"] == 200 and r["in"]["method"] == "HEAD" and r["out"]["cl"] not in ("", "0"))
        m = json.loads(json.dumps(r)); m["out"]["cl"] = str(int(m["out"]["cl"]) + 1); muts.append(("HEAD Content-Length off by one", m))
        r = pick(lambda r: r["out"]["status"] == 200 and r["in"]["min"] and r["in"]["path"]["ext"] == "js" and r["in"]["method"] == "GET")
        m = json.loads(json.dumps(r)); m["out"]["body"] = fx["raw"]["j"]; muts.append(("minify on but raw JavaScript served", m))
        r = pick(lambda r: r["out"]["status"] >= 400 and r["in"]["path"]["cls"] == "escape")
        m = json.loads(json.dumps(r)); m["out"]["status"] = 200; m["out"]["body"] = [1, 2, 3, 4]; muts.append(("escape path answered with the outside file", m))
        m = json.loads(json.dumps(r)); m["out"]["status"] = 200; m["out"]["body"] = fx["raw"]["a"]; muts.append(("escape path answered 200", m))
        r = pick(lambda r: r["out"]["status"] == 206 and r["in"]["method"] == "GET" and r["out"]["big"] and len(r["out"]["rle"]) >= 2)
        m = json.loads(json.dumps(r)); m["out"]["rle"][-1][1] -= 1; m["out"]["cl"] = str(int(m["out"]["cl"]) - 1); muts.append(("long 206 body one byte short (Content-Length adjusted)", m))
        m = json.loads(json.dumps(r)); m["out"]["rle"][0][1] -= 1; m["out"]["rle"][-1][1] += 1; muts.append(("long 206 body shifted by one byte", m))
        m = json.loads(json.dumps(r)); m["stage"] = "conc"; m["out"]["rle"][0][0] ^= 1; muts.append(("long 206 body with a foreign first run, concurrent stage", m))
        m = json.loads(json.dumps(good[0])); m["in"]["range"] = dict(m["in"]["range"], text="bytes=7-7-7-7"); muts.append(("input outside the domain", m))
        st = vf.write_ndjson(os.path.join(sd, "selftest.ndjson"), [m for _, m in muts])
        n2, bad2 = vf.fio_validate(chk, SPEC, "AssetRange_Trace", tcfg, sd, st, name=None, extra_files=xf, timeout=600)
        got = {b["idx"]: b["key"] for b in bad2}
        missed = [nm for k, (nm, _) in enumerate(muts) if (k + 1) not in got]
        if n2 != len(muts) or missed:
            raise vf.NoVerdict("binding self-test failed: perturbed pairs accepted by the contract: %s" % missed)
        if not got[len(muts) - 1].endswith("/concurrent"):
            raise vf.NoVerdict("binding self-test failed: concurrent-stage pair not keyed as such (%s)" % got[len(muts) - 1])
        if got[len(muts)] != "not-a-case":
            raise vf.NoVerdict("binding self-test failed: out-of-domain input not recognised (%s)" % got[len(muts)])
        chk.cov["binding_selftest"] = "%d perturbed pairs all rejected: %s" % (len(muts), "; ".join("%s -> %s" % (nm, got[k + 1]) for k, (nm, _) in enumerate(muts)))

        chk.cov["cases"] = len(cases)
        chk.cov["rule"] = ("cases = every element of AssetRange!Cases (path spellings x Range table relative to the named file's size and, for "
                           "the assets just above the handler's size constants, to those constants x GET/HEAD x minify x cache history), each "
                           "executed once on the real handler; concurrent pairs = the cold-cache cases issued again by 8 overlapping clients per "
                           "GOMAXPROCS value; every pair judged by AssetRange!Allowed; states/transitions = the design model checked exhaustively "
                           "over the same domain with histories of length <= 2, plus all interleavings of the phases of 2 (thorough: 3) requests")
        chk.cov["exhaustive"] = True
    return chk.finish()

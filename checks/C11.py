"""C11 - runtime packages match the Go functions they wrap (discrete part).

spec/RuntimeFuncs (RFCore = reference semantics in TLA+, RuntimeFuncs = value model, function table, Eval, WF, Post, Key).
Stages:
  1. MC     : the reference semantics satisfies the documented laws (round trips, sort contracts...) exhaustively at small bounds
  2. Gen    : TLC enumerates/samples calls (inputs only) of every mirrored function          (RuntimeFuncs_Gen)
  3. run    : each call is projected to Ego source, run through the real `ego run` (so callNative / callRuntimeFunction
              are in the loop), the printed results are parsed back into the value model -> io.ndjson
  4. judge  : TLC applies the contract Post to every logged call                              (RuntimeFuncs_Trace, binding F)
  5. Go     : the same calls are run with the Go toolchain and judged by the SAME contract: a failure there is a
              defect of the spec -> NoVerdict (never a violation)
  6. self-test: a perturbed logged result must be rejected
The python side only projects (value model -> source text, printed text -> value model); it computes no expected value.
"""
import json, os, re, random, time
import vf

PROP = "C11"
SPEC = "RuntimeFuncs"

# ---------------------------------------------------------------- projection: value model -> source text

def _printable(b):
    return 32 <= b < 127 and b not in (34, 92)


def str_lit(bs):
    """Go/Ego interpreted string literal for a byte string (printable ASCII raw, everything else \\xNN)."""
    return '"' + "".join(chr(b) if _printable(b) else "\\x%02x" % b for b in bs) + '"'


def int_text(v):
    if v.get("d"):
        return bytes(v["d"]).decode()
    return str(v["v"])


def int_lit(v):
    t = int_text(v)
    if t == "-9223372036854775808":
        return "(-9223372036854775807 - 1)"
    return t if not t.startswith("-") else "(" + t + ")"


GO_TYPE = {"s": "string", "i": "int", "i64": "int64", "by": "byte", "r": "int32", "b": "bool", "f": "float64",
           "ls": "[]string", "li": "[]int"}


def lit(v):
    t = v["t"]
    if t == "s":
        return str_lit(v["v"])
    if t == "i":        # ego types an integer literal beyond int32 as int64 (a literal-typing matter, C06): say int(..)
        return int_lit(v) if abs(int(int_text(v))) < 2 ** 31 else "int(%s)" % int_lit(v)
    if t in ("i64", "r", "f"):      # typed: ego's strict mode does not convert untyped constants (legal Go either way)
        return "%s(%s)" % (GO_TYPE[t], int_lit(v))
    if t == "by":
        return "byte(%d)" % v["v"]
    if t == "b":
        return "true" if v["v"] else "false"
    if t == "ls":
        return "[]string{" + ", ".join(str_lit(x) for x in v["v"]) + "}"
    if t == "li":
        return "[]int{" + ", ".join(str(x) for x in v["v"]) + "}"
    raise vf.NoVerdict("cannot project value %r" % (v,))


# result printing: (format verb, expression template) per result type; the type name is printed with %T
def print_stmts(cid, ret, names, lang):
    """statements printing '@@ id ok' then, per result, TAB type TAB payload (lists: count then items).
    The head is part of the first value's Printf, so a call used directly as a Printf argument that fails prints nothing."""
    out = []
    head = "@@ %d ok" % cid
    for ty, nm in zip(ret, names):
        if ty == "s":
            out.append('fmt.Printf("%s\\t%%T\\t%%q", %s, %s)' % (head, nm, nm))
        elif ty in ("i", "i64", "by", "r"):
            out.append('fmt.Printf("%s\\t%%T\\t%%d", %s, %s)' % (head, nm, nm))
        elif ty == "f":
            out.append('fmt.Printf("%s\\t%%T\\t%%v", %s, %s)' % (head, nm, nm))
        elif ty == "b":
            out.append('fmt.Printf("%s\\t%%T\\t%%t", %s, %s)' % (head, nm, nm))
        elif ty == "e":
            out.append('fmt.Printf("%s\\terror\\t%%t", %s != nil)' % (head, nm))
        elif ty == "ls":
            out.append('fmt.Printf("%s\\t%%T\\t%%d", %s, len(%s))' % (head, nm, nm))
            out.append('for _, x%d := range %s { fmt.Printf("\\t%%q", x%d) }' % (cid, nm, cid))
        elif ty == "li":
            out.append('fmt.Printf("%s\\t%%T\\t%%d", %s, len(%s))' % (head, nm, nm))
            out.append('for _, x%d := range %s { fmt.Printf("\\t%%d", x%d) }' % (cid, nm, cid))
        else:
            raise vf.NoVerdict("unknown result type " + ty)
        head = ""
    out.append('fmt.Printf("\\n")')
    return out


GO_CALL = {  # Go spelling of calls that ego spells differently
    "base64.Encode": lambda a: "base64.StdEncoding.EncodeToString([]byte(%s))" % a[0],
    "math.Max": lambda a: "max(%s)" % ", ".join(a),
    "math.Min": lambda a: "min(%s)" % ", ".join(a),
}


def case_body(c, lang):
    """list of statements for one case (lang = 'ego' | 'go')."""
    cid, fn, sh, ret, ctx = c["id"], c["fn"], c["sh"], c["ret"], c["ctx"]
    fn = fn.split("[")[0]          # a [..] suffix only names the argument type
    args = c["args"]
    st = []
    if sh in ("v", "v64"):  # spread the list argument
        et = "s" if args[0]["t"] == "ls" else ("i64" if sh == "v64" else "i")
        args = [{"t": et, "v": x, "d": []} for x in args[0]["v"]]
        sh = "v"
    exprs = []
    for k, a in enumerate(args):
        if ctx["arg"] == "var":
            nm = "a%d_%d" % (cid, k)
            st.append("var %s %s = %s" % (nm, GO_TYPE[a["t"]], lit(a)))
            exprs.append(nm)
        else:
            exprs.append(lit(a))
    rn = ["r%d_%d" % (cid, k) for k in range(len(ret))]

    def call(fname, ex):
        if lang == "go" and fname in GO_CALL:
            return GO_CALL[fname](ex)
        return "%s(%s)" % (fname, ", ".join(ex))

    if sh in ("n", "v"):
        if c["fn"] == "strings.Split1":
            callx = call("strings.Split", exprs)
        elif lang == "go" and fn == "base64.Decode":
            st.append("b%d, %s := base64.StdEncoding.DecodeString(%s)" % (cid, rn[1], exprs[0]))
            st.append("%s := string(b%d)" % (rn[0], cid))
            return st + print_stmts(cid, ret, rn, lang)
        else:
            callx = call(fn, exprs)
        if ctx["res"] == "dir" and len(ret) == 1 and ret[0] not in ("ls", "li"):
            return st + print_stmts(cid, ret, [callx], lang)
        st.append("%s := %s" % (", ".join(rn), callx))
        return st + print_stmts(cid, ret, rn, lang)
    if sh == "ip":       # in-place sort: observe the argument afterwards and (ego) the returned array
        a = "s%d" % cid
        st.append("%s := %s" % (a, exprs[0]))
        if lang == "go":
            st.append("%s(%s)" % (fn, a))
            return st + print_stmts(cid, ret, [a, a], lang)
        st.append("%s := %s(%s)" % (rn[1], fn, a))
        return st + print_stmts(cid, ret, [a, rn[1]], lang)
    if sh == "sl":
        a = "s%d" % cid
        st.append("%s := %s" % (a, exprs[0]))
        st.append("%s(%s, func(i, j int) bool { return %s[i]/100 < %s[j]/100 })" % (fn, a, a, a))
        return st + print_stmts(cid, ret, [a], lang)
    if sh == "se":
        st.append("%s := sort.Search(%s, func(i int) bool { return i >= %s })" % (rn[0], exprs[0], exprs[1]))
        return st + print_stmts(cid, ret, rn, lang)
    if sh == "rt64":
        if lang == "go":
            st.append("e%d := base64.StdEncoding.EncodeToString([]byte(%s))" % (cid, exprs[0]))
            st.append("b%d, %s := base64.StdEncoding.DecodeString(e%d)" % (cid, rn[1], cid))
            st.append("%s := string(b%d)" % (rn[0], cid))
        else:
            st.append("e%d := base64.Encode(%s)" % (cid, exprs[0]))
            st.append("%s := base64.Decode(e%d)" % (", ".join(rn), cid))
        return st + print_stmts(cid, ret, rn, lang)
    if sh == "js":
        st.append("b%d, %s := json.Marshal(%s)" % (cid, rn[1], exprs[0]))
        st.append("%s := string(b%d)" % (rn[0], cid))
        return st + print_stmts(cid, ret, rn, lang)
    if sh == "rtjs":
        st.append("b%d, e%d := json.Marshal(%s)" % (cid, cid, exprs[0]))
        st.append("var %s %s" % (rn[0], GO_TYPE[c["args"][0]["t"]]))
        st.append("%s := json.Unmarshal(b%d, &%s)" % (rn[1], cid, rn[0]))
        st.append("if e%d != nil { %s = e%d }" % (cid, rn[1], cid))
        return st + print_stmts(cid, ret, rn, lang)
    if sh == "rtq":
        st.append("e%d := strconv.Quote(%s)" % (cid, exprs[0]))
        st.append("%s := strconv.Unquote(e%d)" % (", ".join(rn), cid))
        return st + print_stmts(cid, ret, rn, lang)
    if sh == "rtrom":
        st.append("e%d, x%d := strconv.Itor(%s)" % (cid, cid, exprs[0]))
        st.append("%s := strconv.Rtoi(e%d)" % (", ".join(rn), cid))
        st.append("if x%d != nil { %s = x%d }" % (cid, rn[1], cid))
        return st + print_stmts(cid, ret, rn, lang)
    raise vf.NoVerdict("unknown call shape " + sh)


EGO_IMPORTS = ["fmt", "strings", "strconv", "sort", "math", "filepath", "base64", "json"]


def ego_program(cases):
    L = ["package main", "@extensions true"] + ['import "%s"' % p for p in EGO_IMPORTS] + ["func main() {"]
    for c in cases:
        L.append("  try {")
        L += ["    " + s for s in case_body(c, "ego")]
        L.append("  } catch {")
        L.append('    fmt.Printf("@@ %d fail\\n")' % c["id"])
        L.append("  }")
    L.append("}")
    return "\n".join(L) + "\n"


def go_program(cases):
    L = ["package main", "import (", '"fmt"', '"strings"', '"strconv"', '"sort"', '"math"', '"path/filepath"',
         '"encoding/base64"', '"encoding/json"', ")",
         "var _ = strings.Index", "var _ = strconv.Itoa", "var _ = sort.Ints", "var _ = math.Abs", "var _ = filepath.Base",
         "var _ = base64.StdEncoding", "var _ = json.Marshal"]
    for c in cases:
        L.append("func c%d() {" % c["id"])
        L.append('  defer func() { if r := recover(); r != nil { fmt.Printf("@@ %d fail\\n") } }()' % c["id"])
        L += ["  " + s for s in case_body(c, "go")]
        L.append("}")
    L.append("func main() {")
    L += ["  c%d()" % c["id"] for c in cases]
    L.append("}")
    return "\n".join(L) + "\n"


# ---------------------------------------------------------------- projection: printed text -> value model

_SIMPLE = {"a": 7, "b": 8, "f": 12, "n": 10, "r": 13, "t": 9, "v": 11, "\\": 92, '"': 34, "'": 39}


def unquote(txt):
    """bytes of a Go-quoted string (the output of %q); None if it is not one."""
    if len(txt) < 2 or txt[0] != '"' or txt[-1] != '"':
        return None
    s, out, i = txt[1:-1], bytearray(), 0
    while i < len(s):
        ch = s[i]
        if ch != "\\":
            out += ch.encode("utf8", "surrogateescape")
            i += 1
            continue
        if i + 1 >= len(s):
            return None
        e = s[i + 1]
        if e in _SIMPLE:
            out.append(_SIMPLE[e]); i += 2
        elif e == "x" and re.fullmatch(r"[0-9a-fA-F]{2}", s[i + 2:i + 4] or ""):
            out.append(int(s[i + 2:i + 4], 16)); i += 4
        elif e == "u" and re.fullmatch(r"[0-9a-fA-F]{4}", s[i + 2:i + 6] or ""):
            out += chr(int(s[i + 2:i + 6], 16)).encode("utf8", "surrogatepass"); i += 6
        elif e == "U" and re.fullmatch(r"[0-9a-fA-F]{8}", s[i + 2:i + 10] or ""):
            out += chr(int(s[i + 2:i + 10], 16)).encode("utf8", "surrogatepass"); i += 10
        elif re.fullmatch(r"[0-7]{3}", s[i + 1:i + 4] or ""):
            out.append(int(s[i + 1:i + 4], 8) & 255); i += 4
        else:
            return None
    return list(out)


TYPE_TAG = {"int": "i", "int64": "i64", "string": "s", "bool": "b", "float64": "f", "byte": "by", "uint8": "by",
            "int32": "r", "rune": "r", "[]string": "ls", "[]int": "li", "error": "e"}


def int_val(tag, txt):
    if not re.fullmatch(r"-?\d+", txt):
        return None
    n = int(txt)
    if abs(n) <= 10 ** 9:
        return {"t": tag, "v": n, "d": []}
    return {"t": tag, "v": 0, "d": list(str(n).encode())}


def raw(tyname, txt):
    return {"t": "?" + tyname, "v": list(txt.encode("utf8", "replace"))[:200]}


def parse_line(fields, ret):
    """fields after '@@ id ok' -> list of values (unparsable payloads become t='?..' values, never an exception)."""
    vals, i = [], 0
    for want in ret:
        if i + 1 >= len(fields):
            vals.append(raw("missing", ""))
            continue
        tyname, payload = fields[i], fields[i + 1]
        i += 2
        tag = TYPE_TAG.get(tyname, "?" + tyname)
        v = None
        if tag == "s":
            b = unquote(payload)
            v = {"t": "s", "v": b} if b is not None else None
        elif tag in ("i", "i64", "by", "r"):
            v = int_val(tag, payload)
        elif tag == "f":
            v = int_val("f", payload)
        elif tag in ("b", "e"):
            v = {"t": tag, "v": payload == "true"} if payload in ("true", "false") else None
        elif tag in ("ls", "li"):
            if re.fullmatch(r"\d+", payload) and i + int(payload) <= len(fields):
                n = int(payload)
                items = fields[i:i + n]
                i += n
                if tag == "ls":
                    bs = [unquote(x) for x in items]
                    v = {"t": "ls", "v": bs} if all(b is not None for b in bs) else None
                else:
                    v = {"t": "li", "v": [int(x) for x in items]} if all(re.fullmatch(r"-?\d+", x) and abs(int(x)) < 2 ** 31 for x in items) else None
        vals.append(v if v is not None else raw(tyname, payload))
    if i != len(fields):
        vals.append(raw("extra", "\t".join(fields[i:])))
    return vals


def parse_output(text, by_id):
    """{id: out-record} for every '@@' line of a program's stdout."""
    res = {}
    segs = []
    for line in text.split("\n"):
        if "@@ " in line:                      # a block that fails after printing part of its line is followed by its 'fail'
            segs += [x for x in re.split(r"(?=@@ \d+ (?:ok|fail))", line) if x.startswith("@@ ")]
    for line in reversed(segs):                # the last word on a case wins
        f = line[3:].split("\t")
        head = f[0].split(" ")
        if len(head) != 2 or not head[0].isdigit():
            continue
        cid = int(head[0])
        if cid not in by_id or cid in res:
            continue
        if head[1] == "fail":
            res[cid] = {"st": "fail", "vals": []}
        elif head[1] == "ok":
            res[cid] = {"st": "ok", "vals": parse_line(f[1:], by_id[cid]["ret"])}
    return res


# ---------------------------------------------------------------- running

def run_ego(sd, ego, cases, chunk, tag):
    """run every case through the real ego binary; returns {id: out}.  Cases of one program share typing mode and
    optimizer level (ctx); a case that produced no line is re-run alone (abort = it still produces none)."""
    env = vf.ego_env(sd)
    by_id = {c["id"]: c for c in cases}
    groups = {}
    for c in cases:
        groups.setdefault((c["ctx"]["mode"], c["ctx"]["opt"]), []).append(c)
    pdir = os.path.join(sd, "ego-" + tag)
    os.makedirs(pdir, exist_ok=True)

    counter = [0]

    def launch(batches):
        jobs = []
        for n, (mode, opt, cs) in enumerate(batches):
            counter[0] += 1
            fn = os.path.join(pdir, "p%s_%05d.ego" % (tag, counter[0]))
            open(fn, "w").write(ego_program(cs))
            jobs.append(([ego, "run", "--types", mode, "-o", str(opt), fn], None, pdir, env))
        return vf.run_many(jobs, timeout=600)

    pending = []
    for (mode, opt), cs in sorted(groups.items()):
        for k in range(0, len(cs), chunk):
            pending.append((mode, opt, cs[k:k + chunk], 0))
    out, info, nprog = {}, {}, 0
    while pending:
        res = launch([(m, o, cs) for m, o, cs, _ in pending])
        nprog += len(pending)
        nxt = []
        for (mode, opt, cs, tries), (rc, so, se) in zip(pending, res):
            got = parse_output(so, by_id)
            out.update(got)
            missing = [c for c in cs if c["id"] not in got]
            if not missing:
                continue
            if rc is None and tries < 2:                       # timed out (machine load): same cases again
                nxt.append((mode, opt, missing, tries + 1))
            elif rc is None:
                raise vf.NoVerdict("ego program timed out three times: %s" % describe(missing[0], {"st": "?", "vals": []}))
            elif len(cs) == 1:                                 # alone and still silent: the process died / did not compile
                c = cs[0]
                out[c["id"]] = {"st": "abort", "vals": []}
                info[c["id"]] = {"rc": rc, "stdout": so[-600:], "stderr": se[-1200:]}
            elif got:                                          # died while running: the first silent case is the suspect
                nxt.append((mode, opt, missing[:1], 0))
                if len(missing) > 1:
                    nxt.append((mode, opt, missing[1:], 0))
            else:                                              # nothing at all (does not compile): bisect
                h = len(missing) // 2
                nxt.append((mode, opt, missing[:h], 0))
                nxt.append((mode, opt, missing[h:], 0))
        pending = nxt
    return out, info, nprog


def run_go(sd, cases, per_file=1200):
    """the same calls with the Go toolchain (only cases marked legal Go); several small programs, 6 at a time"""
    cs = [c for c in cases if c["go"]]
    by_id = {c["id"]: c for c in cs}
    jobs = []
    for k in range(0, len(cs), per_file):
        d = os.path.join(sd, "go%d" % (k // per_file))
        os.makedirs(d, exist_ok=True)
        open(os.path.join(d, "main.go"), "w").write(go_program(cs[k:k + per_file]))
        open(os.path.join(d, "go.mod"), "w").write("module c11x\n\ngo 1.21\n")
        jobs.append(([vf.GO, "run", "."], None, d, vf.goenv({"GOFLAGS": "-mod=mod", "GOWORK": "off"})))
    out = {}
    todo = jobs
    for attempt in (1, 2):
        again = []
        for (rc, so, se), j in zip(vf.run_many(todo, nproc=6, timeout=1500), todo):
            if rc is None and attempt == 1:          # timed out (machine load): once more
                again.append(j)
                continue
            if rc != 0:
                raise vf.NoVerdict("Go cross-check program failed (rc=%s) in %s\n%s" % (rc, j[2], (se or "")[-3000:]))
            out.update(parse_output(so, by_id))
        todo = again
        if not todo:
            break
    miss = [c["id"] for c in cs if c["id"] not in out]
    if miss:
        raise vf.NoVerdict("Go cross-check produced no output for cases %s" % miss[:10])
    return cs, out


def io_records(cases, out, src):
    return [{"id": c["id"], "src": src, "fn": c["fn"], "args": c["args"], "ctx": c["ctx"], "out": out[c["id"]]}
            for c in cases if c["id"] in out]


def judge(chk, sd, recs, name, cfg="RuntimeFuncs_Trace.cfg"):
    """one TLC run of the contract over the records; returns {src: [bad entries]}"""
    p = os.path.join(sd, "io-%s.ndjson" % re.sub(r"\W+", "_", name))
    vf.write_ndjson(p, recs)
    n, bad = vf.fio_validate(chk, SPEC, "RuntimeFuncs_Trace", cfg, sd, p, name=name, timeout=1500)
    if n != len(recs):
        raise vf.NoVerdict("contract run saw %d records, %d were logged" % (n, len(recs)))
    by = {}
    for b in bad:
        by.setdefault(b["src"], []).append(b)
    return by


def perturb(recs, rng, k=20):
    """binding self-test input: k accepted-looking results with their first value changed"""
    pert = []
    for r0 in rng.sample(recs, k):
        r1 = json.loads(json.dumps(r0))
        r1["src"] = "pert"
        v = r1["out"]["vals"][0]
        if v["t"] == "s":
            v["v"] = v["v"] + [120]
        elif v["t"] in ("i", "i64", "f", "by", "r"):
            if v["d"]:
                v["d"] = v["d"] + [48]
            else:
                v["v"] = v["v"] + 1
        elif v["t"] in ("b", "e"):
            v["v"] = not v["v"]
        elif v["t"] == "ls":
            v["v"] = v["v"] + [[120]]
        elif v["t"] == "li":
            v["v"] = v["v"] + [7]
        pert.append(r1)
    return pert


def describe(c, out):
    def show(v):
        if v["t"] == "s":
            return str_lit(v["v"])
        if v["t"] in ("i", "i64", "by", "r", "f"):
            return int_text(v)
        if v["t"] == "ls":
            return "[" + ", ".join(str_lit(x) for x in v["v"]) + "]"
        if v["t"].startswith("?"):
            return "<%s %s>" % (v["t"][1:], bytes(v["v"]).decode("utf8", "replace"))
        return json.dumps(v["v"])
    a = ", ".join(show(x) for x in c["args"])
    o = out["st"] + ("(" + ", ".join(show(x) for x in out["vals"]) + ")" if out["vals"] else "")
    return "%s(%s) [%s args, %s result, --types %s -o %d] -> ego: %s" % (
        c["fn"], a, c["ctx"]["arg"], c["ctx"]["res"], c["ctx"]["mode"], c["ctx"]["opt"], o)


def run_replay(chk, sd, path):
    """re-run one recorded case (replays/C11-*.json) through the real binary and the contract"""
    c = json.load(open(path))["replay"]["case"]
    ego = vf.build_ego(sd, vf.make_overlay(sd, []))
    out, info, nprog = run_ego(sd, ego, [c], 1, "replay")
    recs = io_records([c], out, "ego")
    if c["go"]:
        gcs, gout = run_go(sd, [c])
        recs += io_records(gcs, gout, "go")
    bad = judge(chk, sd, recs, "contract over the replayed call")
    if bad.get("go"):
        raise vf.NoVerdict("the specification disagrees with the Go toolchain on the replayed call")
    chk.cov["evaluations"] = 1
    chk.sample({"kind": "replayed call", "rec": recs[0]})
    for b in bad.get("ego", []):
        chk.violation(b["key"], describe(c, out[c["id"]]), {"case": c, "ego_out": out[c["id"]], "ego_source": ego_program([c]),
                                                           "abort_info": info.get(c["id"])})
    return chk.finish()


def run():
    thorough = vf.TIER == "thorough"
    chk = vf.Check(PROP)
    chk.assumptions += [
        "discrete part only: strings over a 5-10 character alphabet (ASCII + U+00E9 + U+4E16, plus the bytes 0x00/0x7f/0xff for "
        "Quote/base64), texts of at most 4 characters, lists of at most 3-5 elements, integers from a boundary pool (int64 "
        "boundaries as decimal text); floating point, cmplx, time formatting, Unicode case mapping/IsSpace tables, NaN/Inf are NOT decided",
        "when Go reports an error the other results are not compared (Go leaves them unspecified)",
        "a Go panic corresponds to an ego runtime error (catchable) or a dead ego process",
        "the reference semantics in RFCore.tla is cross-checked against the Go toolchain on every generated call that is legal Go; "
        "ego-only functions (strconv.Itor/Rtoi, math.Sum, strings.Split with one argument, sort.Sort/Stable on arrays) rest on the spec alone",
        "cases are sampled by TLC (-seed = VERIF_SEED) from the parameter domains when the domains exceed the per-tier sample size"]
    replay = os.environ.get("VERIF_REPLAY")
    t0 = time.time()

    def stage(msg):
        vf.log("C11 %-34s t=%.0fs" % (msg, time.time() - t0))
    with vf.scratch() as sd:
        if replay:
            return run_replay(chk, sd, replay)
        only = os.environ.get("VERIF_C11_FNS")      # development aid: restrict to some functions (comma separated), no MC
        # 1. the reference semantics satisfies the documented laws (model level, exhaustive at the bound)
        if not only:
            r = vf.tlc_ok(vf.tlc(SPEC, "RuntimeFuncs_MC", "RuntimeFuncs_MC.cfg" if thorough else "RuntimeFuncs_MCq.cfg", sd,
                                 timeout=1200), "RuntimeFuncs laws")
            chk.add_tlc(r, "MC laws (round trips, sort contracts, algebraic identities)")
            stage("laws checked: %d instances" % r.distinct)
        # 2. cases
        gcfg = "RuntimeFuncs_GenT.cfg" if thorough else "RuntimeFuncs_Gen.cfg"
        files = None
        if only:
            txt = open(os.path.join(vf.VERIF, "spec", SPEC, gcfg)).read()
            files = {"RuntimeFuncs_GenX.cfg": txt.replace("Fns = {}", "Fns = {%s}" % ", ".join('"%s"' % f for f in only.split(",")))}
            gcfg = "RuntimeFuncs_GenX.cfg"
        g = vf.tlc(SPEC, "RuntimeFuncs_Gen", gcfg, sd, workers=1, seed=vf.SEED, timeout=1200, keep_stdout=False, files=files)
        vf.tlc_ok(g, "case generation")
        chk.add_tlc(g, "case generation")
        cases = g.records
        for n, c in enumerate(cases):
            c["id"] = n + 1
        if len(cases) < (1 if only else 1000):
            raise vf.NoVerdict("generator produced only %d cases" % len(cases))
        fns = sorted({c["fn"] for c in cases})
        stage("generated %d calls of %d functions" % (len(cases), len(fns)))
        # 3. run on the real ego binary
        ov = vf.make_overlay(sd, [])
        ego = vf.build_ego(sd, ov)
        # 4. (concurrently) the same calls with the Go toolchain (cross-check of the spec, never a violation)
        from concurrent.futures import ThreadPoolExecutor
        with ThreadPoolExecutor(max_workers=1) as tp:
            gofut = tp.submit(run_go, sd, cases)
            out, info, nprog = run_ego(sd, ego, cases, 250 if thorough else 120, "main")
            gcs, gout = gofut.result()
        recs = io_records(cases, out, "ego")
        stage("ran %d ego programs, %d go-legal calls" % (nprog, len(gcs)))
        grecs = io_records(gcs, gout, "go")
        # 5. binding self-test input: results of the Go toolchain, perturbed (they must be rejected)
        rng = random.Random(vf.SEED)
        cand = [r for r in grecs if r["out"]["st"] == "ok" and r["out"]["vals"] and r["fn"] != "sort.Slice"
                and not any(v["t"] == "e" and v["v"] for v in r["out"]["vals"])]    # (results beside an error are not compared)
        if len(cand) < 40:          # (only when restricted to ego-only functions) fall back to ego's own results
            cand += [r for r in recs if r["out"]["st"] == "ok" and r["out"]["vals"] and r["fn"] != "sort.Slice"
                     and not any(v["t"] == "e" and v["v"] for v in r["out"]["vals"])]
        if len(cand) < 20:
            raise vf.NoVerdict("self-test: too few calls")
        pert = perturb(cand, rng, 20)
        # 6. judge: one TLC run of the contract over ego calls, Go calls and perturbed calls
        bad = judge(chk, sd, recs + grecs + pert, "contract over logged calls (ego, go cross-check, self-test)")
        stage("contract evaluated")
        byid = {c["id"]: c for c in cases}
        if bad.get("go"):
            ex = [describe(byid[b["id"]], gout[b["id"]]).replace("ego:", "go:") + " key=" + b["key"] for b in bad["go"][:8]]
            raise vf.NoVerdict("the specification disagrees with the Go toolchain on %d calls (fix the spec):\n  %s"
                               % (len(bad["go"]), "\n  ".join(ex)))
        if len(bad.get("pert", [])) != len(pert):
            raise vf.NoVerdict("binding self-test failed: %d of %d perturbed results were accepted"
                               % (len(pert) - len(bad.get("pert", [])), len(pert)))
        chk.cov["binding_selftest"] = "20 results perturbed in their first value: all rejected by the contract"
        for b in bad.get("ego", []):
            c = byid[b["id"]]
            chk.violation(b["key"], describe(c, out[c["id"]]) + "; the Go function gives " +
                          (describe(c, gout[c["id"]]).split("-> ego: ")[1] if c["id"] in gout else "a different result (see Eval in the spec)"),
                          {"case": c, "ego_out": out[c["id"]], "ego_source": ego_program([c]), "abort_info": info.get(c["id"]),
                           "go_out": gout.get(c["id"])})
        # evidence
        chk.cov["traces_validated_against_impl"] = nprog
        chk.cov["evaluations"] = len(recs)
        chk.cov["distinct_nontrivial"] = len({(r["fn"], json.dumps(r["args"])) for r in recs})
        chk.cov["functions"] = fns
        chk.cov["go_crosschecked_calls"] = len(gcs)
        chk.cov["aborted_calls"] = len(info)
        chk.cov["rule"] = ("evaluations = calls of mirrored runtime functions executed by the real ego binary and judged by the TLA+ "
                           "contract; distinct_nontrivial = distinct (function, argument tuple); traces = ego programs run; every "
                           "go-legal call also executed by the Go toolchain and judged by the same contract (spec cross-check)")
        chk.cov["exhaustive"] = False
        for r0 in recs[:3]:
            chk.sample({"kind": "logged call", "rec": r0})
    return chk.finish()

"""C05 - `ego fmt` keeps programs and comments intact.

spec/EgoFmt: EgoFmt (reference syntax + meaning of a fragment of Ego), EgoFmt_Gen (the table construct x position with
layouts and comment placements; TLC evaluates every program), EgoFmt_Trace (the contract of `ego fmt`, judged by TLC).

Stages: 1 TLC enumerates the table, checks its theorems, prints every program with the output it must produce;
2 negative control (the as-found header rule of the formatter's parser must violate HeaderBraceSound);
3 the programs that are legal Go are run with the Go toolchain and must print what the spec computed (spec check, exit 2);
4 every variant is written out as text (projection), run on the real `ego`, formatted by the real `ego fmt`, the result
  formatted again and run again; 5 (thorough, and a sample in quick) the .ego files of the repository the same way;
6 EgoFmt_Trace judges every logged unit; 7 binding self-test (corrupted records must be rejected)."""
import json, os, random, re, shutil, threading
import vf

PROP = "C05"
PACK = 40            # generated units per source file
JENV = {"JAVA_TOOL_OPTIONS": "-Xss128m"}   # the unparser and evaluator are recursive operators over ~150 tokens
NPROC = 12
ALONE_MAX = 150     # programs observed one per file after three rounds of packing (more only when nearly every file fails)
TMO = 420            # one ego process (the machine is shared and often saturated)

# ---------------------------------------------------------------- projection: tokens -> text
SYM_VAL = {"SL2": "//", "BC": "/*", "CB": "*/", "DQ": '"', "BS": "\\", "TAB": "\t"}
SYM_DQ = {"SL2": "//", "BC": "/*", "CB": "*/", "DQ": '\\"', "BS": "\\\\", "TAB": "\\t"}
TAKEN = {"std": "SOWF", "wide": "SOWFLKTA", "one": "", "spacey": "SOWF"}
INDENT = {"std": "\t", "wide": "  ", "one": "\t", "spacey": "    "}
ORDER = {"bc": 0, "lc": 1, "ol": 2, "ob": 3, "on": 4}


def tok_text(t):
    if t["q"] == "dq":
        return '"' + "".join(SYM_DQ.get(y, y) for y in t["y"]) + '"'
    if t["q"] == "raw":
        return "`" + "".join(SYM_VAL.get(y, y) for y in t["y"]) + "`"
    return t["s"]


def comment_text(kind, cid):
    if kind == "bc":
        return "/* %s */" % cid
    if kind in ("lc", "ol"):
        return "// %s" % cid
    if kind == "ob":
        return "/*\n * %s first line.\n * second line:\n */" % cid
    return "/*\n   %s first line,\n   second line.\n*/" % cid


def norm_comment(text):
    return "\n".join(l.strip() for l in text.split("\n"))


def render(toks, lay, cm, uid):
    """tokens + layout + comment placements -> (text, [comment texts]).  Nothing is decided here: which breaks a layout
    takes, where a comment may go and what kind it is all come from the spec (token field b, variant field cm)."""
    forced = {}
    for m in cm:
        for i in m["at"]:
            forced.setdefault(i, []).append(m["k"])
    taken, unit = TAKEN[lay], INDENT[lay]
    lines, cur, stack, comments = [], "", [], []
    prev = None          # previous thing on the line: token dict, or "c" after a comment
    state = {"cur": ""}

    def depth():
        return sum(1 for x in stack if x)

    def newline():
        lines.append(state["cur"].rstrip())
        state["cur"] = ""

    def put(text, glue):
        if state["cur"].strip() == "":
            state["cur"] = unit * depth() + text
        else:
            state["cur"] += ("" if glue else " ") + text

    def emit_comments(i):
        brk = False
        for k in sorted(forced.get(i, []), key=lambda k: ORDER[k]):
            text = comment_text(k, "%s.%s%d" % (uid, k, i))
            comments.append(norm_comment(text))
            if k in ("bc", "lc"):
                put(text, False)
                brk = brk or k == "lc"
            else:
                if state["cur"].strip():
                    newline()
                for l in text.split("\n"):
                    state["cur"] = unit * depth() + l
                    newline()
                brk = True
        return brk

    if emit_comments(0):
        if state["cur"].strip():
            newline()
    prev = None
    n = len(toks)
    for i in range(1, n + 1):
        t = toks[i - 1]
        has_break_comment = any(k != "bc" for k in forced.get(i, []))
        brk = (t["b"] != "" and t["b"] in taken) or has_break_comment
        render_it = True
        text = tok_text(t)
        if t["b"] == "T" and not brk:
            render_it = False
        if t["b"] in ("S", "F") and t["s"] == ";" and brk:
            render_it = False
        if t["q"] == "" and t["s"] in ("}", ")", "]") and stack:
            stack.pop()
        if render_it:
            glue = lay != "spacey" and prev is not None and prev != "c" and (prev["g"] in ("r", "b") or t["g"] in ("l", "b"))
            if t["b"] in ("S", "F") and t["s"] == ";":
                glue = True
            put(text, glue)
            prev = t
        if t["q"] == "" and t["s"] in ("{", "(", "["):
            stack.append(t["b"] in ("O", "L", "W") and brk)
        if i in forced:
            if emit_comments(i):
                brk = True
            prev = "c"
        if brk:
            if state["cur"].strip():
                newline()
            prev = None
    if state["cur"].strip():
        newline()
    return "\n".join(lines) + "\n", comments


def val_text(v):
    if v["t"] == "i":
        return str(v["i"])
    if v["t"] == "b":
        return "true" if v["i"] else "false"
    return "".join(SYM_VAL.get(y, y) for y in v["s"])


def exp_lines(case):
    return [" ".join(val_text(v) for v in line) for line in case["out"]]


def scan_comments(src):
    """the comments of a source text (a lexer for strings, runes, // and /* */ only)"""
    out, i, n = [], 0, len(src)
    while i < n:
        c = src[i]
        if c == '"' or c == "'":
            j = i + 1
            while j < n and src[j] != c and src[j] != "\n":
                j += 2 if src[j] == "\\" else 1
            i = j + 1
        elif c == "`":
            j = src.find("`", i + 1)
            i = n if j < 0 else j + 1
        elif src.startswith("//", i):
            j = src.find("\n", i)
            j = n if j < 0 else j
            out.append(norm_comment(src[i:j]))
            i = j
        elif src.startswith("/*", i):
            j = src.find("*/", i + 2)
            j = n if j < 0 else j + 2
            out.append(norm_comment(src[i:j]))
            i = j
        else:
            i += 1
    return out


# ---------------------------------------------------------------- files of generated units
class Unit:
    def __init__(self, case, vi):
        self.case, self.v = case, case["vars"][vi]
        self.uid = "%s.v%d" % (case["id"], vi)
        self.text, self.comments = render(case["toks"], self.v["lay"], self.v["cm"], self.uid)
        self.inv = render(case["inv"], "std", [], self.uid)[0]
        self.exp = exp_lines(case)

    def key(self):
        return {"pc": self.case["pc"], "cc": self.case["cc"], "lay": self.v["lay"], "mode": self.v["mode"], "shape": self.v["shape"]}


def file_text(units, shape, prelude):
    """the text of a source file holding the units, and for each unit the lines (1-based, inclusive) of its function"""
    spans = {}

    def add(s, u, text):
        first = s.count("\n") + 1
        s += text
        spans[u.uid] = (first, s.count("\n"))
        return s
    if shape == "prog":
        s = "package main\n\nimport \"fmt\"\n\n" + prelude + "\n"
        for u in units:
            s = add(s, u, u.text) + "\n"
        s += "func main() {\n"
        for u in units:
            s += "\tfmt.Println(\"== %s\")\n\t%s" % (u.uid, u.inv)
        s += "\tfmt.Println(\"== end\")\n}\n"
        return s, spans
    s = "@test \"prelude\"\n" + prelude + "{\n\tfmt.Println(\"p\")\n}\n\n"
    for u in units:
        s = add(s, u, "@test \"%s\"\n%s{\n\t%s}\n" % (u.uid, u.text, u.inv)) + "\n"
    return s, spans


_LINE = [re.compile(r"\bat line \d+(:\d+)?,?\s*"), re.compile(r"\(line \d+(:\d+)?\)"), re.compile(r"\bline \d+(:\d+)?\b"),
         re.compile(r"\b\d+(\.\d+)?(ns|µs|us|ms|s)\b")]


def norm_msg(s):
    for r in _LINE:
        s = r.sub("", s)
    return re.sub(r"\s+", " ", s).strip()


def observe_prog(rc, so, se, uids):
    """split what a packed program printed into the part of each unit"""
    if rc is None:
        raise vf.NoVerdict("an ego process did not finish within %d s" % TMO)
    chunks, cur = {}, None
    for line in so.split("\n"):
        m = re.match(r"^== (\S+)$", line)
        if m:
            cur = m.group(1)
            chunks[cur] = []
        elif cur is not None:
            chunks[cur].append(line)
    for k in chunks:
        while chunks[k] and chunks[k][-1] == "":
            chunks[k].pop()
    msg = norm_msg((se + " " + "\n".join(l for l in so.split("\n") if l.startswith("Error"))).strip())
    obs = {}
    ran = [u for u in uids if u in chunks]
    for n, u in enumerate(uids):
        if u not in chunks:
            st = "compile-error" if not chunks else "not-run"
            obs[u] = {"out": [], "status": st if rc != 0 else "no-output", "msg": msg}
        elif rc != 0 and u == ran[-1] and "end" not in chunks:
            obs[u] = {"out": chunks[u], "status": "error: " + msg, "msg": msg}
        else:
            obs[u] = {"out": chunks[u], "status": "ok", "msg": ""}
    return obs


def observe_frag(rc, so, se, uids):
    """the same for `ego test` output"""
    if rc is None:
        raise vf.NoVerdict("an ego process did not finish within %d s" % TMO)
    chunks, status, cur = {}, {}, None
    for line in so.split("\n"):
        m = re.match(r"^TEST: (\S+)\s+\((OUTPUT|PASS|FAIL[^)]*)\)", line)
        if m:
            name, what = m.group(1), m.group(2)
            if what == "OUTPUT":
                cur = name
                chunks.setdefault(name, [])
            else:
                status[name] = "ok" if what == "PASS" else "error: " + norm_msg(line.split(")", 1)[1] if ")" in line else what)
                chunks.setdefault(name, [])
                cur = None
        elif cur is not None:
            chunks[cur].append(line)
    msg = norm_msg(se + " " + "\n".join(l for l in so.split("\n") if l.startswith("Error")))
    obs = {}
    for u in uids:
        if u in status:
            out = chunks.get(u, [])
            while out and out[-1] == "":
                out.pop()
            obs[u] = {"out": out, "status": status[u], "msg": msg}
        else:
            obs[u] = {"out": chunks.get(u, []), "status": "compile-error" if not status else "not-run", "msg": msg}
    return obs


class SrcFile:
    def __init__(self, name, units, shape, prelude):
        self.name, self.units, self.shape = name, units, shape
        self.text, self.spans = file_text(units, shape, prelude)
        self.fmt_ok = self.idem = None
        self.fmt_msg = ""
        self.ftext = ""
        self.oobs = self.fobs = None


HARNESS = [("egofmt/fmt_test.go", "internal/commands/zz_verif_fmt_test.go")]
_FMT = {}


def fmt_many(sd, items):
    """items: [(name, path)] -> {name: {ok, msg, text, ok2, msg2, text2}}: every file formatted, and the result formatted
    again, by the function `ego fmt` calls for each file, all in one process (harness/egofmt)."""
    if "bin" not in _FMT:
        if "ov" not in _FMT:
            _FMT["ov"] = vf.make_overlay(sd, HARNESS)
        _FMT["bin"] = vf.go_test_compile(_FMT["ov"], "./internal/commands/", os.path.join(sd, "fmt.test"), timeout=1800)
        _FMT["n"] = 0
    _FMT["n"] += 1
    fin = os.path.join(sd, "fmt_in_%d.ndjson" % _FMT["n"])
    fout = os.path.join(sd, "fmt_out_%d.ndjson" % _FMT["n"])
    vf.write_ndjson(fin, [{"name": n, "path": p} for n, p in items])
    e = dict(os.environ)
    e.update(VERIF_IN=fin, VERIF_OUT=fout)
    p = vf.run([_FMT["bin"], "-test.run", "^TestVerifFmt$", "-test.timeout", "1500s"], cwd=sd, env=e, timeout=1700)
    if not os.path.exists(fout):
        raise vf.NoVerdict("the formatting harness produced no result (rc=%d)\n%s\n%s" % (p.returncode, p.stdout[-2000:], p.stderr[-2000:]))
    res = {r["name"]: r for r in vf.read_ndjson(fout)}
    if set(res) != {n for n, _ in items}:
        raise vf.NoVerdict("the formatting harness skipped files")
    return res


def process_files(files, sd, ego, env, tag):
    """original -> run; original -> ego fmt -> run, ego fmt again.  Fills the SrcFile fields."""
    d = os.path.join(sd, tag)
    os.makedirs(d, exist_ok=True)
    for f in files:
        f.path = os.path.join(d, f.name + ".ego")
        f.fpath = os.path.join(d, f.name + "_f.ego")
        open(f.path, "w").write(f.text)
    fm = fmt_many(sd, [(f.name, f.path) for f in files])

    def runcmd(f, p):
        return [ego, "run", p] if f.shape == "prog" else [ego, "test", p]
    jobs, idx = [], []
    for f in files:
        r = fm[f.name]
        f.fmt_ok = bool(r["ok"]) and r["text"].strip() != ""
        f.fmt_raw_msg = r["msg"]
        f.fmt_msg = norm_msg(r["msg"])
        f.ftext = r["text"] if f.fmt_ok else ""
        f.ftext2 = r["text2"] if f.fmt_ok else ""
        f.idem = f.fmt_ok and bool(r["ok2"]) and r["text2"] == r["text"]
        jobs.append((runcmd(f, f.path), None, d, env))
        idx.append((f, "o"))
        if f.fmt_ok:
            open(f.fpath, "w").write(f.ftext)
            jobs.append((runcmd(f, f.fpath), None, d, env))
            idx.append((f, "f"))
    res = vf.run_many(jobs, nproc=NPROC, timeout=TMO)
    for (f, which), r in zip(idx, res):
        obs = (observe_prog if f.shape == "prog" else observe_frag)(*r, [u.uid for u in f.units])
        if which == "o":
            f.oobs, f.orig_raw = obs, r
        else:
            f.fobs, f.fmt_raw = obs, r
    return 1 + len(jobs)


def fmt_selftest(chk, sd, ego, env, samples):
    """the harness must give what the real `ego fmt file` prints (samples: [(path, harness text or None when it failed)])"""
    res = vf.run_many([([ego, "fmt", p], None, sd, env) for p, _ in samples], nproc=NPROC, timeout=TMO)
    n = 0
    for (p, text), (rc, so, se) in zip(samples, res):
        if rc is None:
            raise vf.NoVerdict("ego fmt did not finish within %d s" % TMO)
        if (text is None) != (rc != 0) or (text is not None and so.rstrip("\n") != text.rstrip("\n")):
            raise vf.NoVerdict("the formatting harness and `ego fmt %s` disagree (rc=%s)\n%s" % (p, rc, (so + se)[-600:]))
        n += 1
    chk.cov["ego_fmt_binary_agrees_with_harness_on"] = n


def unit_record(f, u):
    """the logged I/O of one unit, taken from the file it was observed in"""
    o = f.oobs[u.uid]
    cin = u.comments
    cout = [c for c in scan_comments(f.ftext) if (u.uid + ".") in c] if f.fmt_ok else []
    if f.fmt_ok:
        fo = f.fobs[u.uid]
    else:
        fo = {"out": [], "status": "not-formatted"}
    return {"id": u.uid, "base": u.case["id"], "kind": "gen", "key": u.key(),
            "exp": {"out": u.exp, "status": u.case["status"]},
            "orig": {"out": o["out"], "status": o["status"]},
            "fmt": {"ok": bool(f.fmt_ok), "msg": f.fmt_msg[:300]},
            "fmtd": {"out": fo["out"], "status": fo["status"]},
            "idem": bool(f.idem) if f.fmt_ok else True, "lines": False,
            "cin": cin, "cout": cout}


def unit_at(f, line):
    for u in f.units:
        a, b = f.spans[u.uid]
        if a <= line <= b:
            return u
    return None


def unit_in_formatted(f, line):
    """the unit whose function holds the given line of the formatted text"""
    a = f.ftext.split("\n")
    names = {u.case["id"]: u for u in f.units}
    for i in range(min(line - 1, len(a) - 1), -1, -1):
        m = re.search(r"\b(f_\w+)", a[i])
        if m and m.group(1) in names and ("func " in a[i] or "@test" in a[i]):
            return names[m.group(1)]
    return None


def suspects(f):
    """(units of a packed file that have to be observed alone, can the other units be read off this file).
    ([], True): every unit can be read off it; (None, False): something is wrong with the file as a whole and it cannot be told
    which unit causes it - the file is halved.  Only decides how the observations are obtained; the verdict is the contract's."""
    if len(f.units) == 1:
        return [], True
    rc, so, se = f.orig_raw
    first = [u for u in f.units if f.oobs[u.uid]["status"] != "ok"]
    if first and f.oobs[first[0].uid]["status"] == "compile-error":
        m = re.search(r"line (\d+)", se + so)
        u = unit_at(f, int(m.group(1))) if m else None
        return ([u] if u else None), False
    if not f.fmt_ok:
        m = re.search(r"line (\d+)", f.fmt_raw_msg)
        u = unit_at(f, int(m.group(1))) if m else None
        return ([u] if u else None), False
    if all(f.fobs[u.uid]["status"] == "compile-error" for u in f.units):
        m = re.search(r"line (\d+)", f.fmt_raw[2] + f.fmt_raw[1])
        u = unit_in_formatted(f, int(m.group(1))) if m else None
        return ([u] if u else None), False
    out = []
    for u in f.units:
        r = unit_record(f, u)
        bad = r["orig"]["status"] != "ok" or r["orig"]["out"] != r["exp"]["out"] or r["fmtd"] != r["orig"]
        have = list(r["cout"])
        for c in r["cin"]:
            if c in have:
                have.remove(c)
            else:
                bad = True
        if bad:
            out.append(u)
    if f.idem:
        return out, True
    a, b = f.ftext.split("\n"), f.ftext2.split("\n")
    k = next((i for i in range(min(len(a), len(b))) if a[i] != b[i]), min(len(a), len(b)))
    hit = unit_in_formatted(f, k + 1)
    if hit is None:
        return None, False
    return out + ([hit] if hit not in out else []), False


# ---------------------------------------------------------------- Go cross-check of the specification
def go_crosscheck(chk, cases, prelude_toks, sd):
    legal = [c for c in cases if c["go"]]
    if not legal:
        raise vf.NoVerdict("no program of the table is legal Go")
    prelude = render(prelude_toks, "std", [], "prelude")[0]
    gd = os.path.join(sd, "gox")
    os.makedirs(gd, exist_ok=True)
    nbad, n = [], 0
    for k in range(0, len(legal), 150):
        part = legal[k:k + 150]
        s = "package main\n\nimport \"fmt\"\n\n" + prelude + "\n"
        for c in part:
            s += render(c["toks"], "std", [], c["id"])[0] + "\n"
        s += "func main() {\n"
        for c in part:
            s += "\tfmt.Println(\"== %s\")\n\t%s" % (c["id"], render(c["inv"], "std", [], c["id"])[0])
        s += "\tfmt.Println(\"== end\")\n}\n"
        d = os.path.join(gd, "g%d" % k)
        os.makedirs(d, exist_ok=True)
        open(os.path.join(d, "main.go"), "w").write(s)
        p = vf.run([vf.GO, "run", "main.go"], cwd=d, env=vf.goenv({"GOFLAGS": "-mod=mod"}), timeout=1800)
        if p.returncode != 0:
            raise vf.NoVerdict("Go cross-check: the Go toolchain rejects programs the spec calls legal Go\n" + p.stderr[-3000:])
        obs = observe_prog(p.returncode, p.stdout, p.stderr, [c["id"] for c in part])
        for c in part:
            n += 1
            if obs[c["id"]]["out"] != exp_lines(c):
                nbad.append((c["id"], exp_lines(c), obs[c["id"]]["out"]))
    if nbad:
        raise vf.NoVerdict("Go cross-check: the spec disagrees with Go on %d programs, e.g. %s" % (len(nbad), nbad[:3]))
    chk.cov["go_crosschecked"] = n


# ---------------------------------------------------------------- corpus
CORPUS_DIRS = ("tests", "examples", "lib")
CTMO = 240


def corpus_stage(chk, sd, ego, env, rng, thorough):
    """every .ego file of the repository (quick: a seeded sample).  Two copies of tests/, examples/ and lib/ are made: A holds the
    originals, B the formatted texts.  tests/* are run with `ego test`, everything else with `ego run` (a package or service
    file is not a program: its outcome is whatever `ego run` says - the same for both texts), always from the root of the
    copy with the same relative path, so that messages and relative file names agree."""
    ta, tb = os.path.join(sd, "corpusA"), os.path.join(sd, "corpusB")
    for t in (ta, tb):
        for d in CORPUS_DIRS:
            shutil.copytree(os.path.join(vf.REPO, d), os.path.join(t, d), symlinks=True)
    paths = []
    for d in CORPUS_DIRS:
        for dp, dn, fn in os.walk(os.path.join(ta, d)):
            dn.sort()
            paths += [os.path.relpath(os.path.join(dp, f), ta) for f in sorted(fn) if f.endswith(".ego")]
    # every file is formatted (B is the formatted repository); in the quick tier only a sample is run
    fm = fmt_many(sd, [(rel, os.path.join(ta, rel)) for rel in paths])
    items = []
    for rel in paths:
        r = fm[rel]
        it = {"rel": rel, "src": open(os.path.join(ta, rel), errors="replace").read(), "fmt_ok": bool(r["ok"]),
              "fmt_msg": norm_msg(r["msg"]), "ftext": r["text"] if r["ok"] else "",
              "idem": bool(r["ok"]) and bool(r["ok2"]) and r["text2"] == r["text"],
              "mode": "test" if rel.startswith("tests/") else "run"}
        if it["fmt_ok"]:
            open(os.path.join(tb, rel), "w").write(it["ftext"])
        else:
            it["idem"] = True
        items.append(it)
    chk.cov["corpus_formatted"] = len(items)
    _FMT["corpus_sample"] = [(os.path.join(ta, it["rel"]), it["ftext"] if it["fmt_ok"] else None) for it in rng.sample(items, min(3, len(items)))]
    torun = items if thorough else rng.sample(items, min(24, len(items)))
    if not thorough:
        # a file that is not formatted cleanly is always run as well: whether the compiler accepts it decides whether it counts
        def lost(it):
            have = scan_comments(it["ftext"])
            return any(have.count(c) < n for c, n in {c: scan_comments(it["src"]).count(c) for c in scan_comments(it["src"])}.items())
        torun = torun + [it for it in items if it not in torun and (not it["fmt_ok"] or not it.get("idem", True) or lost(it))]
    jobs = []
    for it in torun:
        jobs.append(([ego, it["mode"], it["rel"]], "", ta, env))
        jobs.append(([ego, it["mode"], it["rel"]], "", tb, env))
    res = vf.run_many(jobs, nproc=NPROC, timeout=CTMO)

    def ob(r):
        rc, so, se = r
        if rc is None:
            return None
        raw = [l for l in (so + "\n" + se).split("\n") if l.strip()]
        lines = [l for l in (norm_msg(l) for l in raw) if l and not l.startswith("TEST: Completed")]
        compile_err = rc != 0 and any(re.match(r"^Error: at line \d+:\d+", l) for l in raw)
        return {"out": lines, "status": "ok" if rc == 0 else ("compile-error" if compile_err else "error rc=%d" % rc)}
    recs, skipped, again = [], [], []
    for n, it in enumerate(torun):
        it["o"], it["f"] = ob(res[2 * n]), ob(res[2 * n + 1])
        if it["o"] is not None and it["f"] is not None and it["o"] != it["f"] and it["fmt_ok"]:
            again.append(it)
    # a difference is looked at again, one file at a time: a program whose own two runs differ (time, random numbers,
    # files left behind by a neighbour) says nothing about the formatter
    for it in again:
        r1 = vf.run_many([([ego, it["mode"], it["rel"]], "", ta, env)], nproc=1, timeout=CTMO)[0]
        r2 = vf.run_many([([ego, it["mode"], it["rel"]], "", tb, env)], nproc=1, timeout=CTMO)[0]
        o2 = ob(r1)
        if o2 is None or o2 != it["o"]:
            it["o"] = None
        else:
            it["f"] = ob(r2)
    for it in items:
        if it in torun:
            if it["o"] is None or (it["fmt_ok"] and it["f"] is None):
                skipped.append(it["rel"])
                continue
            o = it["o"]
            f = it["f"] if it["fmt_ok"] else {"out": [], "status": "not-formatted"}
        else:
            # not run in this tier: only formatting, idempotence and comments are judged
            o = f = {"out": [], "status": "not-run"}
        recs.append({"id": it["rel"], "base": "", "kind": "corpus",
                     "key": {"pc": "", "cc": "", "lay": "", "mode": "", "shape": it["mode"]},
                     "exp": o, "orig": o, "fmt": {"ok": it["fmt_ok"], "msg": it["fmt_msg"][:300]}, "fmtd": f,
                     "idem": bool(it.get("idem", True)), "lines": "runtime.Frames" in it["src"],
                     "cin": scan_comments(it["src"]),
                     "cout": scan_comments(it["ftext"]) if it["fmt_ok"] else [],
                     "_src": it["src"], "_fmt": it["ftext"]})
    chk.cov["corpus_skipped_unstable_or_timeout"] = skipped
    chk.cov["corpus_run"] = len(torun) - len(skipped)
    return recs, 1 + len(jobs) + 2 * len(again)


# ---------------------------------------------------------------- the check
def judge(chk, sd, recs, name):
    p = os.path.join(sd, name + ".ndjson")
    vf.write_ndjson(p, [{k: v for k, v in r.items() if not k.startswith("_")} for r in recs])
    r = vf.tlc("EgoFmt", "EgoFmt_Trace", "EgoFmt_Trace.cfg", sd, workers=1, files={"io.ndjson": p}, timeout=1500)
    if r.error or r.violated or r.rc != 0:
        raise vf.NoVerdict("contract evaluation failed: %s %s\n%s" % (r.violated, r.error, r.stdout[-2500:]))
    rep = [x for x in r.records if isinstance(x, dict) and "bad" in x and "n" in x]
    if not rep:
        raise vf.NoVerdict("contract spec printed no report\n" + r.stdout[-1500:])
    rep = rep[-1]
    chk.add_tlc(r, name, count_states=False)
    fix = lambda v: v if isinstance(v, list) else []
    return int(rep["n"]), int(rep["judged"]), fix(rep["bad"]), fix(rep["outside"])


def replay_one(path):
    rp = json.load(open(path))["replay"]
    with vf.scratch() as sd:
        ov = vf.make_overlay(sd)
        ego = vf.build_ego(sd, ov)
        env = vf.ego_env(sd)
        p = os.path.join(sd, "replay.ego")
        open(p, "w").write(rp["source"])
        cmd = "test" if rp.get("shape") in ("frag", "test") else "run"
        a = vf.run([ego, cmd, p], cwd=rp.get("cwd") or sd, env=env, timeout=TMO)
        f = vf.run([ego, "fmt", p], cwd=sd, env=env, timeout=TMO)
        print("original:\n%s%s\nego fmt rc=%d\n%s%s" % (a.stdout, a.stderr, f.returncode, f.stdout[:4000], f.stderr))
        if f.returncode == 0:
            open(p, "w").write(f.stdout)
            b = vf.run([ego, cmd, p], cwd=rp.get("cwd") or sd, env=env, timeout=TMO)
            print("formatted:\n%s%s" % (b.stdout, b.stderr))
            return 0 if norm_msg(a.stdout + a.stderr) == norm_msg(b.stdout + b.stderr) else 1
        return 1


def run():
    if os.environ.get("VERIF_REPLAY"):
        return replay_one(os.environ["VERIF_REPLAY"])
    thorough = vf.TIER == "thorough"
    rng = random.Random(vf.SEED)
    chk = vf.Check(PROP)
    chk.assumptions += [
        "the programs are those of the table construct x position of spec/EgoFmt (a fragment of the language: integers, strings, "
        "booleans, []int, one struct and one map type, functions, methods, all statement forms of SYNTAX.md except go/channels, "
        "type switches, directives other than @test) plus the .ego files of the repository",
        "comments: line, block and multi-line comments after the tokens where the spec permits a line end (line comments) or "
        "anywhere between tokens (block comments); a comment counts as kept when its text is found in a comment of the output "
        "with leading and trailing white space of its lines ignored",
        "behaviour = standard output + error text with line numbers and durations removed + how the run ended; "
        "the interpreter is the real `ego run` / `ego test` binary at the default optimizer level"]
    with vf.scratch() as sd:
        # the ego binary and the formatting harness are built while TLC works
        built = {}

        def build():
            try:
                built["ov"] = vf.make_overlay(sd, HARNESS)
                built["ego"] = vf.build_ego(sd, built["ov"])
                built["fmt"] = vf.go_test_compile(built["ov"], "./internal/commands/", os.path.join(sd, "fmt.test"), timeout=1800)
            except BaseException as ex:
                built["err"] = ex
        builder = threading.Thread(target=build, daemon=True)
        if not os.environ.get("C05_DEV_EGO"):
            builder.start()
        # 1. the table
        cfg = "EgoFmt_Gen.cfg" if thorough else "EgoFmt_Genq.cfg"
        text = open(os.path.join(vf.VERIF, "spec", "EgoFmt", cfg)).read().replace("Seed = 1", "Seed = %d" % vf.SEED)
        dev = int(os.environ.get("C05_DEV_SAMPLE", "0") or "0")      # development aid: a sample only, never a verdict
        if dev and os.environ.get("C05_DEV_TLC") and os.path.exists(os.environ["C05_DEV_TLC"]):
            import pickle
            r = pickle.load(open(os.environ["C05_DEV_TLC"], "rb"))
        else:
            r = vf.tlc("EgoFmt", "EgoFmt_Gen", cfg, sd, timeout=2400, files={cfg: text}, env=JENV)
            if dev and os.environ.get("C05_DEV_TLC"):
                import pickle
                pickle.dump(r, open(os.environ["C05_DEV_TLC"], "wb"))
        vf.tlc_ok(r, "EgoFmt_Gen")
        chk.add_tlc(r, "table: every program built, evaluated, theorems checked")
        pre = [x for x in r.records if isinstance(x, dict) and "prelude" in x]
        cases = [x for x in r.records if isinstance(x, dict) and "toks" in x]
        if not pre or not cases:
            raise vf.NoVerdict("the generator printed no programs")
        seen = set()
        cases = [c for c in cases if not (c["id"] in seen or seen.add(c["id"]))]
        prelude_toks = pre[0]["prelude"]
        prelude = render(prelude_toks, "std", [], "prelude")[0]
        chk.cov["exhaustive"] = thorough
        chk.cov["programs"] = len(cases)
        # 2. negative control
        if not (dev and (os.environ.get("C05_DEV_EGO") or os.environ.get("C05_DEV_SKIP"))):
            rn = vf.tlc("EgoFmt", "EgoFmt_Gen", "EgoFmt_MC_asis.cfg", sd, timeout=1500, env=JENV)
            if rn.violated != "HeaderBraceSound":
                raise vf.NoVerdict("negative control: the as-found header rule did not violate HeaderBraceSound (%s %s)" % (rn.violated, rn.error))
            chk.add_tlc(rn, "negative control: as-found header rule violates HeaderBraceSound", count_states=False)
            # 3. the spec against Go
            go_crosscheck(chk, cases, prelude_toks, sd)
        # 4. the real formatter and interpreter
        if dev and os.environ.get("C05_DEV_EGO"):
            ego = os.environ["C05_DEV_EGO"]
        else:
            builder.join()
            if "err" in built:
                raise built["err"]
            ego, _FMT["ov"], _FMT["bin"], _FMT["n"] = built["ego"], built["ov"], built["fmt"], 0
        env = vf.ego_env(sd)
        if dev:
            only = os.environ.get("C05_DEV_ONLY")
            if only:
                cases = [c for c in cases if re.search(only, c["id"])]
            cases = rng.sample(cases, min(dev, len(cases)))
        units = [Unit(c, vi) for c in cases for vi in range(len(c["vars"]))]
        groups = {}
        for u in units:
            vi = int(u.uid.rsplit(".v", 1)[1])
            groups.setdefault((u.v["shape"], vi), []).append(u)
        pending = [(shape, vi, us) for (shape, vi), us in sorted(groups.items())]
        recs, nproc, rounds, alone, unobserved = [], 0, 0, 0, 0
        while pending:
            rounds += 1
            files = []
            if rounds >= 4:
                # what is left after three rounds goes one program per file - a seeded sample of at most ALONE_MAX of them when a
                # defect makes (nearly) every file fail; the others stay unobserved (counted; no verdict without a violation)
                left = [u for _, _, us in pending for u in us]
                if len(left) > ALONE_MAX:
                    keep = set(id(u) for u in rng.sample(left, ALONE_MAX))
                    unobserved += len(left) - ALONE_MAX
                    pending = [(sh, vi, [u for u in us if id(u) in keep]) for sh, vi, us in pending]
                    pending = [x for x in pending if x[2]]
            for g, (shape, vi, us) in enumerate(pending):
                pack = PACK if rounds < 4 else 1
                for k in range(0, len(us), pack):
                    files.append(SrcFile("r%d_%s_g%d_%d" % (rounds, shape, g, k // pack), us[k:k + pack], shape, prelude))
            vf.log("round %d: %d files, %d units" % (rounds, len(files), sum(len(f.units) for f in files)))
            nproc += process_files(files, sd, ego, env, "round%d" % rounds)
            if rounds == 1:
                _FMT["gen_sample"] = [(f.path, f.ftext if f.fmt_ok else None) for f in rng.sample(files, min(3, len(files)))]
            nxt = {}
            for f in files:
                sus, reuse = suspects(f)
                if sus is None:
                    h = (len(f.units) + 1) // 2
                    nxt.setdefault((f.shape, "p", f.name + "a"), []).extend(f.units[:h])
                    nxt.setdefault((f.shape, "p", f.name + "b"), []).extend(f.units[h:])
                    continue
                # the suspects are observed alone; the others are read off this file when it ran as a whole, else packed again
                ids = {u.uid for u in sus}
                for u in sus:
                    alone += 1
                    nxt.setdefault((f.shape, "a", u.uid), []).append(u)
                rest = [u for u in f.units if u.uid not in ids]
                if reuse:
                    for u in rest:
                        rec = unit_record(f, u)
                        if len(f.units) == 1:
                            rec["_src"], rec["_fmt"], rec["_shape"] = f.text, f.ftext, f.shape
                        recs.append(rec)
                elif rest:
                    nxt.setdefault((f.shape, "p", f.name), []).extend(rest)
            # single suspects -> files of one unit; the rest of each file stays together
            pending = []
            singles = [us[0] for (sh, kind, _), us in sorted(nxt.items()) if kind == "a"]
            if singles:
                vf.log("round %d: %d units observed alone" % (rounds, len(singles)))
                files1 = [SrcFile("a%d_%d" % (rounds, n), [u], u.v["shape"], prelude) for n, u in enumerate(singles)]
                nproc += process_files(files1, sd, ego, env, "alone%d" % rounds)
                for f in files1:
                    rec = unit_record(f, f.units[0])
                    rec["_src"], rec["_fmt"], rec["_shape"] = f.text, f.ftext, f.shape
                    recs.append(rec)
            for (sh, kind, name), us in sorted(nxt.items()):
                if kind == "p":
                    pending.append((sh, 0, us))
            if rounds > 8:
                raise vf.NoVerdict("packed files do not settle")
        chk.cov["rounds"] = rounds
        chk.cov["units_observed_alone"] = alone
        chk.cov["units_not_observed"] = unobserved
        fmt_selftest(chk, sd, ego, env, _FMT.get("gen_sample", []) + _FMT.get("corpus_sample", [])) if dev else None
        # 5. the repository's own files
        crecs, n2 = ([], 0) if dev else corpus_stage(chk, sd, ego, env, rng, thorough)
        nproc += n2
        chk.cov["corpus_files"] = len(crecs)
        if not dev:
            fmt_selftest(chk, sd, ego, env, _FMT.get("gen_sample", []) + _FMT.get("corpus_sample", []))
        # 6. the contract
        allrecs = recs + crecs
        n, judged, bad, outside = judge(chk, sd, allrecs, "contract")
        if n != len(allrecs):
            raise vf.NoVerdict("contract judged %d of %d records" % (n, len(allrecs)))
        # a generated unit that fails is also observed in its plain form (standard layout, no comments, full program) when that
        # variant is not part of this tier: the contract names the failure by the variant only if the plain form passes
        plain = {x["base"] for x in recs if x["key"]["lay"] == "std" and x["key"]["mode"] == "none" and x["key"]["shape"] == "prog"}
        need = []
        for b in bad:
            rec = allrecs[b["idx"] - 1]
            if rec["kind"] == "gen" and rec["base"] not in plain and rec["base"] not in need:
                need.append(rec["base"])
        if need:
            byid = {c["id"]: c for c in cases}
            bu = []
            for cid in need[:80]:
                c = byid[cid]
                c["vars"].append({"lay": "std", "mode": "none", "shape": "prog", "cm": []})
                bu.append(Unit(c, len(c["vars"]) - 1))
            vf.log("%d failing programs are observed in their plain form as well" % len(bu))
            files1 = [SrcFile("b_%d" % k, [u], "prog", prelude) for k, u in enumerate(bu)]
            nproc += process_files(files1, sd, ego, env, "plain")
            for f in files1:
                rec = unit_record(f, f.units[0])
                rec["_src"], rec["_fmt"], rec["_shape"] = f.text, f.ftext, f.shape
                recs.append(rec)
            allrecs = recs + crecs
            n, judged, bad, outside = judge(chk, sd, allrecs, "contract2")
            if n != len(allrecs):
                raise vf.NoVerdict("contract judged %d of %d records" % (n, len(allrecs)))
        gen_out = [o for o in outside if allrecs[o["idx"] - 1]["kind"] == "gen"]
        chk.cov["outside_domain"] = {"generated": len(gen_out), "corpus": len(outside) - len(gen_out),
                                     "examples": [o["id"] for o in outside[:12]]}
        if len(gen_out) * 5 > len(recs):
            ex = [(allrecs[o["idx"] - 1]["id"], allrecs[o["idx"] - 1]["orig"]) for o in gen_out[:5]]
            raise vf.NoVerdict("%d of %d generated units are outside the contract's domain (the original does not do what the "
                               "spec says): %s" % (len(gen_out), len(recs), ex))
        for b in bad:
            rec = allrecs[b["idx"] - 1]
            what = "%s: %s; original: %s %s; formatted: %s %s; ego fmt: %s; idempotent: %s; comments lost: %s" % (
                rec["id"], b["key"].rsplit("/", 1)[1], rec["orig"]["status"], rec["orig"]["out"][:6], rec["fmtd"]["status"],
                rec["fmtd"]["out"][:6], "ok" if rec["fmt"]["ok"] else rec["fmt"]["msg"], rec["idem"],
                [c for c in rec["cin"] if c not in rec["cout"]][:3])
            chk.violation(b["key"], what, {"record": {k: v for k, v in rec.items() if not k.startswith("_")},
                                           "source": rec.get("_src", ""), "formatted": rec.get("_fmt", ""),
                                           "shape": rec.get("_shape", rec["key"]["shape"]),
                                           "cwd": os.path.join(vf.REPO, os.path.dirname(rec["id"])) if rec["kind"] == "corpus" else ""})
        if unobserved and not bad:
            raise vf.NoVerdict("%d programs could not be observed (every packed file fails) and no violation was found among the others" % unobserved)
        # 7. binding self-test: corrupted records of units that passed must be rejected, each for its clause
        good = [x for x in recs if x["orig"]["status"] == "ok" and x["orig"]["out"] == x["exp"]["out"] and x["cin"]][:3] or \
               [x for x in recs if x["orig"]["status"] == "ok" and x["orig"]["out"] == x["exp"]["out"]][:3]
        badids = {b["id"] for b in bad}
        good = [g for g in good if g["id"] not in badids]
        if not good:
            if not bad:
                raise vf.NoVerdict("no unit inside the contract's domain")
        else:
            g = {k: v for k, v in good[0].items() if not k.startswith("_")}
            muts = []
            m = json.loads(json.dumps(g)); m["id"] += "#out"; m["fmtd"]["out"] = m["fmtd"]["out"][:-1]; muts.append(m)
            m = json.loads(json.dumps(g)); m["id"] += "#end"; m["fmtd"]["status"] = "error: x"; muts.append(m)
            m = json.loads(json.dumps(g)); m["id"] += "#fmt"; m["fmt"]["ok"] = False; muts.append(m)
            m = json.loads(json.dumps(g)); m["id"] += "#idem"; m["idem"] = False; muts.append(m)
            m = json.loads(json.dumps(g)); m["id"] += "#com"; m["cin"] = m["cin"] + ["// never written"]; muts.append(m)
            m = json.loads(json.dumps(g)); m["id"] += "#dom"; m["orig"]["status"] = "compile-error"; m["fmt"]["ok"] = False; muts.append(m)
            n3, j3, bad3, out3 = judge(chk, sd, [g] + muts, "selftest")
            want = {g["id"] + s for s in ("#out", "#end", "#fmt", "#idem", "#com")}
            if {b["id"] for b in bad3} != want or {o["id"] for o in out3} != {g["id"] + "#dom"}:
                raise vf.NoVerdict("binding self-test failed: rejected %s, outside %s" % (sorted(b["id"] for b in bad3), out3))
            chk.cov["binding_selftest"] = "5 corrupted records rejected (output, outcome, fmt failure, idempotence, comment), 1 out-of-domain record skipped, the intact record accepted"
        chk.cov["traces_validated_against_impl"] = judged
        chk.cov["evaluations"] = sum(len(x["exp"]["out"]) + len(x["cin"]) + 3 for x in allrecs)
        chk.cov["distinct_nontrivial"] = len({(x["key"]["pc"], x["key"]["cc"]) for x in recs})
        chk.cov["processes"] = nproc
        chk.cov["units"] = {"generated": len(recs), "corpus": len(crecs), "judged": judged}
        chk.cov["rule"] = ("unit = one program of the table construct x position in one layout with one comment placement (or one "
                           "repository file); observed: ego run/test of the text, ego fmt, ego fmt of the result, ego run/test of "
                           "the result; judged by EgoFmt_Trace: formatting succeeds, same output and outcome, idempotent, comments kept; "
                           "non-trivial = distinct (position class, construct class) pairs")
        for x in recs[:2] + crecs[:1]:
            chk.sample({"unit": x["id"], "key": x["key"], "expected": x["exp"]["out"][:5], "original": x["orig"]["out"][:5],
                        "formatted": x["fmtd"]["out"][:5], "comments": len(x["cin"])})
        if dev:
            for key, what, _ in chk.cands:
                vf.log("candidate", key, what[:300])
            raise vf.NoVerdict("development sample of %d programs (C05_DEV_SAMPLE): no verdict" % dev)
    return chk.finish()

"""C17 - @transaction requests are all-or-nothing and leave no transaction or lock behind.

spec/Transaction (+_Gen, _Trace).  Stages:
  MC        the design (Impl="fixed") satisfies AllOrNothing / NothingHeld at small bounds; the as-is variant must
            violate each of them (negative control, vacuity guard)
  R replay  every behaviour TLC generates (a composed request run to its end) is sent as a real @transaction request
            to a real `ego server` working on a real SQLite file; status class, the database contents read back by
            another connection, the write-lock probe and a following write request are compared with TLC's values
  T trace   the begin/commit/rollback/close events recorded by the verif hook inside database.Begin/Commit/
            Rollback/Close during those requests, framed by the request and the observed outcome, are validated by
            TLC against the actions of the specification (property invariants evaluated on every state)
  self-test a perturbed expectation (R) and corrupted traces (T) must be rejected
Failures are provoked by data only (duplicate key, emptyError, dropped table, symbols with a table, deferred foreign
key violation => COMMIT fails, unopenable database file => BEGIN fails, conditions false/true/_rows_/unparsable/
unevaluable); no fault injection hook is needed.
"""
import json, os, queue, random, shutil, sqlite3, threading, time
from concurrent.futures import ThreadPoolExecutor
import vf, egosrv

PROP = "C17"
SPEC = "Transaction"
EXITS = ["empty", "invalid-opcode", "begin-fail", "op-error", "cond-true", "cond-badparse", "cond-badeval",
         "committed", "commit-fail"]
COND = {"never": "EQ(1,0)", "always": "EQ(1,1)", "norows": "EQ(_rows_,0)", "badparse": "EQ(_rows_", "badeval": "EQ(nosuch,1)"}
SCHEMA = ["create table t(id integer primary key, v integer)", "insert into t values(1,10)",
          "create table d(n integer)", "insert into d values(0)",
          "create table p(id integer primary key)",
          "create table k(id integer primary key, pid integer references p(id) deferrable initially deferred)"]


# ------------------------------------------------------------------ driving: abstract operation -> real task
def task(o):
    k, flt = o["op"], ["EQ(id,%d)" % o["id"]]
    t = {"insert": {"operation": "insert", "table": "t", "data": {"id": o["id"], "v": 5}},
         "update": {"operation": "update", "table": "t", "filters": flt, "data": {"v": 7}},
         "delete": {"operation": "delete", "table": "t", "filters": flt},
         "select": {"operation": "select", "table": "t", "filters": flt, "columns": ["v"]},
         "readrows": {"operation": "readrows", "table": "t", "filters": flt},
         "symbols": {"operation": "symbols", "data": {"x": 1}},
         "symbad": {"operation": "symbols", "table": "t", "data": {"x": 1}},
         "drop": {"operation": "drop", "table": "d"},
         "sql": {"operation": "sql", "sql": "update d set n = n + 1"},
         "sqlbad": {"operation": "sql", "sql": "update nosuch set n = 1"},
         "insertk": {"operation": "insert", "table": "k", "data": {"id": 1, "pid": 99}},
         "insertp": {"operation": "insert", "table": "p", "data": {"id": 99}},
         "bogus": {"operation": "frobnicate", "table": "t"}}[k]
    if o["ee"]:
        t["emptyError"] = True
    if o["cond"] != "none":
        t["errors"] = [{"condition": COND[c], "status": 418, "message": "condition " + c} if n % 2 == 0
                       else {"condition": COND[c]} for n, c in enumerate(o["cond"].split("+"))]
    return t


# ------------------------------------------------------------------ projecting the real database
def project(path):
    """The SQLite file as another connection sees it, in the shape of the specification's `disk`."""
    c = sqlite3.connect(path, timeout=5)
    try:
        tabs = {r[0] for r in c.execute("select name from sqlite_master where type='table'")}
        out = {"t": [-1, -1], "d": -1, "p": False, "k": False}
        extra = sorted(tabs - {"t", "d", "p", "k"}) + sorted({"t", "p", "k"} - tabs)
        for i, v in c.execute("select id, v from t") if "t" in tabs else []:
            if i in (1, 2) and isinstance(v, int):
                out["t"][i - 1] = v
            else:
                extra.append("t:%r=%r" % (i, v))
        if "d" in tabs:
            rows = c.execute("select n from d").fetchall()
            if len(rows) == 1 and isinstance(rows[0][0], int):
                out["d"] = rows[0][0]
            else:
                extra.append("d:%r" % (rows,))
        for tab, key in (("p", 99), ("k", 1)):
            if tab in tabs:
                ids = [r[0] for r in c.execute("select id from %s" % tab)]
                out[tab] = ids == [key]
                if ids not in ([], [key]):
                    extra.append("%s:%r" % (tab, ids))
        if extra:
            out["extra"] = extra
        return out
    finally:
        c.close()


def write_locked(path, settle=4.0):
    """Can another connection start a write transaction?  A leaked lock is permanent, so a busy answer is
    retried for a bounded time (the server may still be closing its connection) before it counts."""
    end = time.time() + settle
    while True:
        c = sqlite3.connect(path, timeout=0.1, isolation_level=None)
        try:
            c.execute("begin immediate")
            c.execute("rollback")
            return False
        except sqlite3.OperationalError as ex:
            if "lock" not in str(ex) and "busy" not in str(ex):
                raise
        finally:
            c.close()
        if time.time() > end:
            return True
        time.sleep(0.15)


# ------------------------------------------------------------------ the real server
def garbled(r):
    return r.status == 400 and ("unexpected end of JSON input" in r.body or "unexpected EOF" in r.body)


class World:
    def __init__(self, sd, ego, nworkers):
        self.sd, self.n = sd, nworkers
        self.dbdir = os.path.join(sd, "dbs")
        os.makedirs(self.dbdir, exist_ok=True)
        self.events = os.path.join(sd, "dbevents.ndjson")
        self.tpl = os.path.join(sd, "template.db")
        c = sqlite3.connect(self.tpl)
        for s in SCHEMA:
            c.execute(s)
        c.commit()
        c.close()
        # generous transport timeouts: on a loaded machine the server's default 30 s read timeout cuts request bodies short
        self.srv = egosrv.Server(sd, ego, users={"admin": ("secret", ["ego.root", "ego.logon"])},
                                 env={"VERIF_DB_EVENTS": self.events},
                                 settings={"ego.server.read.timeout": "900s", "ego.server.read.header.timeout": "900s",
                                           "ego.server.write.timeout": "900s"})

    def start(self):
        self.srv.start(wait=180)
        self.tok = None
        for attempt in range(3):      # the first logon upgrades the stored credential (bcrypt): slow on a loaded machine
            try:
                r = self.srv.req("POST", "/services/admin/logon", auth=("admin", "secret"), timeout=240)
                self.tok = (r.json() or {}).get("token")
                if self.tok:
                    break
            except OSError:
                pass
        if not self.tok:
            raise vf.NoVerdict("cannot log on to the scratch server")
        # DSNs are created one after the other (the file DSN store is not safe for concurrent creation)
        for w in range(self.n):
            self.mkdsn("c17w%d" % w, self.path(w) + "?_pragma=foreign_keys(1)")
        self.mkdsn("c17nodir", os.path.join(self.sd, "no-such-dir", "x.db"))

    def mkdsn(self, name, database):
        for attempt in range(3):
            r = self.srv.req("POST", "/dsns/", {"name": name, "provider": "sqlite", "database": database, "restricted": False},
                             token=self.tok, timeout=240)
            if r.status == 201:
                return
            if not garbled(r):
                break
        raise vf.NoVerdict("cannot create DSN %s: %r" % (name, r))

    def path(self, w):
        return os.path.join(self.dbdir, "w%d.db" % w)

    def fresh(self, w):
        p = self.path(w)
        for suf in ("", "-wal", "-shm", "-journal"):
            if os.path.exists(p + suf):
                os.remove(p + suf)
        shutil.copy(self.tpl, p)
        return p

    def tx(self, dsn, tasks):
        """One @transaction request.  The body is always a well-formed JSON array, so a JSON decode complaint means the
        body did not arrive (transport timeout under load): nothing was opened, the request is sent again."""
        for attempt in range(4):
            r = self.srv.req("POST", "/dsns/%s/tables/@transaction" % dsn, tasks, token=self.tok, timeout=240)
            if not garbled(r):
                return r
        raise vf.NoVerdict("request bodies keep arriving truncated: %r" % r)

    def one(self, w, b, follow):
        """Run one behaviour on worker w's DSN; returns what really happened (projection only)."""
        good = b["dsn"] == "good"
        p = self.fresh(w) if good else None
        r = self.tx("c17w%d" % w if good else "c17nodir", [task(o) for o in b["req"]])
        j = r.json() or {}
        got = {"http": r.status, "status": "ok" if r.status == 200 else "fail",
               "sid": (j.get("server") or {}).get("session"), "msg": (j.get("msg") or "")[:200], "observed": good}
        if good:
            got["locked"] = write_locked(p)
            got["disk"] = project(p)
            if follow:
                # "ability of a following write request to proceed": a write that changes nothing
                f = self.tx("c17w%d" % w, [{"operation": "update", "table": "t", "filters": ["EQ(id,77)"], "data": {"v": 0}}])
                got["follow"] = f.status
                got["disk_after_follow"] = project(p)
        return got

    def stop(self):
        self.srv.stop()

    def hook_events(self, sids, settle=6.0):
        """events recorded by the hook, by session id (bounded wait: the deferred Close of the last requests)"""
        end = time.time() + settle
        while True:
            by = {}
            if os.path.exists(self.events):
                for line in open(self.events):
                    line = line.strip()
                    if line:
                        e = json.loads(line)
                        by.setdefault(e["sid"], []).append(e)
            begun = [s for s in sids if s in by]
            if all(by[s][-1]["ev"] == "close" for s in begun) or time.time() > end:
                return by
            time.sleep(0.2)


def replay_all(world, behs, follow_every):
    q = queue.Queue()
    for n, b in enumerate(behs):
        q.put((n, b))
    out, errs = [None] * len(behs), []

    def worker(w):
        while not errs:
            try:
                n, b = q.get_nowait()
            except queue.Empty:
                return
            try:
                out[n] = world.one(w, b, follow_every and n % follow_every == 0)
            except Exception as ex:
                errs.append("behaviour %d on worker %d: %r" % (n, w, ex))

    ts = [threading.Thread(target=worker, args=(w,)) for w in range(world.n)]
    [t.start() for t in ts]
    [t.join() for t in ts]
    if errs:
        raise vf.NoVerdict("driver died: " + errs[0] + "\n" + world.srv.log_text()[-1500:])
    return out


# ------------------------------------------------------------------ R: compare with TLC's values
def compare(b, got):
    """list of (field, want, got): projected real state against the values TLC computed"""
    mm = []
    if got["status"] != b["status"]:
        mm.append(("status", b["status"], "%s (HTTP %s: %s)" % (got["status"], got["http"], got["msg"])))
    if got["observed"]:
        if got["disk"] != b["disk"]:
            mm.append(("disk", b["disk"], got["disk"]))
        if got["locked"] != b["held"]:
            mm.append(("locked", b["held"], got["locked"]))
        if "follow" in got:
            if (got["follow"] == 200) != (not b["held"]):
                mm.append(("following-write", "proceeds" if not b["held"] else "blocked", "HTTP %s" % got["follow"]))
            elif got["disk_after_follow"] != got["disk"]:
                mm.append(("disk-after-following-write", got["disk"], got["disk_after_follow"]))
    return mm


def trace_lines(behs, gots, by):
    lines, owner = [], []
    dummy = {"t": [10, -1], "d": 0, "p": False, "k": False}
    for n, (b, g) in enumerate(zip(behs, gots)):
        run = [{"ev": "Req", "req": b["req"], "dsn": b["dsn"]}]
        run += [{"ev": e["ev"], "ok": bool(e["ok"]), "tx": bool(e["tx"])} for e in by.get(g["sid"], [])]
        run.append({"ev": "Resp", "status": g["status"], "observed": g["observed"],
                    "disk": g.get("disk", dummy), "locked": bool(g.get("locked", False))})
        lines += run
        owner += [n] * len(run)
    return lines, owner


def validate(chk, sd, lines, name):
    p = os.path.join(sd, "trace-%d.ndjson" % random.getrandbits(40))
    vf.write_ndjson(p, lines)
    r = vf.trace_validate(chk, SPEC, SPEC + "_Trace", SPEC + "_Trace.cfg", sd, p, name=name, timeout=1500)
    if r.error and "HIGHWATER" not in r.stdout:
        raise vf.NoVerdict("trace validation did not run: %s\n%s" % (r.error[:600], r.stdout[-1500:]))
    return r


def private_overlay(sd):
    """vf.make_overlay with the two generated files copied into the scratch directory first: the shared cache is pruned
    by concurrently running checks (more than six trees are in use), which can delete an entry between generation and build."""
    for attempt in range(4):
        try:
            g = vf.gen_files()
            mine = {k: shutil.copy(v, os.path.join(sd, "gen-" + os.path.basename(v))) for k, v in g.items()}
            break
        except FileNotFoundError:
            if attempt == 3:
                raise vf.NoVerdict("generated build inputs keep disappearing from the shared cache")
    return vf.make_overlay(sd, [], extra={vf.REPO + "/internal/i18n/messages.go": mine["messages"],
                                          vf.REPO + "/internal/cli/app/lib.zip": mine["libzip"]})


# ------------------------------------------------------------------ the check
def run():
    thorough = vf.TIER == "thorough"
    chk = vf.Check(PROP)
    chk.assumptions += [
        "SQLite only (modernc driver, WAL); each request runs on a fresh copy of a 4-table database (t, d, p<-k deferred FK)",
        "requests are sent one at a time per database (C17 is about one request; concurrent requests on one DSN are not explored)",
        "failures are provoked by data: duplicate key, emptyError, dropped/missing table, symbols with a table name, deferred "
        "foreign key violation (COMMIT fails; DSN opened with _pragma=foreign_keys(1)), unopenable file (BEGIN fails); a failing "
        "ROLLBACK is not provoked",
        "an open transaction that never wrote holds no lock another connection could see: it is detected through the hook events "
        "(binding T), written transactions also through the write-lock probe and the following write request (binding R)",
        "whether the handle of a transaction whose COMMIT failed is closed is not demanded (the statement speaks of transactions and locks)",
        "raw-SQL operations that themselves end the transaction (an sql task saying COMMIT/ROLLBACK) are outside the quantifier"]
    replay_file = os.environ.get("VERIF_REPLAY")
    with vf.scratch() as sd:
        pool = ThreadPoolExecutor(max_workers=3)
        # 1. model level (runs beside the build and the replay; collected below)
        # (requests of length <=1 over every operation and condition shape are model-checked by the exhaustive
        #  generator run Transaction_Gen1 below, whose cfg lists the same property invariants)
        mcs = [("MC len<=1, two DSNs, TypeOK/Believes too", "Transaction_MC1.cfg"), ("MC len<=2, full product", "Transaction_MC2.cfg"),
               ("MC len<=3, pruned after the first failure", "Transaction_MC3.cfg"),
               ("liveness: every request is answered", "Transaction_Live.cfg")] if thorough else \
              [("MC len<=2, pruned after the first failure", "Transaction_MCq.cfg")]
        wk = 6 if thorough else 4
        futs = [(nm, pool.submit(vf.tlc, SPEC, SPEC, cfg, sd, workers=wk, timeout=3000 if thorough else 1800)) for nm, cfg in mcs]
        negs = [(inv, pool.submit(vf.tlc, SPEC, SPEC, "Transaction_MC_asis_%s.cfg" % tag, sd, workers=1, timeout=1500))
                for inv, tag in (("NothingHeld", "held"), ("AllOrNothing", "atomic"))]

        # 2. behaviours
        if replay_file:
            behs = [json.load(open(replay_file))["replay"]["expected"]]
        else:
            behs, seen = [], set()
            gens = [("Transaction_Gen1.cfg", None, None), ("Transaction_GenN.cfg", None, None)]
            if thorough:
                gens += [("Transaction_Gen2.cfg", None, None)] + [("Transaction_GenS%d.cfg" % L, 400, L) for L in (3, 4, 6)]
            else:
                gens += [("Transaction_GenS%d.cfg" % L, 120, L) for L in (2, 4)]

            def gen(g):
                cfg, num, L = g
                if num is None:
                    return vf.tlc(SPEC, SPEC + "_Gen", cfg, sd, workers=4 if thorough else 1, timeout=2400)
                return vf.tlc(SPEC, SPEC + "_Gen", cfg, sd, workers=1, simulate="num=%d" % num, depth=4 * L + 12,
                              seed=vf.SEED * 1000 + L, timeout=1800)
            for (cfg, num, L), r in zip(gens, ThreadPoolExecutor(max_workers=3).map(gen, gens)):
                if r.violated or r.error or r.rc != 0:
                    raise vf.NoVerdict("behaviour generation %s failed: %s %s\n%s" % (cfg, r.violated, r.error, r.stdout[-2000:]))
                chk.add_tlc(r, "gen " + cfg + (" (exhaustive, AllOrNothing and NothingHeld checked)" if num is None else " (simulate num=%d)" % num),
                            count_states=cfg == "Transaction_Gen1.cfg")
                for b in r.records:
                    s = json.dumps([b["req"], b["dsn"]], sort_keys=True)
                    if s not in seen:
                        seen.add(s)
                        behs.append(b)
            have = {b["exit"] for b in behs}
            if set(EXITS) - have:
                raise vf.NoVerdict("generator never reached exits %s" % sorted(set(EXITS) - have))
            behs.sort(key=lambda b: json.dumps([b["req"], b["dsn"]], sort_keys=True))
            random.Random(vf.SEED).shuffle(behs)

        # 3. the real server
        t0 = time.time()
        ov = private_overlay(sd)
        ego = vf.build_ego(sd, ov)
        vf.log("%d behaviours generated; ego built in %.1fs" % (len(behs), time.time() - t0))
        hooked = os.path.exists(os.path.join(vf.REPO, "internal/server/tables/database/zz_verifhook_on.go"))
        world = World(sd, ego, 8)
        try:
            t0 = time.time()
            world.start()
            vf.log("server up, %d DSNs in %.1fs" % (world.n + 1, time.time() - t0))
            t0 = time.time()
            gots = replay_all(world, behs, follow_every=1 if replay_file else 2 if thorough else 3)
            by = world.hook_events([g["sid"] for g in gots]) if hooked else {}
            vf.log("replayed %d requests in %.1fs" % (len(behs), time.time() - t0))
        finally:
            world.stop()
        if any(g["sid"] is None for g in gots):
            raise vf.NoVerdict("a response carried no session id: %r" % [g for g in gots if g["sid"] is None][:1])

        # 4. R verdicts
        nbad = 0
        for b, g in zip(behs, gots):
            for field, want, have_ in compare(b, g):
                nbad += 1
                chk.violation("replay/%s/%s" % (field, b["exit"]),
                              "after a request taking the %s exit the real server differs from the specification in %s: spec=%s real=%s; request=%s"
                              % (b["exit"], field, json.dumps(want), json.dumps(have_), json.dumps([task(o) for o in b["req"]])),
                              {"expected": b, "got": g, "tasks": [task(o) for o in b["req"]]})
        # R self-test: a perturbed expectation must be noticed
        victims = [n for n, b in enumerate(behs) if b["exit"] == "committed" and b["disk"] != {"t": [10, -1], "d": 0, "p": False, "k": False}]
        if not replay_file:
            if not victims:
                raise vf.NoVerdict("self-test: no committed behaviour that changes the database")
            n = random.Random(vf.SEED).choice(victims)
            if not compare(dict(behs[n], status="fail"), gots[n]) and not compare(behs[n], gots[n]):
                raise vf.NoVerdict("binding self-test failed: perturbed status was not noticed")
            if not compare(dict(behs[n], disk=dict(behs[n]["disk"], d=behs[n]["disk"]["d"] + 1)), gots[n]) and not compare(behs[n], gots[n]):
                raise vf.NoVerdict("binding self-test failed: perturbed database contents were not noticed")
        chk.cov["evaluations"] += len(behs)
        nontriv = {json.dumps([b["req"], b["dsn"]], sort_keys=True) for b in behs if b["exit"] not in ("empty", "invalid-opcode")}
        chk.cov["distinct_nontrivial"] += len(nontriv)
        chk.cov["replayed_by_exit"] = {e: sum(1 for b in behs if b["exit"] == e) for e in EXITS}
        chk.cov["replayed_by_length"] = {str(L): sum(1 for b in behs if b["len"] == L) for L in sorted({b["len"] for b in behs})}
        chk.cov["following_write_probes"] = sum(1 for g in gots if "follow" in g)
        for b, g in list(zip(behs, gots))[:3]:
            chk.sample({"kind": "replayed request", "tasks": [task(o) for o in b["req"]], "dsn": b["dsn"],
                        "spec": {k: b[k] for k in ("status", "disk", "held", "exit")},
                        "real": {k: g.get(k) for k in ("http", "status", "disk", "locked", "follow")}})

        # 5. T: the recorded database events against the specification
        if hooked:
            if not by:
                raise vf.NoVerdict("the verif hook recorded no database event")
            lines, owner = trace_lines(behs, gots, by)
            cur_lines, cur_owner, accepted_runs = lines, owner, None
            for attempt in range(6):
                rt = validate(chk, sd, cur_lines, "trace validation (%d requests)" % len(set(cur_owner)) if attempt == 0 else None)
                if rt.accepted:
                    accepted_runs = len(set(cur_owner))
                    break
                hw = rt.highwater[0] if rt.highwater else 1
                at = min(max(hw - 1, 0), len(cur_lines) - 1)
                n = cur_owner[at]
                b = behs[n]
                runl = [l for l, o in zip(cur_lines, cur_owner) if o == n]
                key = "trace/%s/%s" % (b["exit"], rt.violated or ("unexplained-" + cur_lines[at]["ev"]))
                chk.violation(key, "the events recorded during a real request (exit %s) are not a behaviour of the specification: %s at event %s; run=%s"
                              % (b["exit"], rt.violated or "no action explains the event", json.dumps(cur_lines[at]), json.dumps(runl)),
                              {"expected": b, "got": gots[n], "run": runl, "tasks": [task(o) for o in b["req"]]})
                keep = [(l, o) for l, o in zip(cur_lines, cur_owner) if o != n]
                cur_lines, cur_owner = [k[0] for k in keep], [k[1] for k in keep]
                if not cur_lines:
                    break
            if accepted_runs is not None:
                chk.cov["traces_validated_against_impl"] += accepted_runs
                chk.cov["trace_events"] = len(cur_lines)
            if accepted_runs is not None and not replay_file:
                # T self-test: corrupted recordings must be rejected
                rng = random.Random(vf.SEED)
                cands = {"commit reported failed": [i for i, l in enumerate(lines) if l["ev"] == "commit" and l["ok"]],
                         "rollback event dropped": [i for i, l in enumerate(lines) if l["ev"] == "rollback"],
                         "close reported skipped": [i for i, l in enumerate(lines) if l["ev"] == "close" and not l["tx"]
                                                    and behs[owner[i]]["exit"] != "commit-fail"],
                         "observed database altered": [i for i, l in enumerate(lines) if l["ev"] == "Resp" and l["observed"]]}
                jobs = []
                names = sorted(cands) if thorough else rng.sample(sorted(cands), 2)
                for nm in names:
                    idx = cands[nm]
                    if not idx:
                        raise vf.NoVerdict("self-test: recorded runs contain no event for '%s'" % nm)
                    i = rng.choice(idx)
                    n = owner[i]
                    runl = [dict(l) for l, o in zip(lines, owner) if o == n]
                    k = i - owner.index(n)
                    if nm == "commit reported failed":
                        runl[k]["ok"] = False
                    elif nm == "rollback event dropped":
                        del runl[k]
                    elif nm == "close reported skipped":
                        runl[k]["tx"] = True
                    else:
                        runl[k]["disk"] = dict(runl[k]["disk"], d=runl[k]["disk"]["d"] + 1)
                    jobs.append((nm, runl))
                for (nm, runl), rc in zip(jobs, pool.map(lambda jb: validate(chk, sd, jb[1], None), jobs)):
                    if rc.accepted:
                        raise vf.NoVerdict("binding self-test failed: a run with '%s' was accepted: %s" % (nm, json.dumps(runl)))
                chk.cov["binding_selftest"] = "R: perturbed status and contents noticed; T: " + ", ".join(names) + " all rejected"
                chk.sample({"kind": "validated recorded run", "events": [l for l, o in zip(lines, owner) if o == owner[0]]})
        elif not chk.cands:
            raise vf.NoVerdict("tree %s has no database verif hook (zz_verifhook_on.go): binding T cannot run" % vf.REPO)
        else:
            chk.notes.append("tree has no database verif hook: binding T skipped, verdict from binding R only")

        # 6. collect the model-level runs
        for nm, f in futs:
            r = vf.tlc_ok(f.result(), nm)
            chk.add_tlc(r, nm)
        for inv, f in negs:
            rn = f.result()
            if rn.violated != inv:
                raise vf.NoVerdict("negative control: the as-is handler model did not violate %s (%s %s)" % (inv, rn.violated, (rn.error or "")[:300]))
            chk.add_tlc(rn, "negative control: as-is handler violates " + inv, count_states=False)
        pool.shutdown()
        chk.cov["rule"] = ("behaviours = complete runs of spec/Transaction printed by TLC: exhaustive for requests of length <=1 over 26 operations x 10 "
                           "condition shapes (and a small set on a DSN whose file cannot be opened)%s, TLC -simulate samples with a successful prefix and an arbitrary last operation for longer ones; "
                           "each is one real @transaction request on a fresh SQLite file; distinct_nontrivial = distinct (request, DSN) pairs that reached BEGIN; "
                           "traces = per-request hook event sequences accepted by Transaction_Trace") % (" and length <=2 (pruned after the first failure)" if thorough else "")
        chk.cov["exhaustive"] = False
    return chk.finish()

package sqlparse

// C16 harness (overlaid into internal/sqlparse as a _test.go file).
//
// For every generated statement it logs what the REAL code does:
//   parse(text) -> AST1, Format -> text2, parse(text2) -> AST2, Format -> text3,
//   the real lexer's tokens of text2, and what a scratch SQLite database (the
//   modernc engine the server itself uses) does with text and with text2.
// Nothing is judged here.  The ASTs are projected to a canonical string (node
// type + fields, positions dropped); execution is projected to (ok, result rows,
// database state after the statement and a fixed list of probe statements).
// The TLA+ contract SqlFormat_Trace decides.

import (
	"bufio"
	"crypto/sha1"
	"database/sql"
	"encoding/hex"
	"encoding/json"
	"fmt"
	"os"
	"reflect"
	"sort"
	"strings"
	"testing"

	"github.com/tucats/ego/internal/sqlparse/ast"
	_ "modernc.org/sqlite"
)

type c16In struct {
	ID      int      `json:"id"`
	D       string   `json:"d"`       // "sqlite" | "pg"
	SQL     string   `json:"sql"`     // the statement
	Fixture []string `json:"fixture"` // statements building the scratch database (shared by all cases of a run when empty)
	Pre     []string `json:"pre"`     // statements run before the statement under test
	Probe   []string `json:"probe"`   // statements run after it (their outcome is part of the observed effect)
	Fresh   bool     `json:"fresh"`   // transaction control: run on a database of its own, outside any transaction
	NoExec  bool     `json:"noexec"`
}

type c16Exec struct {
	Ran    bool   `json:"ran"`   // an execution was attempted at all
	Ok     bool   `json:"ok"`    // the statement executed without error
	Syn    bool   `json:"syn"`   // it was refused by SQLite's own grammar (not a statement SQLite can run at all)
	Rows   string `json:"rows"`  // digest of the result rows (values only)
	State  string `json:"state"` // digest of probes' outcomes + database state
	Detail string `json:"detail"`
}

type c16Tok struct {
	K string `json:"k"`
	T string `json:"t"`
	Q bool   `json:"q"`
}

type c16Out struct {
	ID      int      `json:"id"`
	Parsed  bool     `json:"parsed"`
	Err     string   `json:"err"`
	Ast1    string   `json:"ast1"`
	E1      string   `json:"e1"` // projection of the first result column's expression (SELECT only)
	Text2   string   `json:"text2"`
	Parsed2 bool     `json:"parsed2"`
	Err2    string   `json:"err2"`
	Ast2    string   `json:"ast2"`
	Text3   string   `json:"text3"`
	Toks2   []c16Tok `json:"toks2"`
	X1      c16Exec  `json:"x1"`
	X2      c16Exec  `json:"x2"`
}

// ---------------------------------------------------------------- AST projection

var c16Skip = map[string]bool{"BaseNode": true, "BaseStmt": true}

func c16Proj(b *strings.Builder, v reflect.Value) {
	switch v.Kind() {
	case reflect.Interface, reflect.Ptr:
		if v.IsNil() {
			b.WriteString("nil")
			return
		}
		c16Proj(b, v.Elem())
	case reflect.Struct:
		t := v.Type()
		b.WriteString("(")
		b.WriteString(t.Name())
		for i := 0; i < t.NumField(); i++ {
			f := t.Field(i)
			if c16Skip[f.Name] || !f.IsExported() {
				continue
			}
			fv := v.Field(i)
			if c16Zero(fv) {
				continue
			}
			b.WriteString(" ")
			b.WriteString(f.Name)
			b.WriteString(":")
			c16Proj(b, fv)
		}
		b.WriteString(")")
	case reflect.Slice:
		b.WriteString("[")
		for i := 0; i < v.Len(); i++ {
			if i > 0 {
				b.WriteString(" ")
			}
			c16Proj(b, v.Index(i))
		}
		b.WriteString("]")
	case reflect.String:
		b.WriteString("<")
		b.WriteString(v.String())
		b.WriteString(">")
	case reflect.Bool:
		if v.Bool() {
			b.WriteString("T")
		} else {
			b.WriteString("F")
		}
	case reflect.Int, reflect.Int8, reflect.Int16, reflect.Int32, reflect.Int64:
		fmt.Fprintf(b, "%d", v.Int())
	default:
		fmt.Fprintf(b, "?%s", v.Kind())
	}
}

// zero values are dropped (a nil slice and an empty one are the same tree)
func c16Zero(v reflect.Value) bool {
	switch v.Kind() {
	case reflect.Interface, reflect.Ptr:
		return v.IsNil()
	case reflect.Slice:
		return v.Len() == 0
	case reflect.String:
		return v.String() == ""
	case reflect.Bool:
		return !v.Bool()
	case reflect.Int, reflect.Int8, reflect.Int16, reflect.Int32, reflect.Int64:
		return v.Int() == 0
	}
	return false
}

func c16Tree(n any) string {
	var b strings.Builder
	c16Proj(&b, reflect.ValueOf(n))
	return b.String()
}

func c16FirstExpr(s ast.Statement) string {
	sel, ok := s.(*ast.SelectStmt)
	if !ok || sel == nil {
		return ""
	}
	core, ok := sel.Select.(*ast.SelectCore)
	if !ok || core == nil || len(core.Columns) == 0 {
		return ""
	}
	return c16Tree(core.Columns[0].Expr)
}

func c16Dialect(d string) int {
	if d == "pg" {
		return PostgreSQL
	}
	return SQLite
}

func c16Tokens(text string, d int) []c16Tok {
	dl, err := dialectFromInt(d)
	if err != nil {
		return nil
	}
	toks, err := newLexer(text, dl).tokenize()
	if err != nil {
		return nil
	}
	out := make([]c16Tok, 0, len(toks))
	for _, t := range toks {
		if t.kind == tokEOF {
			continue
		}
		out = append(out, c16Tok{K: t.kind.String(), T: t.text, Q: t.quoted})
	}
	return out
}

// ---------------------------------------------------------------- execution against a scratch SQLite database

var c16DBSeq int

func c16Digest(s string) string {
	h := sha1.Sum([]byte(s))
	return hex.EncodeToString(h[:8])
}

type c16Querier interface {
	Query(query string, args ...any) (*sql.Rows, error)
}

func c16Query(db c16Querier, q string) (cols []string, rows [][]string, err error) {
	r, err := db.Query(q)
	if err != nil {
		return nil, nil, err
	}
	defer r.Close()
	cols, err = r.Columns()
	if err != nil {
		return nil, nil, err
	}
	for r.Next() {
		vals := make([]any, len(cols))
		ptrs := make([]any, len(cols))
		for i := range vals {
			ptrs[i] = &vals[i]
		}
		if err := r.Scan(ptrs...); err != nil {
			return cols, rows, err
		}
		row := make([]string, len(cols))
		for i, v := range vals {
			switch x := v.(type) {
			case nil:
				row[i] = "NULL"
			case []byte:
				row[i] = "b:" + hex.EncodeToString(x)
			case string:
				row[i] = "s:" + x
			default:
				row[i] = fmt.Sprintf("%T:%v", v, v)
			}
		}
		rows = append(rows, row)
	}
	return cols, rows, r.Err()
}

func c16RowsText(rows [][]string, sorted bool) string {
	lines := make([]string, len(rows))
	for i, r := range rows {
		lines[i] = strings.Join(r, "|")
	}
	if sorted {
		sort.Strings(lines)
	}
	return strings.Join(lines, "\n")
}

func c16NormType(t string) string {
	return strings.ToUpper(strings.Join(strings.Fields(strings.NewReplacer("(", " ( ", ")", " ) ", ",", " , ").Replace(t)), " "))
}

// the state of the scratch database: every schema object (type, name, owning table), per table its columns
// (name, declared type folded to upper case with white space normalised, notnull, pk, hidden), indexes (unique,
// origin, partial, key columns with direction and collation), foreign keys, and all rows; per view its column
// names and rows.  The stored CREATE text is NOT part of it (it legitimately differs by white space); what a
// constraint does is observed by the probe statements.
func c16State(db c16Querier) string {
	var b strings.Builder
	for _, master := range []string{"sqlite_master", "sqlite_temp_master"} {
		_, objs, err := c16Query(db, "SELECT type, name, tbl_name FROM "+master+" ORDER BY type, name")
		if err != nil {
			fmt.Fprintf(&b, "%s: error\n", master)
			continue
		}
		for _, o := range objs {
			typ, name := strings.TrimPrefix(o[0], "s:"), strings.TrimPrefix(o[1], "s:")
			fmt.Fprintf(&b, "%s %s %s %s\n", master, typ, name, o[2])
			qn := `"` + strings.ReplaceAll(name, `"`, `""`) + `"`
			sn := "'" + strings.ReplaceAll(name, "'", "''") + "'"
			switch typ {
			case "table":
				_, cols, err := c16Query(db, "SELECT cid, name, type, \"notnull\", pk, hidden FROM pragma_table_xinfo("+sn+")")
				if err != nil {
					b.WriteString("  xinfo error\n")
				}
				for _, c := range cols {
					c[2] = c16NormType(c[2])
				}
				b.WriteString(c16RowsText(cols, false) + "\n")
				for _, pragma := range []string{
					"SELECT name, \"unique\", origin, partial FROM pragma_index_list(%s) ORDER BY name",
					"SELECT id, seq, \"table\", \"from\", \"to\", on_update, on_delete FROM pragma_foreign_key_list(%s) ORDER BY id, seq",
				} {
					_, rows, err := c16Query(db, fmt.Sprintf(pragma, sn))
					if err != nil {
						b.WriteString("  pragma error\n")
					}
					b.WriteString(c16RowsText(rows, false) + "\n")
				}
				_, rows, err := c16Query(db, "SELECT * FROM "+qn)
				if err != nil {
					b.WriteString("  rows error\n")
				}
				b.WriteString(c16RowsText(rows, true) + "\n")
			case "index":
				_, rows, _ := c16Query(db, "SELECT seqno, cid, name, \"desc\", coll, key FROM pragma_index_xinfo("+sn+")")
				b.WriteString(c16RowsText(rows, false) + "\n")
			case "view":
				cols, rows, err := c16Query(db, "SELECT * FROM "+qn)
				if err != nil {
					b.WriteString("  view error\n")
				}
				b.WriteString(strings.Join(cols, ",") + "\n")
				b.WriteString(c16RowsText(rows, true) + "\n")
			}
		}
	}
	return b.String()
}

// scratch databases are kept per fixture: a statement runs inside a transaction that is rolled back afterwards
// (DDL is transactional in SQLite), so the next statement finds the pristine fixture again.  Transaction-control
// statements (fresh=true) get a database of their own.
type c16Scratch struct {
	db   *sql.DB
	base string // state of the pristine fixture
}

var c16Cache = map[string]*c16Scratch{}

func c16Open(fixture []string) (*c16Scratch, string) {
	c16DBSeq++
	db, err := sql.Open("sqlite", fmt.Sprintf("file:c16mem%d?mode=memory&cache=private", c16DBSeq))
	if err != nil {
		return nil, "open: " + err.Error()
	}
	db.SetMaxOpenConns(1)
	for _, s := range append([]string{"PRAGMA foreign_keys=ON"}, fixture...) {
		if _, err := db.Exec(s); err != nil {
			db.Close()
			return nil, "fixture: " + s + ": " + err.Error()
		}
	}
	return &c16Scratch{db: db}, ""
}

func c16Get(fixture []string) (*c16Scratch, string) {
	key := strings.Join(fixture, "\x00")
	if s, ok := c16Cache[key]; ok {
		return s, ""
	}
	if len(c16Cache) > 48 {
		for k, s := range c16Cache {
			s.db.Close()
			delete(c16Cache, k)
		}
	}
	s, msg := c16Open(fixture)
	if s == nil {
		return nil, msg
	}
	s.base = c16State(s.db)
	c16Cache[key] = s
	return s, ""
}

func c16Counters(db c16Querier) string {
	_, r, err := c16Query(db, "SELECT total_changes(), (SELECT schema_version FROM pragma_schema_version()), (SELECT schema_version FROM pragma_schema_version('temp'))")
	if err != nil || len(r) != 1 {
		return "?"
	}
	return strings.Join(r[0], "|")
}

func c16Observe(db c16Querier, pre []string, text string, probe []string, base string) c16Exec {
	res := c16Exec{Ran: true}
	var det strings.Builder
	for _, s := range pre {
		if _, _, err := c16Query(db, s); err != nil {
			return c16Exec{Detail: "pre: " + s + ": " + err.Error()}
		}
	}
	before := c16Counters(db)
	cols, rows, err := c16Query(db, text)
	if err == nil {
		res.Ok = true
		rt := fmt.Sprintf("%d cols\n%s", len(cols), c16RowsText(rows, false))
		res.Rows = c16Digest(rt)
		det.WriteString("rows: " + rt + "\n")
	} else {
		res.Rows = "-"
		msg := err.Error()
		res.Syn = strings.Contains(msg, "syntax error") || strings.Contains(msg, "unrecognized token") || strings.Contains(msg, "incomplete input")
		det.WriteString("error: " + msg + "\n")
	}
	var st strings.Builder
	for _, p := range probe {
		_, prow, perr := c16Query(db, p)
		if perr != nil {
			fmt.Fprintf(&st, "probe %s => error\n", p)
		} else {
			fmt.Fprintf(&st, "probe %s => ok %s\n", p, strings.ReplaceAll(c16RowsText(prow, false), "\n", ";"))
		}
	}
	if base != "" && len(probe) == 0 && len(pre) == 0 && before != "?" && c16Counters(db) == before {
		st.WriteString(base) // nothing was written and no schema changed: the state is the fixture's
	} else {
		st.WriteString(c16State(db))
	}
	res.State = c16Digest(st.String())
	det.WriteString(st.String())
	d := det.String()
	if len(d) > 6000 {
		d = d[:6000]
	}
	res.Detail = d
	return res
}

func c16Run(fixture, pre []string, text string, probe []string, fresh bool) c16Exec {
	if fresh {
		s, msg := c16Open(fixture)
		if s == nil {
			return c16Exec{Detail: msg}
		}
		defer s.db.Close()
		return c16Observe(s.db, pre, text, probe, "")
	}
	s, msg := c16Get(fixture)
	if s == nil {
		return c16Exec{Detail: msg}
	}
	drop := func() {
		s.db.Close()
		delete(c16Cache, strings.Join(fixture, "\x00"))
	}
	if _, err := s.db.Exec("BEGIN"); err != nil {
		drop()
		return c16Exec{Detail: "begin: " + err.Error()}
	}
	res := c16Observe(s.db, pre, text, probe, s.base)
	if _, err := s.db.Exec("ROLLBACK"); err != nil {
		drop() // the statement ended the transaction itself: this database is no longer pristine
	}
	return res
}

// ---------------------------------------------------------------- driver

func TestVerifC16RoundTrip(t *testing.T) {
	in, out := os.Getenv("VERIF_IN"), os.Getenv("VERIF_OUT")
	if in == "" || out == "" {
		t.Skip("VERIF_IN / VERIF_OUT not set")
	}
	f, err := os.Open(in)
	if err != nil {
		t.Fatal(err)
	}
	defer f.Close()
	o, err := os.Create(out + ".tmp")
	if err != nil {
		t.Fatal(err)
	}
	w := bufio.NewWriter(o)
	enc := json.NewEncoder(w)
	enc.SetEscapeHTML(false)
	sc := bufio.NewScanner(f)
	sc.Buffer(make([]byte, 1<<20), 1<<26)
	var fixture []string
	for sc.Scan() {
		if len(sc.Bytes()) == 0 {
			continue
		}
		var rec c16In
		if err := json.Unmarshal(sc.Bytes(), &rec); err != nil {
			t.Fatal(err)
		}
		if rec.ID == 0 { // header record: the fixture shared by the cases that follow
			fixture = rec.Fixture
			continue
		}
		fx := fixture
		if len(rec.Fixture) > 0 {
			fx = rec.Fixture
		}
		d := c16Dialect(rec.D)
		res := c16Out{ID: rec.ID, Toks2: []c16Tok{}}
		p, err := New(rec.SQL, d)
		if err != nil {
			res.Err = err.Error()
		} else {
			res.Parsed = true
			res.Ast1 = c16Tree(p.Statement())
			res.E1 = c16FirstExpr(p.Statement())
			res.Text2 = p.Format()
			res.Toks2 = c16Tokens(res.Text2, d)
			if res.Toks2 == nil {
				res.Toks2 = []c16Tok{}
			}
			p2, err2 := New(res.Text2, d)
			if err2 != nil {
				res.Err2 = err2.Error()
			} else {
				res.Parsed2 = true
				res.Ast2 = c16Tree(p2.Statement())
				res.Text3 = p2.Format()
			}
			if !rec.NoExec {
				res.X1 = c16Run(fx, rec.Pre, rec.SQL, rec.Probe, rec.Fresh)
				res.X2 = c16Run(fx, rec.Pre, res.Text2, rec.Probe, rec.Fresh)
			}
		}
		if err := enc.Encode(res); err != nil {
			t.Fatal(err)
		}
	}
	if err := sc.Err(); err != nil {
		t.Fatal(err)
	}
	if err := w.Flush(); err != nil {
		t.Fatal(err)
	}
	o.Close()
	if err := os.Rename(out+".tmp", out); err != nil {
		t.Fatal(err)
	}
}

// C33 optional observation (only when node is on PATH): runs JavaScript texts the way a browser runs a
// classic <script> - in the global scope of a fresh realm - between a prelude script that defines the
// globals (another file) and a postlude script that looks the pool names up by name (an inline handler /
// another file).  It prints what was observed; it decides nothing.
//   stdin : ndjson {"id": .., "text": "...", "names": ["a","b"]}
//   stdout: ndjson {"id": .., "obs": [...]}          (what out() was called with, "--", what later code sees)
'use strict';
const vm = require('vm');
const rl = require('readline').createInterface({input: process.stdin, crlfDelay: Infinity});
rl.on('line', (line) => {
  if (!line.trim()) return;
  const job = JSON.parse(line);
  const obs = [];
  const sandbox = {};
  const ctx = vm.createContext(sandbox);
  ctx.__out = (v) => { obs.push(typeof v === 'function' ? 'fn' : String(v)); };
  let pre = 'this.out = __out; this.o = {};';
  for (const n of job.names) pre += `this.${n} = 'G${n}'; this.o.${n} = 'P${n}';`;
  try {
    vm.runInContext(pre, ctx, {timeout: 30000});
    try {
      vm.runInContext(job.text, ctx, {timeout: 30000});
    } catch (e) {
      if (e && e.code === 'ERR_SCRIPT_EXECUTION_TIMEOUT') throw e;
      obs.push(e && e.name ? e.name : 'Error');
    }
    obs.push('--');
    for (const n of job.names) {
      try {
        vm.runInContext(`__out(${n});`, ctx, {timeout: 30000});
      } catch (e) {
        if (e && e.code === 'ERR_SCRIPT_EXECUTION_TIMEOUT') throw e;
        obs.push('E');
      }
    }
  } catch (e) {
    return;   // a timeout or a harness problem: no observation for this text
  }
  process.stdout.write(JSON.stringify({id: job.id, obs}) + '\n');
});

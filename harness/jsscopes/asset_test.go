package assets

// Binding F, level B, for spec/JsScopes (property C33): the scripts as a
// browser gets them.  The shipped dashboard scripts and a sample of the
// generated programs are written under a scratch library root and fetched with
// GET /assets/... through the real router and the real AssetsHandler with
// ego.server.js.minify on, once with ego.server.js.shortvarnames off and once
// with it on (different file names per pass, so the asset cache cannot answer
// for the other mode).  The JavaScript tokens of each response body are logged
// for the TLA+ contracts.  Nothing here decides whether a response is right.
//
//   VERIF_IN     ndjson {"p": <items, passed through>, "text": "..."}
//   VERIF_FILES  ndjson {"path": file}: shipped scripts
//   VERIF_OUT    ndjson {"p": .., "short": b, "out": [..], "status": n, "same": true}
//                       {"src": .., "short": b, "in": [..], "out": [..], "lexok": b, "status": n, "same": true}

import (
	"encoding/json"
	"fmt"
	"net/http"
	"net/http/httptest"
	"os"
	"path/filepath"
	"testing"

	"github.com/tucats/ego/internal/cli/settings"
	"github.com/tucats/ego/internal/defs"
	"github.com/tucats/ego/internal/router"
)

func TestVerifC33Asset(t *testing.T) {
	in, outp := vkEnv("VERIF_IN", ""), vkEnv("VERIF_OUT", "")
	if in == "" || outp == "" {
		t.Skip("VERIF_IN/VERIF_OUT not set")
	}
	base, err := os.MkdirTemp("/var/tmp", "verif-c33-")
	if err != nil {
		t.Fatal(err)
	}
	defer os.RemoveAll(base)
	os.Setenv("HOME", base) // no user profile is read or written outside the scratch tree
	dir := filepath.Join(base, "assets")
	if err := os.MkdirAll(dir, 0o755); err != nil {
		t.Fatal(err)
	}
	type item struct {
		p    json.RawMessage
		src  string
		data []byte
	}
	var items []item
	err = vkLoadLines(in, func(line []byte) error {
		var rec struct {
			P    json.RawMessage `json:"p"`
			Text string          `json:"text"`
		}
		if err := json.Unmarshal(line, &rec); err != nil {
			return err
		}
		items = append(items, item{rec.P, "", []byte(rec.Text)})
		return nil
	})
	if err != nil {
		t.Fatal(err)
	}
	if fl := vkEnv("VERIF_FILES", ""); fl != "" {
		err = vkLoadLines(fl, func(line []byte) error {
			var f struct {
				Path string `json:"path"`
			}
			if err := json.Unmarshal(line, &f); err != nil {
				return err
			}
			data, err := os.ReadFile(f.Path)
			if err != nil {
				return err
			}
			items = append(items, item{nil, filepath.Base(f.Path), data})
			return nil
		})
		if err != nil {
			t.Fatal(err)
		}
	}

	settings.SetDefault(defs.EgoLibPathSetting, base)
	settings.SetDefault(defs.JSMinifySetting, "true")

	// the asset route of internal/commands/routes.go
	mux := router.NewRouter("verif-c33")
	mux.New(defs.AssetsPath+"{{item...}}", AssetsHandler, http.MethodGet).Class(router.AssetRequestCounter)

	tw, err := vkNewTrace(outp)
	if err != nil {
		t.Fatal(err)
	}
	defer tw.Close()
	n := 0
	for _, short := range []bool{false, true} {
		settings.SetDefault(defs.JSShortVarNamesSetting, fmt.Sprintf("%v", short))
		for k, it := range items {
			name := fmt.Sprintf("m%v-%06d.js", short, k)
			if err := os.WriteFile(filepath.Join(dir, name), it.data, 0o644); err != nil {
				t.Fatal(err)
			}
			req := httptest.NewRequest(http.MethodGet, defs.AssetsPath+name, nil)
			req.RemoteAddr = "127.0.0.1:9"
			w := httptest.NewRecorder()
			mux.ServeHTTP(w, req)
			body := w.Body.Bytes()
			tout, okout := c33Lex(body)
			if tout == nil {
				tout = []c33Tok{}
			}
			if it.p != nil {
				tw.Emit(map[string]any{"p": it.p, "short": short, "out": tout, "status": w.Code, "text": string(body), "same": true})
			} else {
				tin, okin := c33Lex(it.data)
				tw.Emit(map[string]any{"src": it.src, "short": short, "in": tin, "out": tout, "lexok": okin && okout,
					"status": w.Code, "text": string(body), "same": true})
			}
			n++
		}
	}
	fmt.Printf("VERIF-C33 asset responses=%d\n", n)
}

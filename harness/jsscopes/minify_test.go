package javascript

// Binding F for spec/JsScopes (property C33).  The harness only drives the
// real Minify with the program texts rendered from what TLC generated (and
// with the shipped dashboard scripts) and logs the JavaScript TOKENS of what
// came out - produced by the small tokenizer below, which follows the
// ECMAScript lexical grammar (template head/middle/tail, regular expression
// literals) and shares nothing with the minifier's own tokenizer.  The TLA+
// contracts judge the logs.  Nothing here decides anything.
//
//   VERIF_IN     ndjson {"p": <items, passed through>, "text": "..."}
//   VERIF_FILES  optional ndjson {"path": file}
//   VERIF_OUT    ndjson, per input and per mode (shortenNames false, true):
//                  {"p": .., "short": b, "out": [{"k","t"}..], "text": minified, "same": input left alone}
//                per file and per mode:
//                  {"src": base name, "short": b, "in": [..], "out": [..], "text": minified, "same": ..}

import (
	"bytes"
	"encoding/json"
	"fmt"
	"os"
	"path/filepath"
	"testing"
)

type c33Tok struct {
	K string `json:"k"`
	T string `json:"t"`
}

func c33IdStart(b byte) bool {
	return b == '_' || b == '$' || (b >= 'a' && b <= 'z') || (b >= 'A' && b <= 'Z') || b >= 0x80
}

func c33IdPart(b byte) bool { return c33IdStart(b) || (b >= '0' && b <= '9') }

var c33RegexAfterWord = map[string]bool{"return": true, "typeof": true, "instanceof": true, "in": true, "of": true, "new": true,
	"delete": true, "throw": true, "void": true, "case": true, "do": true, "else": true, "yield": true, "await": true}

var c33Puncts = []string{">>>=", "...", "===", "!==", "**=", "<<=", ">>=", ">>>", "&&=", "||=", "??=",
	"=>", "==", "!=", "<=", ">=", "&&", "||", "??", "?.", "++", "--", "+=", "-=", "*=", "/=", "%=", "&=", "|=", "^=", "<<", ">>", "**"}

// c33Lex projects JavaScript source text to its token sequence.  ok=false: the text ends inside a token.
func c33Lex(src []byte) (toks []c33Tok, ok bool) {
	n := len(src)
	i := 0
	// template nesting: each entry is the brace depth inside a ${ } substitution
	var tmpl []int
	regexAllowed := func() bool {
		if len(toks) == 0 {
			return true
		}
		l := toks[len(toks)-1]
		switch l.K {
		case "id":
			return c33RegexAfterWord[l.T]
		case "punct":
			return l.T != ")" && l.T != "]" && l.T != "}" && l.T != "++" && l.T != "--"
		case "tmpl":
			return len(l.T) >= 2 && l.T[len(l.T)-2:] == "${"
		}
		return false
	}
	// scans template characters from j (just after ` or }) to the next ${ or `; returns index after it and whether it ended the template
	tmplChars := func(j int) (int, bool, bool) {
		for j < n {
			switch {
			case src[j] == '\\':
				j += 2
			case src[j] == '`':
				return j + 1, true, true
			case src[j] == '$' && j+1 < n && src[j+1] == '{':
				return j + 2, false, true
			default:
				j++
			}
		}
		return n, true, false
	}
	for i < n {
		b := src[i]
		switch {
		case b == ' ' || b == '\t' || b == '\n' || b == '\r' || b == '\v' || b == '\f':
			i++
		case b == '/' && i+1 < n && src[i+1] == '/':
			for i < n && src[i] != '\n' {
				i++
			}
		case b == '/' && i+1 < n && src[i+1] == '*':
			j := bytes.Index(src[i+2:], []byte("*/"))
			if j < 0 {
				return toks, false
			}
			i += 2 + j + 2
		case b == '\'' || b == '"':
			j := i + 1
			for j < n && src[j] != b {
				if src[j] == '\\' {
					j++
				}
				if j < n && src[j] == '\n' {
					return toks, false
				}
				j++
			}
			if j >= n {
				return toks, false
			}
			toks = append(toks, c33Tok{"str", string(src[i : j+1])})
			i = j + 1
		case b == '`':
			j, ended, fine := tmplChars(i + 1)
			if !fine {
				return toks, false
			}
			toks = append(toks, c33Tok{"tmpl", string(src[i:j])})
			if !ended {
				tmpl = append(tmpl, 0)
			}
			i = j
		case b == '}' && len(tmpl) > 0 && tmpl[len(tmpl)-1] == 0:
			j, ended, fine := tmplChars(i + 1)
			if !fine {
				return toks, false
			}
			toks = append(toks, c33Tok{"tmpl", string(src[i:j])})
			if ended {
				tmpl = tmpl[:len(tmpl)-1]
			}
			i = j
		case b == '/' && regexAllowed():
			j := i + 1
			inClass := false
			for j < n && (src[j] != '/' || inClass) {
				switch src[j] {
				case '\\':
					j++
				case '[':
					inClass = true
				case ']':
					inClass = false
				case '\n':
					return toks, false
				}
				j++
			}
			if j >= n {
				return toks, false
			}
			j++
			for j < n && c33IdPart(src[j]) {
				j++
			}
			toks = append(toks, c33Tok{"regex", string(src[i:j])})
			i = j
		case (b >= '0' && b <= '9') || (b == '.' && i+1 < n && src[i+1] >= '0' && src[i+1] <= '9'):
			j := i + 1
			for j < n && (c33IdPart(src[j]) || src[j] == '.' ||
				((src[j] == '+' || src[j] == '-') && (src[j-1] == 'e' || src[j-1] == 'E') && !(len(src[i:j]) > 1 && (src[i+1] == 'x' || src[i+1] == 'X')))) {
				j++
			}
			toks = append(toks, c33Tok{"num", string(src[i:j])})
			i = j
		case c33IdStart(b):
			j := i + 1
			for j < n && c33IdPart(src[j]) {
				j++
			}
			toks = append(toks, c33Tok{"id", string(src[i:j])})
			i = j
		default:
			t := string(src[i : i+1])
			for _, p := range c33Puncts {
				if bytes.HasPrefix(src[i:], []byte(p)) {
					t = p
					break
				}
			}
			if len(tmpl) > 0 {
				if t == "{" {
					tmpl[len(tmpl)-1]++
				} else if t == "}" {
					tmpl[len(tmpl)-1]--
				}
			}
			toks = append(toks, c33Tok{"punct", t})
			i += len(t)
		}
	}
	return toks, len(tmpl) == 0
}

func c33Minify(text []byte, short bool) ([]byte, bool) {
	arg := append([]byte(nil), text...)
	got := Minify(arg, short)
	return got, bytes.Equal(arg, text)
}

func TestVerifC33Minify(t *testing.T) {
	in, out := vkEnv("VERIF_IN", ""), vkEnv("VERIF_OUT", "")
	if in == "" || out == "" {
		t.Skip("VERIF_IN/VERIF_OUT not set")
	}
	tw, err := vkNewTrace(out)
	if err != nil {
		t.Fatal(err)
	}
	defer tw.Close()
	n := 0
	err = vkLoadLines(in, func(line []byte) error {
		var rec struct {
			P    json.RawMessage `json:"p"`
			Text string          `json:"text"`
		}
		if err := json.Unmarshal(line, &rec); err != nil {
			return err
		}
		for _, short := range []bool{false, true} {
			got, same := c33Minify([]byte(rec.Text), short)
			toks, ok := c33Lex(got)
			if toks == nil {
				toks = []c33Tok{}
			}
			tw.Emit(map[string]any{"p": rec.P, "short": short, "out": toks, "lexok": ok, "text": string(got), "same": same})
		}
		n++
		return nil
	})
	if err != nil {
		t.Fatal(err)
	}
	nf := 0
	if fl := vkEnv("VERIF_FILES", ""); fl != "" {
		err = vkLoadLines(fl, func(line []byte) error {
			var f struct {
				Path string `json:"path"`
			}
			if err := json.Unmarshal(line, &f); err != nil {
				return err
			}
			data, err := os.ReadFile(f.Path)
			if err != nil {
				return err
			}
			tin, okin := c33Lex(data)
			for _, short := range []bool{false, true} {
				got, same := c33Minify(data, short)
				tout, okout := c33Lex(got)
				tw.Emit(map[string]any{"src": filepath.Base(f.Path), "short": short, "in": tin, "out": tout,
					"lexok": okin && okout, "text": string(got), "same": same})
			}
			nf++
			return nil
		})
		if err != nil {
			t.Fatal(err)
		}
	}
	fmt.Printf("VERIF-C33 minify generated=%d files=%d\n", n, nf)
}

package javascript

// Binding F for spec/JsScopes (property C33).  The harness only drives the
// real Minify with the program texts rendered from what TLC generated (and
// with the shipped dashboard scripts) and logs the JavaScript TOKENS of what
// came out - produced by the small tokenizer of lex.go.tmpl, which follows
// the ECMAScript lexical grammar and shares nothing with the minifier's own
// tokenizer.  The TLA+ contracts judge the logs.  Nothing here decides
// anything.
//
//   VERIF_IN     ndjson {"p": <items, passed through>, "text": "..."}
//   VERIF_FILES  optional ndjson {"path": file}
//   VERIF_OUT    ndjson, per input and per mode (shortenNames false, true):
//                  {"p": .., "short": b, "out": [{"k","t"}..], "text": minified, "same": input left alone}
//                per file and per mode:
//                  {"src": base name, "short": b, "in": [..], "out": [..], "text": minified, "same": ..}

import (
	"bytes"
	"encoding/json"
	"fmt"
	"os"
	"path/filepath"
	"testing"
)

func c33Minify(text []byte, short bool) ([]byte, bool) {
	arg := append([]byte(nil), text...)
	got := Minify(arg, short)
	return got, bytes.Equal(arg, text)
}

func TestVerifC33Minify(t *testing.T) {
	in, out := vkEnv("VERIF_IN", ""), vkEnv("VERIF_OUT", "")
	if in == "" || out == "" {
		t.Skip("VERIF_IN/VERIF_OUT not set")
	}
	tw, err := vkNewTrace(out)
	if err != nil {
		t.Fatal(err)
	}
	defer tw.Close()
	n := 0
	err = vkLoadLines(in, func(line []byte) error {
		var rec struct {
			P    json.RawMessage `json:"p"`
			Text string          `json:"text"`
		}
		if err := json.Unmarshal(line, &rec); err != nil {
			return err
		}
		for _, short := range []bool{false, true} {
			got, same := c33Minify([]byte(rec.Text), short)
			toks, ok := c33Lex(got)
			if toks == nil {
				toks = []c33Tok{}
			}
			tw.Emit(map[string]any{"p": rec.P, "short": short, "out": toks, "lexok": ok, "text": string(got), "same": same})
		}
		n++
		return nil
	})
	if err != nil {
		t.Fatal(err)
	}
	nf := 0
	if fl := vkEnv("VERIF_FILES", ""); fl != "" {
		err = vkLoadLines(fl, func(line []byte) error {
			var f struct {
				Path string `json:"path"`
			}
			if err := json.Unmarshal(line, &f); err != nil {
				return err
			}
			data, err := os.ReadFile(f.Path)
			if err != nil {
				return err
			}
			tin, okin := c33Lex(data)
			for _, short := range []bool{false, true} {
				got, same := c33Minify(data, short)
				tout, okout := c33Lex(got)
				tw.Emit(map[string]any{"src": filepath.Base(f.Path), "short": short, "in": tin, "out": tout,
					"lexok": okin && okout, "text": string(got), "same": same})
			}
			nf++
			return nil
		})
		if err != nil {
			t.Fatal(err)
		}
	}
	fmt.Printf("VERIF-C33 minify generated=%d files=%d\n", n, nf)
}

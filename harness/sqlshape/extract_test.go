package sqlparse

// C15 harness (overlaid into internal/sqlparse as a _test.go file).
// For every generated statement it logs what the real parser and the real
// table-usage extractor (Tables / StatementKind / Format) report.  Nothing is
// judged here: the TLA+ contract SqlShape_Trace decides which shapes are
// suspects, and the verdict always comes from real server requests.

import (
	"bufio"
	"encoding/json"
	"os"
	"testing"
)

type c15In struct {
	ID    int             `json:"id"`
	SQL   string          `json:"sql"`
	Shape json.RawMessage `json:"shape"`
}

type c15Usage struct {
	T string `json:"t"`
	U string `json:"u"`
}

type c15Out struct {
	Rec    string          `json:"rec"`
	ID     int             `json:"id"`
	Shape  json.RawMessage `json:"shape"`
	Parsed bool            `json:"parsed"`
	Kind   string          `json:"kind"`
	Usages []c15Usage      `json:"usages"`
	Format string          `json:"format"`
	Err    string          `json:"err"`
}

func TestVerifC15Extract(t *testing.T) {
	in, out := os.Getenv("VERIF_IN"), os.Getenv("VERIF_OUT")
	if in == "" || out == "" {
		t.Skip("VERIF_IN / VERIF_OUT not set")
	}

	f, err := os.Open(in)
	if err != nil {
		t.Fatal(err)
	}
	defer f.Close()

	o, err := os.Create(out + ".tmp")
	if err != nil {
		t.Fatal(err)
	}

	w := bufio.NewWriter(o)
	enc := json.NewEncoder(w)
	sc := bufio.NewScanner(f)
	sc.Buffer(make([]byte, 1<<20), 1<<26)

	for sc.Scan() {
		if len(sc.Bytes()) == 0 {
			continue
		}

		var rec c15In
		if err := json.Unmarshal(sc.Bytes(), &rec); err != nil {
			t.Fatal(err)
		}

		res := c15Out{Rec: "x", ID: rec.ID, Shape: rec.Shape, Usages: []c15Usage{}}

		p, err := New(rec.SQL, SQLite)
		if err != nil {
			res.Err = err.Error()
		} else {
			res.Parsed = true
			res.Kind = p.StatementKind().String()
			res.Format = p.Format()

			for _, u := range p.Tables() {
				res.Usages = append(res.Usages, c15Usage{T: u.Name, U: u.Usage.String()})
			}
		}

		if err := enc.Encode(res); err != nil {
			t.Fatal(err)
		}
	}

	if err := sc.Err(); err != nil {
		t.Fatal(err)
	}

	if err := w.Flush(); err != nil {
		t.Fatal(err)
	}

	o.Close()

	if err := os.Rename(out+".tmp", out); err != nil {
		t.Fatal(err)
	}
}

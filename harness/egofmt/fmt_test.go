package commands

// C05 harness (overlaid into internal/commands as zz_verif_fmt_test.go).
//
// Formats many source files in ONE process through renderSource, the function
// FmtAction (`ego fmt file`) calls for every file: parse (program first, then
// fragment) and print with default options.  Starting the ego binary costs far
// more than formatting, and the check formats every file twice (idempotence).
// The check still runs the real `ego fmt` on a sample of the same files and
// requires byte-identical output (binding self-test), so this is only a faster
// way to obtain the same observations.
//
// VERIF_IN : ndjson, one {"name": "...", "path": "..."} per file
// VERIF_OUT: ndjson, one {"name", "ok", "msg", "text", "ok2", "msg2", "text2"} per file
//            text = formatted source, text2 = formatted text formatted again.
// Nothing is judged here.

import (
	"bufio"
	"encoding/json"
	"fmt"
	"os"
	"testing"

	"github.com/tucats/ego/internal/language/parse/format"
)

type verifFmtIn struct {
	Name string `json:"name"`
	Path string `json:"path"`
}

type verifFmtOut struct {
	Name  string `json:"name"`
	Ok    bool   `json:"ok"`
	Msg   string `json:"msg"`
	Text  string `json:"text"`
	Ok2   bool   `json:"ok2"`
	Msg2  string `json:"msg2"`
	Text2 string `json:"text2"`
}

func verifRender(src string) (out string, ok bool, msg string) {
	defer func() {
		if r := recover(); r != nil {
			out, ok, msg = "", false, fmt.Sprintf("panic: %v", r)
		}
	}()

	text, err := renderSource(src, false, false, false, format.Options{})
	if err != nil {
		return "", false, err.Error()
	}

	return text, true, ""
}

func TestVerifFmt(t *testing.T) {
	in, out := os.Getenv("VERIF_IN"), os.Getenv("VERIF_OUT")
	if in == "" || out == "" {
		t.Skip("VERIF_IN / VERIF_OUT not set")
	}

	fi, err := os.Open(in)
	if err != nil {
		t.Fatal(err)
	}
	defer fi.Close()

	fo, err := os.Create(out + ".tmp")
	if err != nil {
		t.Fatal(err)
	}

	w := bufio.NewWriter(fo)
	enc := json.NewEncoder(w)
	sc := bufio.NewScanner(fi)
	sc.Buffer(make([]byte, 1<<20), 1<<26)

	for sc.Scan() {
		var item verifFmtIn
		if err := json.Unmarshal(sc.Bytes(), &item); err != nil {
			t.Fatal(err)
		}

		src, err := os.ReadFile(item.Path)
		if err != nil {
			t.Fatal(err)
		}

		res := verifFmtOut{Name: item.Name}
		res.Text, res.Ok, res.Msg = verifRender(string(src))

		if res.Ok {
			res.Text2, res.Ok2, res.Msg2 = verifRender(res.Text)
		}

		if err := enc.Encode(res); err != nil {
			t.Fatal(err)
		}
	}

	if err := w.Flush(); err != nil {
		t.Fatal(err)
	}

	fo.Close()

	if err := os.Rename(out+".tmp", out); err != nil {
		t.Fatal(err)
	}
}

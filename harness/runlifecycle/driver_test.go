package c09

// C09 harness: executes Ego programs, Ego test files and Ego services many times inside ONE process, through
// the real entry points (commands.RunAction's per-program part, commands.TestAction, services.ServiceHandler),
// and records, after every execution, a projection of the process's goroutine profile.  Nothing is decided
// here: the records go to TLC (spec/RunLifecycle/RunLifecycle_Trace.tla), which classifies the goroutines
// and judges them with the operators of the RunLifecycle specification.
//
// Projection of one goroutine (runtime/pprof "goroutine" profile, debug=2):
//   id     goroutine id                      host   id of the goroutine that created it ("created by ... in goroutine N")
//   cpkg   package of the creating function  cfn    creating function inside that package
//   ego    the creating function belongs to module github.com/tucats/ego
//   frames number of (*Context).RunFromAddress calls on its stack

import (
	"bufio"
	"bytes"
	"encoding/json"
	"fmt"
	"net/http"
	"net/http/httptest"
	"os"
	"regexp"
	"runtime"
	"runtime/pprof"
	"sort"
	"strconv"
	"strings"
	"sync"
	"sync/atomic"
	"testing"
	"time"

	"github.com/tucats/ego/internal/cli/app"
	"github.com/tucats/ego/internal/cli/cli"
	"github.com/tucats/ego/internal/commands"
	"github.com/tucats/ego/internal/grammar/class"
	"github.com/tucats/ego/internal/router"
	"github.com/tucats/ego/internal/server/services"
)

type gRec struct {
	ID     int    `json:"id"`
	Host   int    `json:"host"`
	Cpkg   string `json:"cpkg"`
	Cfn    string `json:"cfn"`
	Ego    bool   `json:"ego"`
	Frames int    `json:"frames"`
}

type job struct {
	Path   string            `json:"path"` // run | test | service
	File   string            `json:"file"`
	Key    string            `json:"key"`
	Reps   int               `json:"reps"`
	HasExp bool              `json:"hasexp"`
	Expect []map[string]int  `json:"expect"`
	Accept string            `json:"accept"` // service: Accept header
	Extra  map[string]string `json:"extra"`
}

type event struct {
	Ev     string           `json:"ev"`
	Job    int              `json:"job"`
	Rep    int              `json:"rep"`
	Path   string           `json:"path"`
	Key    string           `json:"key"`
	Kind   string           `json:"kind"`
	Err    string           `json:"err"`
	Marks  []string         `json:"marks"`
	HasExp bool             `json:"hasexp"`
	Expect []map[string]int `json:"expect"`
	Driver int              `json:"driver"`
	N      int              `json:"n"`
	Trunc  bool             `json:"trunc"` // Final: the process stopped executing jobs early (resource guard, see maxG)
	// the goroutine table is logged as a difference to the table of the previous event of this process:
	Add []gRec `json:"add"` // goroutines that are new, or whose projection changed
	Del []int  `json:"del"` // ids that are gone
}

// differ turns successive full tables into differences (pure bookkeeping: table(k) = table(k-1) minus Del, overridden by Add)
type differ struct{ prev map[int]gRec }

func (d *differ) delta(snap []gRec) ([]gRec, []int) {
	add, del := []gRec{}, []int{}
	cur := make(map[int]gRec, len(snap))
	for _, g := range snap {
		cur[g.ID] = g
		if old, ok := d.prev[g.ID]; !ok || old != g {
			add = append(add, g)
		}
	}
	for id := range d.prev {
		if _, ok := cur[id]; !ok {
			del = append(del, id)
		}
	}
	sort.Ints(del)
	d.prev = cur
	return add, del
}

const modulePrefix = "github.com/tucats/ego/"
const runFrame = "github.com/tucats/ego/internal/language/bytecode.(*Context).RunFromAddress("

var hdrRe = regexp.MustCompile(`^goroutine (\d+) \[`)
var creRe = regexp.MustCompile(`^created by (\S+) in goroutine (\d+)`)

// splitFn splits "a/b/pkg.(*T).fn.func1" into package path and function.
func splitFn(s string) (string, string) {
	slash := strings.LastIndex(s, "/")
	dot := strings.Index(s[slash+1:], ".")
	if dot < 0 {
		return s, ""
	}
	return s[:slash+1+dot], s[slash+1+dot+1:]
}

func snapshot() []gRec {
	var buf bytes.Buffer
	_ = pprof.Lookup("goroutine").WriteTo(&buf, 2)
	out := []gRec{}
	var cur *gRec
	flush := func() {
		if cur != nil {
			out = append(out, *cur)
			cur = nil
		}
	}
	sc := bufio.NewScanner(&buf)
	sc.Buffer(make([]byte, 1<<20), 1<<26)
	for sc.Scan() {
		line := sc.Text()
		if m := hdrRe.FindStringSubmatch(line); m != nil {
			flush()
			id, _ := strconv.Atoi(m[1])
			cur = &gRec{ID: id}
			continue
		}
		if cur == nil || line == "" || line[0] == '\t' {
			continue
		}
		if m := creRe.FindStringSubmatch(line); m != nil {
			cur.Host, _ = strconv.Atoi(m[2])
			cur.Cpkg, cur.Cfn = splitFn(m[1])
			cur.Ego = strings.HasPrefix(m[1], modulePrefix)
			continue
		}
		if strings.HasPrefix(line, runFrame) {
			cur.Frames++
		}
	}
	flush()
	return out
}

func selfID() int {
	b := make([]byte, 64)
	b = b[:runtime.Stack(b, false)]
	if m := hdrRe.FindSubmatch(b); m != nil {
		id, _ := strconv.Atoi(string(m[1]))
		return id
	}
	return -1
}

// settle gives goroutines that have been told to stop a moment to do so.  It decides nothing: it only stops
// waiting early when the count is back to what it was or has stopped moving.
func settle(before int, budget time.Duration) {
	deadline := time.Now().Add(budget)
	last, same := -1, 0
	d := 50 * time.Microsecond
	for {
		runtime.Gosched()
		n := runtime.NumGoroutine()
		if n <= before {
			return
		}
		if n == last {
			same++
		} else {
			same = 0
		}
		last = n
		if same >= 4 || time.Now().After(deadline) {
			return
		}
		time.Sleep(d)
		if d < 4*time.Millisecond {
			d *= 2
		}
	}
}

// quiesce waits until the number of goroutines has not changed for `still`, at most `budget`.
func quiesce(still, budget time.Duration) {
	deadline := time.Now().Add(budget)
	last, since := runtime.NumGoroutine(), time.Now()
	for time.Now().Before(deadline) {
		time.Sleep(10 * time.Millisecond)
		n := runtime.NumGoroutine()
		if n != last {
			last, since = n, time.Now()
		} else if time.Since(since) >= still {
			return
		}
	}
}

var markRe = regexp.MustCompile(`^[UBX]\d+$`)

type capture struct {
	f   *os.File
	off int64
}

func (c *capture) take() []string {
	st, err := c.f.Stat()
	if err != nil || st.Size() <= c.off {
		return []string{}
	}
	b := make([]byte, st.Size()-c.off)
	n, _ := c.f.ReadAt(b, c.off)
	c.off += int64(n)
	marks := []string{}
	for _, l := range strings.Split(string(b[:n]), "\n") {
		if markRe.MatchString(l) {
			marks = append(marks, l)
		}
	}
	if c.off > 64<<20 {
		_ = c.f.Truncate(0)
		_, _ = c.f.Seek(0, 0)
		c.off = 0
	}
	return marks
}

func kindOf(err error) (string, string) {
	if err == nil {
		return "ok", ""
	}
	t := err.Error()
	if strings.Contains(t, "panic") {
		return "panic", t
	}
	return "error", t
}

func envInt(name string, def int) int {
	if v := os.Getenv(name); v != "" {
		if n, err := strconv.Atoi(v); err == nil {
			return n
		}
	}
	return def
}

func TestVerifC09(t *testing.T) {
	in, outp := os.Getenv("VERIF_IN"), os.Getenv("VERIF_OUT")
	if in == "" || outp == "" {
		t.Skip("VERIF_IN/VERIF_OUT not set")
	}
	work := os.Getenv("VERIF_WORK")
	_ = os.MkdirAll(work+"/home", 0o755)
	os.Setenv("HOME", work+"/home")
	os.Setenv("EGO_DEFAULT_LOGGING", "")
	os.Unsetenv("EGO_PROFILE")

	// everything the programs print goes to a file (no reader goroutine)
	capf, err := os.OpenFile(work+"/stdout.txt", os.O_CREATE|os.O_RDWR|os.O_TRUNC|os.O_APPEND, 0o644)
	if err != nil {
		t.Fatal(err)
	}
	realOut, realErr := os.Stdout, os.Stderr
	os.Stdout, os.Stderr = capf, capf
	defer func() { os.Stdout, os.Stderr = realOut, realErr }()
	cp := &capture{f: capf}

	var jobs []job
	jf, err := os.Open(in)
	if err != nil {
		t.Fatal(err)
	}
	sc := bufio.NewScanner(jf)
	sc.Buffer(make([]byte, 1<<20), 1<<26)
	for sc.Scan() {
		if len(bytes.TrimSpace(sc.Bytes())) == 0 {
			continue
		}
		var j job
		if err := json.Unmarshal(sc.Bytes(), &j); err != nil {
			t.Fatal(err)
		}
		jobs = append(jobs, j)
	}
	jf.Close()

	of, err := os.Create(outp + ".tmp")
	if err != nil {
		t.Fatal(err)
	}
	w := bufio.NewWriterSize(of, 1<<20)
	df := &differ{prev: map[int]gRec{}}
	var emitMu sync.Mutex
	var progress atomic.Int64 // unix nanoseconds of the last finished execution
	progress.Store(time.Now().UnixNano())
	emit := func(e event) {
		emitMu.Lock()
		defer emitMu.Unlock()
		progress.Store(time.Now().UnixNano())
		e.Add, e.Del = df.delta(snapshot())
		if e.Marks == nil {
			e.Marks = []string{}
		}
		if e.Expect == nil {
			e.Expect = []map[string]int{}
		}
		b, _ := json.Marshal(e)
		w.Write(b)
		w.WriteByte('\n')
		w.Flush()
	}

	// one-time process initialisation: the real command line path, once, on a trivial program
	if err := app.SetEnvironment(".ego"); err != nil {
		t.Fatal(err)
	}
	a := app.New("ego: verif").SetVersion(1, 0, 0).SetDefaultAction(commands.RunAction).SetProfileDirectory(".ego")
	if err := a.Run(class.MainGrammar, []string{"ego", "run", os.Getenv("VERIF_INITPROG")}); err != nil {
		t.Fatalf("initial ego run failed: %v", err)
	}
	cp.take()
	quiesce(300*time.Millisecond, 10*time.Second)

	// resource guard, not a verdict: an execution that does not return within the limit ends the process; what was recorded
	// so far is complete (a last profile is added) and is judged like any other log, marked truncated.  The guard's own
	// goroutine exists before the Base event.
	limit := time.Duration(envInt("VERIF_EXEC_LIMIT_S", 600)) * time.Second
	armed := make(chan struct{})
	go func() {
		<-armed
		for {
			time.Sleep(500 * time.Millisecond)
			if time.Since(time.Unix(0, progress.Load())) > limit {
				emit(event{Ev: "Final", N: runtime.NumGoroutine(), Trunc: true, Err: "an execution did not return within the limit"})
				of.Sync()
				_ = os.Rename(outp+".tmp", outp)
				fmt.Fprintf(realOut, "c09 harness: execution limit exceeded, process ended\n")
				os.Exit(3)
			}
		}
	}()
	runtime.Gosched()

	me := selfID()
	emit(event{Ev: "Base", Driver: me, N: runtime.NumGoroutine()})
	close(armed)

	perExec := time.Duration(envInt("VERIF_SETTLE_MS", 60)) * time.Millisecond
	finalEvery := envInt("VERIF_FINAL_EVERY", 150)
	sinceFinal := 0
	final := func(trunc bool) {
		quiesce(time.Duration(envInt("VERIF_STILL_MS", 400))*time.Millisecond, 20*time.Second)
		emit(event{Ev: "Final", N: runtime.NumGoroutine(), Trunc: trunc})
		sinceFinal = 0
	}
	// resource guard, not a verdict: a process that has accumulated this many goroutines stops taking jobs (its log so far
	// is complete and is judged like any other); the check treats a truncated log without a reported goroutine as no verdict
	maxG := envInt("VERIF_MAX_GOROUTINES", 700)
	truncated := false
	ctx := &cli.Context{}
	for ji, j := range jobs {
		if truncated {
			break
		}
		for rep := 0; rep < j.Reps; rep++ {
			before := runtime.NumGoroutine()
			var err error
			switch j.Path {
			case "run":
				_, err = commands.VerifC09RunFile(ctx, j.File)
			case "test":
				err = commands.TestAction(&cli.Context{Parent: &cli.Context{Parameters: []string{j.File}}})
			case "service":
				err = runService(j, ji*1000+rep)
			default:
				t.Fatalf("unknown path %q", j.Path)
			}
			settle(before, perExec)
			kind, text := kindOf(err)
			if len(text) > 200 {
				text = text[:200]
			}
			emit(event{Ev: "Exec", Job: ji, Rep: rep, Path: j.Path, Key: j.Key, Kind: kind, Err: text, Marks: cp.take(),
				HasExp: j.HasExp, Expect: j.Expect, N: runtime.NumGoroutine()})
			sinceFinal++
			if runtime.NumGoroutine() > maxG {
				truncated = true
				break
			}
		}
		if sinceFinal >= finalEvery && !truncated {
			final(false)
		}
	}
	final(truncated)
	if err := w.Flush(); err != nil {
		t.Fatal(err)
	}
	of.Close()
	if err := os.Rename(outp+".tmp", outp); err != nil {
		t.Fatal(err)
	}
	fmt.Fprintf(realOut, "c09 harness: %d jobs done\n", len(jobs))
}

// runService performs one service request in-process: a fresh session, the real ServiceHandler.
func runService(j job, id int) error {
	accept := j.Accept
	if accept == "" {
		accept = "application/json"
	}
	req := httptest.NewRequest(http.MethodGet, "/services/"+j.Extra["endpoint"], nil)
	req.Header.Set("Accept", accept)
	session := &router.Session{
		ID:          id + 1,
		Path:        "services/" + j.Extra["endpoint"],
		Filename:    j.File,
		URLParts:    map[string]any{},
		AcceptsJSON: strings.Contains(accept, "json"),
		AcceptsText: strings.Contains(accept, "text"),
	}
	rec := httptest.NewRecorder()
	status := services.ServiceHandler(session, rec, req)
	if status >= 500 {
		body := rec.Body.String()
		if len(body) > 160 {
			body = body[:160]
		}
		return fmt.Errorf("status %d: %s", status, body)
	}
	if status >= 400 {
		return fmt.Errorf("status %d", status)
	}
	return nil
}

package commands

// C09 harness shim (overlaid into package commands at build time; never part of /repo).
//
// RunAction mixes one-time process initialisation (library, settings defaults, DSN database) with the
// per-program part (symbol table, compiler, context, run, compiler close).  A process that runs many
// programs does the first part once: the harness calls the real RunAction once, and then this function
// for every further execution.  It is RunAction's own sequence of calls from loadSource on, using the
// same unexported functions, with nothing added.

import (
	"github.com/tucats/ego/internal/cli/cli"
	"github.com/tucats/ego/internal/cli/settings"
	"github.com/tucats/ego/internal/defs"
	"github.com/tucats/ego/internal/errors"
)

func VerifC09RunFile(c *cli.Context, file string) (int, error) {
	var err error

	session := &runSession{
		prompt:         consolePrompt(c.MainProgram),
		wasCommandLine: true,
		debug:          false,
		extensions:     settings.GetBool(defs.ExtensionsEnabledSetting),
	}

	staticTypes := configureExecutionOptions(c, session)
	session.entryPoint = defs.Main
	session.entryPointGiven = false

	if session.text, session.isProject, session.mainName, err = loadFile(file, defs.Main); err != nil {
		return 0, err
	}

	session.symbolTable = initializeSymbols(c, session.mainName, nil, staticTypes, session.interactive)
	session.symbolTable.Root().SetAlways(defs.MainVariable, defs.Main)
	session.symbolTable.Root().SetAlways(defs.ExtensionsVariable, session.extensions)
	session.symbolTable.Root().SetAlways(defs.UserCodeRunningVariable, true)

	exitValue, err := session.run(c)
	if exitValue > 0 && err == nil {
		err = errors.ErrTerminatedWithErrors
	}

	return exitValue, err
}

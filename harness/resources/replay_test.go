package resources

// Binding R for spec/Resources (C30): replays TLC behaviours through the real
// resource store on a scratch SQLite file and compares, after every call, the
// reply, the returned records and the projected table with what TLC computed.
//
// The harness only drives (concretises ranks to real values), projects (maps
// real values back to ranks) and compares for equality.  It never decides which
// records a filter should select.

import (
	"bytes"
	"encoding/json"
	"fmt"
	"math"
	"math/rand"
	"os"
	"path/filepath"
	"strings"
	"testing"

	"github.com/google/uuid"
	egoerrors "github.com/tucats/ego/internal/errors"
)

// vkItem is the "small record type with string/int/bool/uuid/json fields".
type vkItem struct {
	Name   string // k: primary key
	Label  string // s
	Count  int    // n
	Active bool   // b
	ID     uuid.UUID
	Tags   []string        // j: stored as JSON text
	Info   json.RawMessage // r: stored verbatim
}

// Increasing pools (bytewise for strings, numeric for ints, canonical text for
// uuids): rank i of a column is the i-th element of a seeded increasing sample.
var (
	vkStrPool = []string{"", " lead", "10", "9", "A", "O'Brien", "a", "a b", "a%", "a_", "b\"q", "x' OR '1'='1", "z$1", "é", "日本"}
	vkIntPool = []int{math.MinInt64, -1000000007, -1, 0, 1, 2, 10, 4294967296, math.MaxInt64}
	vkUIDPool = []string{"00000000-0000-0000-0000-000000000000", "0a000000-0000-0000-0000-000000000001",
		"0a000000-0000-4000-8000-000000000000", "7f3e1c2a-9b4d-4e6f-8a1b-2c3d4e5f6071", "a0000000-0000-0000-0000-000000000000",
		"ffffffff-ffff-ffff-ffff-ffffffffffff"}
	vkTagPool = [][]string{nil, {}, {""}, {"a"}, {"a", "b'c"}, {"x,y", "\"q\""}, {"ego.root", "ego.logon"}}
	vkRawPool = []string{"", "null", `"str"`, `[1,2]`, `{"a":1}`, `{"a":{"b":[true,null]},"c":"d'e"}`}
)

const vkMaxRank = 3

// vkConc is one concretisation of the rank domains.
type vkConc struct {
	k, s    []string
	n       []int
	u       []uuid.UUID
	j       [][]string
	r       []string
	colName map[string]string
	badName string
}

func vkPick(rng *rand.Rand, n, want int) []int {
	idx := rng.Perm(n)[:want]
	for i := 0; i < len(idx); i++ { // sort ascending (tiny)
		for j := i + 1; j < len(idx); j++ {
			if idx[j] < idx[i] {
				idx[i], idx[j] = idx[j], idx[i]
			}
		}
	}
	return idx
}

func vkNewConc(rng *rand.Rand) *vkConc {
	c := &vkConc{colName: map[string]string{}}
	for _, i := range vkPick(rng, len(vkStrPool), vkMaxRank) {
		c.k = append(c.k, vkStrPool[i])
	}
	for _, i := range vkPick(rng, len(vkStrPool), vkMaxRank) {
		c.s = append(c.s, vkStrPool[i])
	}
	for _, i := range vkPick(rng, len(vkIntPool), vkMaxRank) {
		c.n = append(c.n, vkIntPool[i])
	}
	for _, i := range vkPick(rng, len(vkUIDPool), vkMaxRank) {
		c.u = append(c.u, uuid.MustParse(vkUIDPool[i]))
	}
	for _, i := range vkPick(rng, len(vkTagPool), vkMaxRank) { // no order needed: JSON columns are never filtered
		c.j = append(c.j, vkTagPool[i])
	}
	for _, i := range vkPick(rng, len(vkRawPool), vkMaxRank) {
		c.r = append(c.r, vkRawPool[i])
	}
	spell := func(name string) string { // the constructors match field names case-insensitively
		switch rng.Intn(3) {
		case 0:
			return strings.ToLower(name)
		case 1:
			return strings.ToUpper(name)
		}
		return name
	}
	c.colName["k"], c.colName["s"], c.colName["n"] = spell("Name"), spell("Label"), spell("Count")
	c.colName["b"], c.colName["u"] = spell("Active"), spell("ID")
	c.badName = []string{"nosuch", "", "label ", "labels", "user_name", "name;"}[rng.Intn(6)]
	return c
}

func vkRank(m map[string]any, k string) (int, error) {
	n := vkInt(m, k)
	if n < 1 || n > vkMaxRank {
		return 0, fmt.Errorf("rank %q=%v outside 1..%d", k, m[k], vkMaxRank)
	}
	return n - 1, nil
}

func (c *vkConc) item(rec map[string]any) (vkItem, error) {
	var it vkItem
	ix := map[string]int{}
	for _, f := range []string{"k", "s", "n", "b", "u", "j", "r"} {
		i, err := vkRank(rec, f)
		if err != nil {
			return it, err
		}
		ix[f] = i
	}
	if ix["b"] > 1 {
		return it, fmt.Errorf("bool rank %d", ix["b"]+1)
	}
	it = vkItem{Name: c.k[ix["k"]], Label: c.s[ix["s"]], Count: c.n[ix["n"]], Active: ix["b"] == 1, ID: c.u[ix["u"]]}
	if t := c.j[ix["j"]]; t != nil {
		it.Tags = append([]string{}, t...)
	}
	it.Info = json.RawMessage(c.r[ix["r"]])
	return it, nil
}

// value of rank v in column col, typed the way a caller of the constructors would pass it.
func (c *vkConc) value(col string, v int) (any, error) {
	if v < 1 || v > vkMaxRank {
		return nil, fmt.Errorf("rank %d", v)
	}
	switch col {
	case "k":
		return c.k[v-1], nil
	case "s":
		return c.s[v-1], nil
	case "n":
		return c.n[v-1], nil
	case "b":
		return v == 2, nil
	case "u":
		return c.u[v-1], nil
	}
	return nil, fmt.Errorf("column %q", col)
}

func vkFind[T comparable](pool []T, x T) any {
	for i, p := range pool {
		if p == x {
			return i + 1
		}
	}
	return fmt.Sprintf("?%v", x)
}

func vkTagText(t []string) string {
	b, _ := json.Marshal(t) // nil -> null, {} -> []
	return string(b)
}

// abstract: concrete field values (as canonical text / typed) back to ranks; unknown values stay visible as "?text".
func (c *vkConc) abstract(name, label string, count int64, active bool, id string, tags string, info string) map[string]any {
	b := 1
	if active {
		b = 2
	}
	us := make([]string, len(c.u))
	for i, u := range c.u {
		us[i] = u.String()
	}
	js := make([]string, len(c.j))
	for i, t := range c.j {
		js[i] = vkTagText(t)
	}
	ns := make([]int64, len(c.n))
	for i, n := range c.n {
		ns[i] = int64(n)
	}
	return map[string]any{"k": vkFind(c.k, name), "s": vkFind(c.s, label), "n": vkFind(ns, count), "b": b,
		"u": vkFind(us, id), "j": vkFind(js, tags), "r": vkFind(c.r, info)}
}

func (c *vkConc) abstractItem(v any) any {
	it, ok := v.(*vkItem)
	if !ok || it == nil {
		return fmt.Sprintf("?%T", v)
	}
	return c.abstract(it.Name, it.Label, int64(it.Count), it.Active, it.ID.String(), vkTagText(it.Tags), string(it.Info))
}

// ---------------------------------------------------------------- the world

type vkWorld struct {
	path  string
	table string
	h     *ResHandle
	c     *vkConc
	resets, opens int
}

func (w *vkWorld) close() {
	if w.h != nil {
		_ = w.h.Close()
		w.h = nil
	}
}

// reset: an empty database (the table does not exist).  hard: through a fresh Open (new handle, new connection);
// soft: the same handle, its deferred error cleared with Begin(), the table dropped with plain SQL.
func (w *vkWorld) reset(hard bool) error {
	w.resets++
	if w.h == nil || hard {
		w.close()
		h, err := Open(vkItem{}, w.table, "sqlite://"+w.path)
		if err != nil {
			return err
		}
		h.Database.SetMaxOpenConns(1)                    // one connection, so that the pragma below covers every statement
		_, _ = h.Database.Exec("PRAGMA synchronous=OFF") // durability is not part of C30; avoids an fsync per statement
		h.SetPrimaryKey("name")
		w.h = h
		w.opens++
	}
	w.h.Begin()
	if _, err := w.h.Database.Exec(`DROP TABLE IF EXISTS "` + w.table + `"`); err != nil {
		return err
	}
	return nil
}

func vkText(v any) string {
	switch x := v.(type) {
	case nil:
		return "<NULL>"
	case []byte:
		return string(x)
	case string:
		return x
	}
	return fmt.Sprint(v)
}

// project reads the table with plain SQL (not through the code under test).
func (w *vkWorld) project() map[string]any {
	rows, err := w.h.Database.Query(`SELECT "name","label","count","active","id","tags","info" FROM "` + w.table + `"`)
	if err != nil {
		if strings.Contains(err.Error(), "no such table") {
			return map[string]any{"created": false, "rows": []any{}}
		}
		return map[string]any{"created": "?" + err.Error(), "rows": []any{}}
	}
	defer rows.Close()
	out := []any{}
	for rows.Next() {
		var name, label, count, active, id, tags, info any
		if err := rows.Scan(&name, &label, &count, &active, &id, &tags, &info); err != nil {
			out = append(out, "?"+err.Error())
			continue
		}
		var n int64
		switch x := count.(type) {
		case int64:
			n = x
		default:
			out = append(out, fmt.Sprintf("?count stored as %T %v", count, count))
			continue
		}
		var b bool
		switch x := active.(type) {
		case bool:
			b = x
		case int64:
			if x != 0 && x != 1 {
				out = append(out, fmt.Sprintf("?active stored as %v", x))
				continue
			}
			b = x == 1
		default:
			out = append(out, fmt.Sprintf("?active stored as %T %v", active, active))
			continue
		}
		out = append(out, w.c.abstract(vkText(name), vkText(label), n, b, vkText(id), vkText(tags), vkText(info)))
	}
	return map[string]any{"created": true, "rows": out}
}

func vkReply(err error) string {
	switch {
	case err == nil:
		return "ok"
	case egoerrors.Equals(err, egoerrors.ErrNotFound):
		return "notfound"
	}
	return "error"
}

func (w *vkWorld) filters(fs []any) ([]*Filter, error) {
	out := []*Filter{}
	for _, e := range fs {
		f, ok := e.(map[string]any)
		if !ok {
			return nil, fmt.Errorf("filter entry %v", e)
		}
		col, op := vkStr(f, "col"), vkStr(f, "op")
		if col == "-" {
			out = append(out, nil) // the caller's "no filter"
			continue
		}
		var (
			name string
			val  any
			err  error
		)
		if col == "zz" {
			name, val = w.c.badName, "x"
		} else {
			name = w.c.colName[col]
			if val, err = w.c.value(col, vkInt(f, "v")); err != nil {
				return nil, err
			}
		}
		switch op {
		case "eq":
			out = append(out, w.h.Equals(name, val))
		case "ne":
			out = append(out, w.h.NotEquals(name, val))
		case "lt":
			out = append(out, w.h.LessThan(name, val))
		case "gt":
			out = append(out, w.h.GreaterThan(name, val))
		default:
			return nil, fmt.Errorf("operator %q", op)
		}
	}
	return out, nil
}

type vkObs struct {
	reply string
	out   []any
	n     int
}

// call executes one spec action on the real handle.  Every operation starts with Begin(), the documented way to
// start a chain of operations on a handle (it clears the deferred error state).
func (w *vkWorld) call(call map[string]any) (vkObs, error) {
	obs := vkObs{out: []any{}}
	act := vkStr(call, "act")
	fsIn, _ := call["fs"].([]any)
	rec, _ := call["rec"].(map[string]any)
	w.h.Begin()
	switch act {
	case "CreateIf":
		obs.reply = vkReply(w.h.CreateIf())
	case "Insert":
		it, err := w.c.item(rec)
		if err != nil {
			return obs, err
		}
		if vkInt(call, "_ptr") == 1 {
			obs.reply = vkReply(w.h.Insert(&it))
		} else {
			obs.reply = vkReply(w.h.Insert(it))
		}
	case "Read":
		fs, err := w.filters(fsIn)
		if err != nil {
			return obs, err
		}
		res, rerr := w.h.Read(fs...)
		obs.reply = vkReply(rerr)
		for _, r := range res {
			obs.out = append(obs.out, w.c.abstractItem(r))
		}
	case "ReadOne":
		key, err := w.c.value("k", vkInt(call, "key"))
		if err != nil {
			return obs, err
		}
		res, rerr := w.h.ReadOne(key)
		obs.reply = vkReply(rerr)
		if res != nil {
			obs.out = append(obs.out, w.c.abstractItem(res))
		}
	case "Update":
		it, err := w.c.item(rec)
		if err != nil {
			return obs, err
		}
		fs, err := w.filters(fsIn)
		if err != nil {
			return obs, err
		}
		obs.reply = vkReply(w.h.Update(it, fs...))
	case "UpdateOne":
		it, err := w.c.item(rec)
		if err != nil {
			return obs, err
		}
		obs.reply = vkReply(w.h.UpdateOne(it))
	case "Delete":
		fs, err := w.filters(fsIn)
		if err != nil {
			return obs, err
		}
		n, derr := w.h.Delete(fs...)
		obs.reply, obs.n = vkReply(derr), int(n)
	case "DeleteOne":
		key, err := w.c.value("k", vkInt(call, "key"))
		if err != nil {
			return obs, err
		}
		obs.reply = vkReply(w.h.DeleteOne(key))
	default:
		return obs, fmt.Errorf("unknown action %q", act)
	}
	return obs, nil
}

func vkActClass(call map[string]any) string {
	cls, _ := call["cls"].([]any)
	parts := make([]string, len(cls))
	for i, c := range cls {
		parts[i] = fmt.Sprint(c)
	}
	return vkStr(call, "act") + "[" + strings.Join(parts, ",") + "]"
}

// compare one executed step with TLC's record of it; returns the first differing path.
func vkCompare(call map[string]any, wantSt any, obs vkObs, gotSt any) (string, string, string) {
	allowed, _ := call["reply"].([]any)
	ok := false
	for _, a := range allowed {
		if fmt.Sprint(a) == obs.reply {
			ok = true
		}
	}
	if !ok {
		return ".reply", vkJSON(allowed), vkJSON(obs.reply)
	}
	asSet := func(string) bool { return true }
	if p, _, _ := vkDiff(".out", call["out"], obs.out, asSet); p != "" {
		return ".out", vkJSON(vkNorm(call["out"])), vkJSON(vkNorm(obs.out))
	}
	if vkInt(call, "n") != obs.n {
		return ".n", vkStr(call, "n"), fmt.Sprint(obs.n)
	}
	if p, _, _ := vkDiff(".st", wantSt, gotSt, asSet); p != "" {
		w, _ := wantSt.(map[string]any)
		g, _ := gotSt.(map[string]any)
		if vkJSON(vkNorm(w["created"])) != vkJSON(vkNorm(g["created"])) {
			return ".st.created", vkJSON(w["created"]), vkJSON(g["created"])
		}
		return ".st.rows", vkJSON(vkNorm(w["rows"])), vkJSON(vkNorm(g["rows"]))
	}
	return "", "", ""
}

func TestVerifResourcesReplay(t *testing.T) {
	in, out := vkEnv("VERIF_IN", ""), vkEnv("VERIF_OUT", "")
	if in == "" || out == "" {
		t.Skip("VERIF_IN/VERIF_OUT not set")
	}
	dir := vkEnv("VERIF_DBDIR", filepath.Dir(out))
	seed := int64(vkEnvInt("VERIF_SEED", 1))
	w := &vkWorld{path: filepath.Join(dir, fmt.Sprintf("c30-%d.db", os.Getpid())), table: "vk_items"}
	defer func() {
		w.close()
		for _, sfx := range []string{"", "-wal", "-shm"} {
			_ = os.Remove(w.path + sfx)
		}
	}()
	res := vkResult{ActCounts: map[string]int{}, Extra: map[string]any{}}
	seenTr := map[string]bool{}
	nontrivial := map[string]bool{}
	maxMis := vkEnvInt("VERIF_MAXMIS", 400)
	perKey := map[string]int{}
	bad := []int{} // indices of behaviours with a mismatch

	record := func(bi, si int, call map[string]any, path, want, got string, prefix []any) {
		act := vkActClass(call)
		k := act + path
		if len(bad) == 0 || bad[len(bad)-1] != bi {
			bad = append(bad, bi)
		}
		perKey[k]++
		if perKey[k] > 3 { // keep a few witnesses per abstract case, count the rest
			return
		}
		res.Mismatches = append(res.Mismatches, vkMismatch{bi, si, act, path, want, got, prefix})
	}
	// step executes one call and compares; returns false when the behaviour must be abandoned.
	step := func(bi, si int, call map[string]any, wantSt any, prev string, prefix []any) (bool, string) {
		if si%2 == 1 {
			call["_ptr"] = 1 // alternate struct / pointer-to-struct arguments
		}
		obs, err := w.call(call)
		delete(call, "_ptr")
		if err != nil {
			t.Fatalf("behaviour %d step %d: cannot execute %v: %v", bi, si, call, err)
		}
		got := w.project()
		res.Steps++
		act := vkActClass(call)
		res.ActCounts[act]++
		seenTr[prev+"|"+vkCanon(call)] = true
		if len(obs.out) > 0 || obs.n > 0 || vkCanon(wantSt) != prev {
			nontrivial[prev+"|"+vkCanon(call)] = true
		}
		if p, want, g := vkCompare(call, wantSt, obs, got); p != "" {
			record(bi, si, call, p, want, g, prefix)
			return false, ""
		}
		return true, vkCanon(wantSt)
	}

	bi := vkEnvInt("VERIF_BI0", 0) // index of the first behaviour (a replay file re-runs one behaviour under its original index)
	curPre := "" // canonical text of the state the world is known to be in ("" = unknown)
	err := vkLoadLines(in, func(b []byte) error {
		defer func() { bi++ }()
		if len(perKey) > maxMis {
			return nil
		}
		d := json.NewDecoder(bytes.NewReader(b))
		d.UseNumber()
		isWalk := bytes.HasPrefix(bytes.TrimSpace(b), []byte("["))
		isIndexed := bytes.HasPrefix(bytes.TrimSpace(b), []byte(`{"bi":`)) // a walk re-run under its original index (same concretisation)
		if isWalk || isIndexed {
			var steps []vkStep
			if isIndexed {
				var iw struct {
					Bi    int      `json:"bi"`
					Steps []vkStep `json:"steps"`
				}
				if err := d.Decode(&iw); err != nil {
					return err
				}
				steps = iw.Steps
				saved := bi
				bi = iw.Bi
				defer func() { bi = saved }()
			} else if err := d.Decode(&steps); err != nil {
				return err
			}
			w.c = vkNewConc(rand.New(rand.NewSource(seed*1000003 + int64(bi))))
			if err := w.reset(res.Behaviours%8 == 0); err != nil {
				return err
			}
			curPre = ""
			prev := "init"
			var prefix []any
			for si, s := range steps {
				prefix = append(prefix, map[string]any{"call": s.Call, "st": s.St})
				ok, nxt := step(bi, si, s.Call, s.St, prev, prefix)
				if !ok {
					break // state diverged; the rest of this behaviour is meaningless
				}
				prev = nxt
			}
			res.Behaviours++
			return nil
		}
		var tr struct {
			Pre  map[string]any `json:"pre"`
			Call map[string]any `json:"call"`
			St   any            `json:"st"`
		}
		if err := d.Decode(&tr); err != nil {
			return err
		}
		pre := vkCanon(tr.Pre)
		if curPre != pre || bi%64 == 0 {
			// bring the real store into the state TLC calls "pre" by real calls, and check that it got there
			w.c = vkNewConc(rand.New(rand.NewSource(seed*1000003 + int64(bi))))
			if err := w.reset(w.resets%200 == 0); err != nil {
				return err
			}
			if fmt.Sprint(tr.Pre["created"]) == "true" {
				if err := w.h.CreateIf(); err != nil {
					return fmt.Errorf("setup CreateIf: %v", err)
				}
				rows, _ := tr.Pre["rows"].([]any)
				for _, r := range rows {
					it, err := w.c.item(r.(map[string]any))
					if err != nil {
						return err
					}
					if err := w.h.Begin().Insert(it); err != nil {
						return fmt.Errorf("setup Insert: %v", err)
					}
				}
			}
			if p, _, _ := vkDiff(".st", any(tr.Pre), w.project(), func(string) bool { return true }); p != "" {
				record(bi, 0, map[string]any{"act": "Setup"}, ".st.rows", vkCanon(tr.Pre), vkCanon(w.project()), nil)
				curPre = ""
				res.Behaviours++
				return nil
			}
			curPre = pre
		}
		ok, nxt := step(bi, 0, tr.Call, tr.St, pre, []any{map[string]any{"pre": tr.Pre, "call": tr.Call, "st": tr.St}})
		if ok {
			curPre = nxt
		} else {
			curPre = ""
		}
		res.Behaviours++
		return nil
	})
	if err != nil {
		t.Fatal(err)
	}
	res.Transitions = len(seenTr)
	res.Extra["nontrivial"] = len(nontrivial)
	res.Extra["mismatch_counts"] = perKey
	res.Extra["bad_behaviours"] = bad
	res.Extra["resets"], res.Extra["opens"] = w.resets, w.opens
	if err := vkWriteResult(out, res); err != nil {
		t.Fatal(err)
	}
}

package authserver

// Binding R for spec/RateLimit (property C24), second front door: the OAuth2
// authorization-server login form (POST /oauth2/authorize) shares the limiter
// of internal/router with the native logon path.  Time-free behaviours of the
// specification (attempts and reconfiguration only - this package cannot age
// the router's private records) are replayed with every attempt presented at
// one of the two doors, and what the client saw (refused / denied / ok) plus
// "was the credential store consulted" is compared with what TLC computed.

import (
	"fmt"
	"hash/fnv"
	"net/http"
	"net/http/httptest"
	"net/url"
	"sort"
	"strconv"
	"strings"
	"sync"
	"testing"
	"time"

	"github.com/tucats/ego/internal/cli/settings"
	"github.com/tucats/ego/internal/defs"
	"github.com/tucats/ego/internal/router"
	"github.com/tucats/ego/internal/server/auth"
	"golang.org/x/crypto/bcrypt"
)

const vkDoorTick = 5 * time.Minute

type vkDoorIO interface {
	ReadUser(session int, name string, doNotLog bool) (defs.User, error)
	WriteUser(session int, user defs.User) error
	DeleteUser(session int, name string) error
	ListUsers(suppressPasswords bool) map[string]defs.User
	Flush() error
	Close() error
}

type vkDoorStore struct {
	inner vkDoorIO
	mu    sync.Mutex
	reads map[string]int
}

func (s *vkDoorStore) ReadUser(session int, name string, doNotLog bool) (defs.User, error) {
	s.mu.Lock()
	s.reads[strings.ToLower(name)]++
	s.mu.Unlock()

	return s.inner.ReadUser(session, name, doNotLog)
}
func (s *vkDoorStore) WriteUser(session int, user defs.User) error { return s.inner.WriteUser(session, user) }
func (s *vkDoorStore) DeleteUser(session int, name string) error   { return s.inner.DeleteUser(session, name) }
func (s *vkDoorStore) ListUsers(b bool) map[string]defs.User       { return s.inner.ListUsers(b) }
func (s *vkDoorStore) Flush() error                                { return s.inner.Flush() }
func (s *vkDoorStore) Close() error                                { return s.inner.Close() }
func (s *vkDoorStore) take(name string) int {
	s.mu.Lock()
	defer s.mu.Unlock()
	n := s.reads[name]
	s.reads = map[string]int{}

	return n
}

const (
	vkDoorClient   = "vkapp"
	vkDoorRedirect = "https://vk.example.com/cb"
)

type vkDoorWorld struct {
	store *vkDoorStore
	mux   *router.Router
	users []string
}

func vkDoorRightPw(u string) string { return "right-" + u + "-pw" }

func vkDoorSetup(users []string) (*vkDoorWorld, error) {
	svc, err := auth.NewFileService("memory", "admin", "password")
	if err != nil {
		return nil, err
	}
	w := &vkDoorWorld{store: &vkDoorStore{inner: svc, reads: map[string]int{}}, users: users}
	auth.AuthService = w.store
	for _, u := range users {
		h, err := bcrypt.GenerateFromPassword([]byte(vkDoorRightPw(u)), bcrypt.MinCost)
		if err != nil {
			return nil, err
		}
		if err := svc.WriteUser(0, defs.User{Name: u, Password: string(h), Permissions: []string{defs.LogonPermission}}); err != nil {
			return nil, err
		}
	}
	clients = []OAuthClient{{
		ClientID:     vkDoorClient,
		RedirectURIs: []string{vkDoorRedirect},
		GrantTypes:   []string{"authorization_code"},
		Scopes:       []string{"openid"},
	}}
	w.mux = router.NewRouter("verif-c24-doors")
	// registered exactly as RegisterRoutes does
	w.mux.New(defs.OAuthAuthorizePath, AuthorizePostHandler, http.MethodPost).Class(router.ServiceRequestCounter)
	w.mux.New("/services/vk/ping", func(session *router.Session, rw http.ResponseWriter, r *http.Request) int {
		rw.WriteHeader(http.StatusOK)

		return http.StatusOK
	}, http.MethodGet).Authentication(true)

	return w, nil
}

func vkDoorConfigure(l, d int) {
	switch {
	case l == 99:
		settings.DeleteDefault(defs.AuthMaxAttemptsSetting)
	case l == 98:
		settings.SetDefault(defs.AuthMaxAttemptsSetting, "-2")
	default:
		settings.SetDefault(defs.AuthMaxAttemptsSetting, strconv.Itoa(l))
	}
	switch {
	case d == 99:
		settings.DeleteDefault(defs.AuthLockoutDurationSetting)
	case d == 0:
		settings.SetDefault(defs.AuthLockoutDurationSetting, "0s")
	default:
		settings.SetDefault(defs.AuthLockoutDurationSetting, (time.Duration(d) * vkDoorTick).String())
	}
}

// vkDoorReset forgets every record a previous behaviour may have left (any spelling used here).
func (w *vkDoorWorld) reset() {
	for _, u := range w.users {
		router.RecordSuccess(u)
		router.RecordSuccess(strings.ToUpper(u))
	}
}

type vkDoorVariant struct {
	Door  string // "oauth": the authorization-server login form; "basic": Authorization header at the native router
	Upper bool
}

func vkDoorPick(seed, bi, si int) vkDoorVariant {
	h := fnv.New32a()
	fmt.Fprintf(h, "door/%d/%d/%d", seed, bi, si)
	x := h.Sum32()
	v := vkDoorVariant{Door: "oauth"}
	if x%3 == 1 {
		v.Door = "basic"
	}
	if (x>>8)%4 == 2 {
		v.Upper = true
	}

	return v
}

type vkDoorSeen struct {
	Reply    string
	Verified bool
}

func (w *vkDoorWorld) attempt(u, pw string, v vkDoorVariant) vkDoorSeen {
	name := u
	if v.Upper {
		name = strings.ToUpper(u)
	}
	pass := "wrong-" + u
	if pw == "right" {
		pass = vkDoorRightPw(u)
	}
	w.store.take("")
	rec := httptest.NewRecorder()
	seen := vkDoorSeen{}
	if v.Door == "basic" {
		r := httptest.NewRequest(http.MethodGet, "/services/vk/ping", nil)
		r.SetBasicAuth(name, pass)
		r.Header.Set("Accept", "application/json")
		w.mux.ServeHTTP(rec, r)
		switch rec.Code {
		case http.StatusTooManyRequests:
			seen.Reply = "refused"
		case http.StatusOK:
			seen.Reply = "ok"
		case http.StatusForbidden:
			seen.Reply = "denied"
		default:
			seen.Reply = fmt.Sprintf("status:%d", rec.Code)
		}
	} else {
		form := url.Values{}
		form.Set("client_id", vkDoorClient)
		form.Set("redirect_uri", vkDoorRedirect)
		form.Set("scope", "openid")
		form.Set("state", "s1")
		form.Set("code_challenge", "E9Melhoa2OwvFrEMTJguCHaoeK1t8URWbuGJSstw-cM")
		form.Set("code_challenge_method", "S256")
		form.Set("username", name)
		form.Set("password", pass)
		form.Set("csrf_token", "vk-csrf-nonce")
		r := httptest.NewRequest(http.MethodPost, defs.OAuthAuthorizePath, strings.NewReader(form.Encode()))
		r.Header.Set("Content-Type", "application/x-www-form-urlencoded")
		r.AddCookie(&http.Cookie{Name: csrfCookieName, Value: "vk-csrf-nonce"})
		w.mux.ServeHTTP(rec, r)
		body := rec.Body.String()
		switch {
		case rec.Code == http.StatusFound && strings.Contains(rec.Header().Get("Location"), "code="):
			seen.Reply = "ok"
		case rec.Code == http.StatusOK && strings.Contains(body, "Account temporarily locked"):
			seen.Reply = "refused"
		case rec.Code == http.StatusOK && strings.Contains(body, "Invalid username or password"):
			seen.Reply = "denied"
		default:
			seen.Reply = fmt.Sprintf("status:%d", rec.Code)
		}
	}
	seen.Verified = w.store.take(u) > 0

	return seen
}

func TestVerifRateLimitDoors(t *testing.T) {
	in, out := vkEnv("VERIF_IN", ""), vkEnv("VERIF_OUT", "")
	if in == "" || out == "" {
		t.Skip("VERIF_IN/VERIF_OUT not set")
	}
	seed := vkEnvInt("VERIF_SEED", 1)
	onlyLower := vkEnv("VERIF_LOWER", "") != ""
	bs, err := vkLoadBehaviours(in)
	if err != nil {
		t.Fatal(err)
	}
	if len(bs) == 0 {
		t.Fatal("no behaviours")
	}
	users := []string{}
	if st, ok := bs[0][0].St.(map[string]any); ok {
		for n := range st {
			users = append(users, n)
		}
	}
	sort.Strings(users)
	w, err := vkDoorSetup(users)
	if err != nil {
		t.Fatal(err)
	}
	res := vkResult{ActCounts: map[string]int{}, Extra: map[string]any{}}
	seenTr := map[string]bool{}
	variants := map[string]int{}
	replies := map[string]int{}
	started := time.Now() // the router's background scan wakes every 5 real minutes; the check distrusts a run that long
	for bi, steps := range bs {
		prev := "init"
		upperSeen := false // an earlier attempt of this behaviour spelled a name in upper case at the OAuth door
		for si, s := range steps {
			act := vkStr(s.Call, "act")
			v := vkDoorPick(seed, bi, si)
			if onlyLower {
				v.Upper = false
			}
			if act == "Attempt" && v.Upper && v.Door == "oauth" {
				upperSeen = true
			}
			got := vkDoorSeen{}
			switch act {
			case "Init":
				w.reset()
				vkDoorConfigure(vkInt(s.Call, "l"), vkInt(s.Call, "d"))
			case "Configure":
				vkDoorConfigure(vkInt(s.Call, "l"), vkInt(s.Call, "d"))
			case "Attempt":
				got = w.attempt(vkStr(s.Call, "u"), vkStr(s.Call, "pw"), v)
				variants[fmt.Sprintf("%s/upper=%v", v.Door, v.Upper)]++
				replies[v.Door+"/"+got.Reply]++
			default:
				t.Fatalf("behaviour %d step %d: action %q cannot be driven from this package", bi, si, act)
			}
			res.Steps++
			res.ActCounts[act]++
			seenTr[prev+"|"+vkCanon(map[string]any{"a": act, "u": vkStr(s.Call, "u"), "pw": vkStr(s.Call, "pw"),
				"l": vkStr(s.Call, "l"), "d": vkStr(s.Call, "d"), "door": v.Door})] = true
			wantV, _ := s.Call["verified"].(bool)
			var mm *vkMismatch
			switch {
			case got.Reply != vkStr(s.Call, "reply"):
				mm = &vkMismatch{bi, si, act, "reply", vkStr(s.Call, "reply"), got.Reply, nil}
			case got.Verified != wantV:
				mm = &vkMismatch{bi, si, act, "verified", fmt.Sprint(wantV), fmt.Sprint(got.Verified), nil}
			}
			if mm != nil {
				for _, ps := range steps[:si+1] {
					mm.Prefix = append(mm.Prefix, ps.Call)
				}
				mm.Prefix = append(mm.Prefix, map[string]any{"variant": map[string]any{"Channel": v.Door, "Upper": v.Upper, "UpperSeen": upperSeen}})
				res.Mismatches = append(res.Mismatches, *mm)

				break
			}
			prev = vkCanon(s.St)
		}
		res.Behaviours++
		if len(res.Mismatches) >= 200 {
			break
		}
	}
	res.Transitions = len(seenTr)
	res.Extra["wall_s"] = time.Since(started).Seconds()
	res.Extra["variants"] = variants
	res.Extra["replies"] = replies
	if err := vkWriteResult(out, res); err != nil {
		t.Fatal(err)
	}
}

package router

// Binding R for spec/RateLimit (property C24): replays TLC behaviours through
// the real router (ServeHTTP -> Session.Authenticate -> CheckRateLimit /
// ValidatePassword / RecordFailure / RecordSuccess) and compares, after every
// step, what the client saw and the projected limiter state with what TLC
// computed.  Nothing here knows the lockout rules.
//
// Time is virtual: one tick = 5 minutes; a Tick ages every stored instant
// (lastFailure, lockedUntil) by one tick instead of sleeping.  The background
// scan goroutine is never started (its sync.Once is consumed by the harness), so
// pruning only happens when the behaviour says Prune (pruneLoginAttempts is called).
//
// "password verification ran" is observed by wrapping the credential store:
// a refused attempt must not read the user record at all.

import (
	"bytes"
	"encoding/json"
	"fmt"
	"hash/fnv"
	"net/http"
	"net/http/httptest"
	"sort"
	"strconv"
	"strings"
	"sync"
	"testing"
	"time"

	"github.com/tucats/ego/internal/cli/settings"
	"github.com/tucats/ego/internal/defs"
	"github.com/tucats/ego/internal/server/auth"
	"golang.org/x/crypto/bcrypt"
)

const vkTick = 5 * time.Minute

// the method set of auth's (unexported) service interface
type vkAuthIO interface {
	ReadUser(session int, name string, doNotLog bool) (defs.User, error)
	WriteUser(session int, user defs.User) error
	DeleteUser(session int, name string) error
	ListUsers(suppressPasswords bool) map[string]defs.User
	Flush() error
	Close() error
}

// vkCountingStore forwards everything to the real store and counts reads per user name.
type vkCountingStore struct {
	inner     vkAuthIO
	mu        sync.Mutex
	reads     map[string]int
	first     time.Time // instant of the first read since the last take()
	lastFirst time.Time // ... of the window closed by the last take()
}

func (s *vkCountingStore) ReadUser(session int, name string, doNotLog bool) (defs.User, error) {
	s.mu.Lock()
	if s.first.IsZero() {
		s.first = time.Now()
	}
	s.reads[strings.ToLower(name)]++
	s.mu.Unlock()

	return s.inner.ReadUser(session, name, doNotLog)
}
func (s *vkCountingStore) WriteUser(session int, user defs.User) error {
	return s.inner.WriteUser(session, user)
}
func (s *vkCountingStore) DeleteUser(session int, name string) error {
	return s.inner.DeleteUser(session, name)
}
func (s *vkCountingStore) ListUsers(b bool) map[string]defs.User { return s.inner.ListUsers(b) }
func (s *vkCountingStore) Flush() error                          { return s.inner.Flush() }
func (s *vkCountingStore) Close() error                          { return s.inner.Close() }

func (s *vkCountingStore) take(name string) int {
	s.mu.Lock()
	defer s.mu.Unlock()
	n := s.reads[name]
	s.reads = map[string]int{}
	s.lastFirst, s.first = s.first, time.Time{}

	return n
}

type vkRLWorld struct {
	store *vkCountingStore
	mux   *Router
	users []string
}

func vkRightPw(u string) string { return "right-" + u + "-pw" }

// vkRLSetup installs the counting store, the accounts and two authenticated routes.
func vkRLSetup(users []string) (*vkRLWorld, error) {
	inner, ok := any(auth.AuthService).(vkAuthIO)
	if !ok || inner == nil {
		return nil, fmt.Errorf("no auth service installed by TestMain")
	}
	if cs, isCounting := inner.(*vkCountingStore); isCounting {
		inner = cs.inner
	}
	w := &vkRLWorld{store: &vkCountingStore{inner: inner, reads: map[string]int{}}, users: users}
	auth.AuthService = w.store
	for _, u := range users {
		h, err := bcrypt.GenerateFromPassword([]byte(vkRightPw(u)), bcrypt.MinCost)
		if err != nil {
			return nil, err
		}
		if err := inner.WriteUser(0, defs.User{Name: u, Password: string(h), Permissions: []string{defs.LogonPermission}}); err != nil {
			return nil, err
		}
	}
	// Park the background scan: its goroutine is started once, by the first CheckRateLimit/RecordFailure, and
	// prunes every 5 REAL minutes - in a long (or starved) run it would forget aged records behind the
	// behaviour's back.  Consuming the Once here means it never starts; Prune steps call pruneLoginAttempts.
	scanOnce.Do(func() {})
	InitializeValidations() // "@credentials", for the credentials-in-body channel
	w.mux = NewRouter("verif-c24")
	ok200 := func(session *Session, rw http.ResponseWriter, r *http.Request) int {
		rw.WriteHeader(http.StatusOK)
		_, _ = rw.Write([]byte(`{"user":"` + session.User + `"}`))

		return http.StatusOK
	}
	w.mux.New("/services/vk/ping", ok200, http.MethodGet).Authentication(true)
	w.mux.New("/services/vk/logon", ok200, http.MethodPost).Authentication(true).Credentials(true)

	return w, nil
}

func vkRLReset() {
	loginAttemptsMu.Lock()
	loginAttempts = map[string]*loginRecord{}
	loginAttemptsMu.Unlock()
	settings.DeleteDefault(defs.AuthMaxAttemptsSetting)
	settings.DeleteDefault(defs.AuthLockoutDurationSetting)
}

// vkRLConfigure installs the settings exactly as an administrator would spell them.
//
//	limit:  n >= 0 the number; 99 not set; 98 a negative number
//	lockout: n > 0 ticks as a duration string; 99 not set; 0 "0s" (not a positive duration)
func vkRLConfigure(l, d int) {
	switch {
	case l == 99:
		settings.DeleteDefault(defs.AuthMaxAttemptsSetting)
	case l == 98:
		settings.SetDefault(defs.AuthMaxAttemptsSetting, "-2")
	default:
		settings.SetDefault(defs.AuthMaxAttemptsSetting, strconv.Itoa(l))
	}
	switch {
	case d == 99:
		settings.DeleteDefault(defs.AuthLockoutDurationSetting)
	case d == 0:
		settings.SetDefault(defs.AuthLockoutDurationSetting, "0s")
	default:
		settings.SetDefault(defs.AuthLockoutDurationSetting, (time.Duration(d) * vkTick).String())
	}
}

// vkRLAge lets one tick of virtual time pass.
func vkRLAge() {
	loginAttemptsMu.Lock()
	defer loginAttemptsMu.Unlock()
	for _, r := range loginAttempts {
		if !r.lastFailure.IsZero() {
			r.lastFailure = r.lastFailure.Add(-vkTick)
		}
		if !r.lockedUntil.IsZero() {
			r.lockedUntil = r.lockedUntil.Add(-vkTick)
		}
	}
}

func vkRound(d time.Duration) int {
	if d <= 0 {
		return 0
	}

	return int((d + vkTick/2) / vkTick)
}

// vkRLProject: the limiter's map in the spec's vocabulary (times relative to now, in ticks).
// Records under names the behaviour does not know appear too (and are then a mismatch).
func vkRLProject(users []string) map[string]any {
	loginAttemptsMu.Lock()
	defer loginAttemptsMu.Unlock()
	now := time.Now()
	out := map[string]any{}
	for _, u := range users {
		out[u] = map[string]any{"on": false, "failures": 0, "lockedFor": 0, "sinceFail": 0}
	}
	for name, r := range loginAttempts {
		lf, sf := 0, 0
		if !r.lockedUntil.IsZero() {
			lf = vkRound(r.lockedUntil.Sub(now))
		}
		if !r.lastFailure.IsZero() {
			sf = vkRound(now.Sub(r.lastFailure))
		}
		out[name] = map[string]any{"on": true, "failures": r.failures, "lockedFor": lf, "sinceFail": sf}
	}

	return out
}

// vkVariant chooses HOW an abstract attempt is presented (never what is expected of it).
type vkVariant struct {
	Channel string // "basic": Authorization header on GET; "body": credentials JSON on POST
	Upper   bool   // user name spelled in upper case
}

func vkPickVariant(seed, bi, si int) vkVariant {
	h := fnv.New32a()
	fmt.Fprintf(h, "%d/%d/%d", seed, bi, si)
	x := h.Sum32()
	v := vkVariant{Channel: "basic"}
	if x%4 == 1 {
		v.Channel = "body"
	}
	if (x>>8)%5 == 2 {
		v.Upper = true
	}

	return v
}

type vkSeen struct {
	Reply     string `json:"reply"`
	Verified  bool   `json:"verified"`
	Retry     int    `json:"retry"`      // Retry-After in ticks (rounded)
	RetrySecs int    `json:"retry_secs"` // Retry-After as sent
}

// vkRLAttempt performs one login attempt against the real router.
func (w *vkRLWorld) attempt(u, pw string, v vkVariant) vkSeen {
	name := u
	if v.Upper {
		name = strings.ToUpper(u)
	}
	pass := "wrong-" + u
	if pw == "right" {
		pass = vkRightPw(u)
	}
	var r *http.Request
	if v.Channel == "body" {
		b, _ := json.Marshal(map[string]string{"username": name, "password": pass})
		r = httptest.NewRequest(http.MethodPost, "/services/vk/logon", bytes.NewReader(b))
		r.Header.Set("Content-Type", "application/json")
	} else {
		r = httptest.NewRequest(http.MethodGet, "/services/vk/ping", nil)
		r.SetBasicAuth(name, pass)
	}
	r.Header.Set("Accept", "application/json")
	w.store.take("")
	rec := httptest.NewRecorder()
	w.mux.ServeHTTP(rec, r)
	reads := w.store.take(u)
	seen := vkSeen{Verified: reads > 0}
	switch rec.Code {
	case http.StatusTooManyRequests:
		seen.Reply = "refused"
		secs, err := strconv.Atoi(rec.Header().Get("Retry-After"))
		if err != nil {
			seen.Retry = -1
		} else {
			seen.Retry = vkRound(time.Duration(secs) * time.Second)
			seen.RetrySecs = secs
		}
	case http.StatusOK:
		seen.Reply = "ok"
	case http.StatusForbidden:
		seen.Reply = "denied"
	default:
		seen.Reply = fmt.Sprintf("status:%d", rec.Code)
	}

	return seen
}

// step executes one spec step; returns what was observed in the vocabulary of the spec's `last`.
func (w *vkRLWorld) step(call map[string]any, v vkVariant) (vkSeen, error) {
	switch vkStr(call, "act") {
	case "Init":
		vkRLReset()
		vkRLConfigure(vkInt(call, "l"), vkInt(call, "d"))

		return vkSeen{}, nil
	case "Configure":
		vkRLConfigure(vkInt(call, "l"), vkInt(call, "d"))

		return vkSeen{}, nil
	case "Tick":
		vkRLAge()

		return vkSeen{}, nil
	case "Prune":
		loginAttemptsMu.Lock()
		before := len(loginAttempts)
		loginAttemptsMu.Unlock()
		pruneLoginAttempts()
		loginAttemptsMu.Lock()
		after := len(loginAttempts)
		loginAttemptsMu.Unlock()

		return vkSeen{Retry: before - after}, nil
	case "Attempt":
		return w.attempt(vkStr(call, "u"), vkStr(call, "pw"), v), nil
	}

	return vkSeen{}, fmt.Errorf("unknown action %q", vkStr(call, "act"))
}

func vkWantSeen(call map[string]any) vkSeen {
	b, _ := call["verified"].(bool)

	return vkSeen{Reply: vkStr(call, "reply"), Verified: b, Retry: vkInt(call, "retry")}
}

func vkUsersOf(steps []vkStep) []string {
	us := []string{}
	if len(steps) > 0 {
		if st, ok := steps[0].St.(map[string]any); ok {
			for n := range st {
				us = append(us, n)
			}
		}
	}
	sort.Strings(us)

	return us
}

func TestVerifRateLimitReplay(t *testing.T) {
	in, out := vkEnv("VERIF_IN", ""), vkEnv("VERIF_OUT", "")
	if in == "" || out == "" {
		t.Skip("VERIF_IN/VERIF_OUT not set")
	}
	seed := vkEnvInt("VERIF_SEED", 1)
	plain := vkEnv("VERIF_PLAIN", "") != "" // no presentation variants
	bs, err := vkLoadBehaviours(in)
	if err != nil {
		t.Fatal(err)
	}
	if len(bs) == 0 {
		t.Fatal("no behaviours")
	}
	w, err := vkRLSetup(vkUsersOf(bs[0]))
	if err != nil {
		t.Fatal(err)
	}
	res := vkResult{ActCounts: map[string]int{}, Extra: map[string]any{}}
	seenTr := map[string]bool{}
	variants := map[string]int{}
	replies := map[string]int{}
	for bi, steps := range bs {
		users := vkUsersOf(steps)
		prev := "init"
		for si, s := range steps {
			act := vkStr(s.Call, "act")
			if si == 0 && act != "Init" {
				t.Fatalf("behaviour %d does not start with Init", bi)
			}
			v := vkVariant{Channel: "basic"}
			if !plain {
				v = vkPickVariant(seed, bi, si)
			}
			got, err := w.step(s.Call, v)
			if err != nil {
				t.Fatal(err)
			}
			res.Steps++
			res.ActCounts[act]++
			if act == "Attempt" {
				variants[fmt.Sprintf("%s/upper=%v", v.Channel, v.Upper)]++
				replies[got.Reply]++
			}
			seenTr[prev+"|"+vkCanon(map[string]any{"a": act, "u": vkStr(s.Call, "u"), "pw": vkStr(s.Call, "pw"),
				"l": vkStr(s.Call, "l"), "d": vkStr(s.Call, "d")})] = true
			want := vkWantSeen(s.Call)
			state := vkRLProject(users)
			var mm *vkMismatch
			switch {
			case got.Reply != want.Reply:
				mm = &vkMismatch{bi, si, act, "reply", want.Reply, got.Reply, nil}
			case got.Verified != want.Verified:
				mm = &vkMismatch{bi, si, act, "verified", fmt.Sprint(want.Verified), fmt.Sprint(got.Verified), nil}
			case got.Retry != want.Retry:
				mm = &vkMismatch{bi, si, act, "retry", fmt.Sprint(want.Retry), fmt.Sprint(got.Retry), nil}
			default:
				if p, a, b := vkDiff("", s.St, state, nil); p != "" {
					mm = &vkMismatch{bi, si, act, p, a, b, nil}
				}
			}
			if mm != nil {
				for _, ps := range steps[:si+1] {
					mm.Prefix = append(mm.Prefix, ps.Call)
				}
				mm.Prefix = append(mm.Prefix, map[string]any{"variant": v, "real_state": state})
				res.Mismatches = append(res.Mismatches, *mm)

				break // state diverged; the rest of this behaviour is meaningless
			}
			prev = vkCanon(s.St)
		}
		res.Behaviours++
		if len(res.Mismatches) >= 200 {
			break
		}
	}
	res.Transitions = len(seenTr)
	res.Extra["variants"] = variants
	res.Extra["replies"] = replies
	if err := vkWriteResult(out, res); err != nil {
		t.Fatal(err)
	}
}

package router

// Binding R for spec/RateLimit_Edge (property C24): sub-tick instants around the
// lockout deadline ("refused ... until the lockout period has passed").
//
// The clock unit of these behaviours is one millisecond.  Virtual time only
// moves when the behaviour says so:
//   - at the start of every step the real time that elapsed since the end of the
//     previous step is cancelled (every stored instant is shifted forward by it);
//   - AdvanceTo(u, off) lets time pass until the REAL record of u has its
//     lockedUntil exactly off milliseconds away (all stored instants are shifted
//     by the same amount: that is what passing time means); while that record's
//     deadline stays what it was, every following step starts by re-placing it
//     exactly, so nothing drifts between placement and call;
//   - what cannot be cancelled is the time between the placement and the moment
//     the code reads the clock inside the call.  It is measured (first read of the
//     credential store for a checked attempt, end of the call otherwise); when the
//     deadline was ahead and closer than twice that delay, the step "overran its
//     margin": the limiter is restored from a snapshot and the step retried, and if
//     that keeps happening the behaviour is abandoned as inconclusive - never a
//     mismatch.
//
// Compared after every step: reply, "password verification ran", and per user
// on / failures / deadline still ahead (relative to the step's own instant).

import (
	"fmt"
	"testing"
	"time"

	"github.com/tucats/ego/internal/cli/settings"
	"github.com/tucats/ego/internal/defs"
)

type vkEdge struct {
	w       *vkRLWorld
	unit    time.Duration
	tick    time.Duration
	lastEnd time.Time // end of the previous step (real)
	anchor  struct {
		on    bool
		u     string
		off   time.Duration
		until time.Time // the record's deadline as placed (follows every shift)
	}
}

func (e *vkEdge) shiftAll(d time.Duration) {
	if d == 0 {
		return
	}
	loginAttemptsMu.Lock()
	for _, r := range loginAttempts {
		if !r.lastFailure.IsZero() {
			r.lastFailure = r.lastFailure.Add(d)
		}
		if !r.lockedUntil.IsZero() {
			r.lockedUntil = r.lockedUntil.Add(d)
		}
	}
	loginAttemptsMu.Unlock()
	if e.anchor.on {
		e.anchor.until = e.anchor.until.Add(d)
	}
}

func vkEdgeUntil(u string) (time.Time, bool) {
	loginAttemptsMu.Lock()
	defer loginAttemptsMu.Unlock()
	r, ok := loginAttempts[u]
	if !ok || r.lockedUntil.IsZero() {
		return time.Time{}, false
	}

	return r.lockedUntil, true
}

// begin starts a step: cancels the real time spent between steps and, while the anchored
// deadline is untouched, puts it back exactly where AdvanceTo placed it. Returns the step's instant.
func (e *vkEdge) begin() time.Time {
	now := time.Now()
	if !e.lastEnd.IsZero() {
		e.shiftAll(now.Sub(e.lastEnd))
	}
	if e.anchor.on {
		if t, ok := vkEdgeUntil(e.anchor.u); ok && t.Equal(e.anchor.until) {
			now = time.Now()
			e.shiftAll(now.Add(-e.anchor.off).Sub(t))
		} else {
			e.anchor.on = false // the code moved or dropped that deadline: nothing to hold any more
		}
	}
	e.lastEnd = now

	return now
}

func (e *vkEdge) end() { e.lastEnd = time.Now() }

type vkEdgeSnap struct {
	lastEnd time.Time
	anchor  struct {
		on    bool
		u     string
		off   time.Duration
		until time.Time
	}
	recs map[string]loginRecord
}

func (e *vkEdge) snapshot() vkEdgeSnap {
	loginAttemptsMu.Lock()
	defer loginAttemptsMu.Unlock()
	s := vkEdgeSnap{lastEnd: e.lastEnd, anchor: e.anchor, recs: map[string]loginRecord{}}
	for k, r := range loginAttempts {
		s.recs[k] = *r
	}

	return s
}

func (e *vkEdge) restore(s vkEdgeSnap) {
	loginAttemptsMu.Lock()
	loginAttempts = map[string]*loginRecord{}
	for k, r := range s.recs {
		c := r
		loginAttempts[k] = &c
	}
	loginAttemptsMu.Unlock()
	e.lastEnd, e.anchor = s.lastEnd, s.anchor // begin() then cancels everything that happened since the previous step ended
}

func (e *vkEdge) project(users []string, ref time.Time) map[string]any {
	loginAttemptsMu.Lock()
	defer loginAttemptsMu.Unlock()
	out := map[string]any{}
	for _, u := range users {
		out[u] = map[string]any{"on": false, "failures": 0, "locked": false}
	}
	for name, r := range loginAttempts {
		out[name] = map[string]any{"on": true, "failures": r.failures, "locked": r.lockedUntil.After(ref)}
	}

	return out
}

func (e *vkEdge) configure(l, d int) {
	switch {
	case l == 99:
		settings.DeleteDefault(defs.AuthMaxAttemptsSetting)
	case l == 98:
		settings.SetDefault(defs.AuthMaxAttemptsSetting, "-2")
	default:
		settings.SetDefault(defs.AuthMaxAttemptsSetting, fmt.Sprint(l))
	}
	switch {
	case d == 99:
		settings.DeleteDefault(defs.AuthLockoutDurationSetting)
	case d == 0:
		settings.SetDefault(defs.AuthLockoutDurationSetting, "0s")
	default:
		settings.SetDefault(defs.AuthLockoutDurationSetting, (time.Duration(d) * e.unit).String()) // "900ms", "1s", "5m0s"
	}
}

const vkEdgeTries = 12

func TestVerifRateLimitEdge(t *testing.T) {
	in, out := vkEnv("VERIF_IN", ""), vkEnv("VERIF_OUT", "")
	if in == "" || out == "" {
		t.Skip("VERIF_IN/VERIF_OUT not set")
	}
	seed := vkEnvInt("VERIF_SEED", 1)
	bs, err := vkLoadBehaviours(in)
	if err != nil {
		t.Fatal(err)
	}
	if len(bs) == 0 {
		t.Fatal("no behaviours")
	}
	w, err := vkRLSetup(vkUsersOf(bs[0]))
	if err != nil {
		t.Fatal(err)
	}
	e := &vkEdge{w: w, unit: time.Duration(vkEnvInt("VERIF_UNIT_US", 1000)) * time.Microsecond}
	e.tick = time.Duration(vkEnvInt("VERIF_TICK_UNITS", 300000)) * e.unit
	res := vkResult{ActCounts: map[string]int{}, Extra: map[string]any{}}
	seenTr := map[string]bool{}
	placed := map[string]int{}   // attempts executed while a deadline was held at this offset (conclusive ones)
	retried := 0                 // steps that overran their margin and were retried
	inconclusive := 0            // behaviours abandoned because a step kept overrunning
	var worst time.Duration      // largest delay between placement and the code's clock read in a conclusive step
	for bi, steps := range bs {
		users := vkUsersOf(steps)
		prev := "init"
		e.anchor.on = false
		e.lastEnd = time.Time{}
	behaviour:
		for si, s := range steps {
			act := vkStr(s.Call, "act")
			u := vkStr(s.Call, "u")
			var got vkSeen
			var ref time.Time
			held := ""
			switch act {
			case "Init":
				vkRLReset()
				e.configure(vkInt(s.Call, "l"), vkInt(s.Call, "d"))
				ref = time.Now()
				e.end()
			case "Configure":
				ref = e.begin()
				e.configure(vkInt(s.Call, "l"), vkInt(s.Call, "d"))
				e.end()
			case "Tick":
				ref = e.begin()
				e.anchor.on = false
				e.shiftAll(-e.tick)
				e.end()
			case "AdvanceTo":
				e.begin()
				e.anchor.on = false
				tu, ok := vkEdgeUntil(u)
				if !ok {
					// the model has a deadline for u and the real limiter has none: that is a divergence of the
					// previous steps' state and was (or will be) reported by the comparison; nothing to place
					ref = time.Now()
					e.end()

					break
				}
				off := time.Duration(vkInt(s.Call, "retry")) * e.unit
				ref = time.Now()
				e.shiftAll(ref.Add(-off).Sub(tu))
				e.anchor.on, e.anchor.u, e.anchor.off = true, u, off
				e.anchor.until, _ = vkEdgeUntil(u)
				e.end()
			case "Attempt", "Prune":
				v := vkPickVariant(seed, bi, si)
				for try := 1; ; try++ {
					snap := e.snapshot()
					ref = e.begin()
					ahead := time.Duration(1<<62 - 1) // how far ahead the nearest deadline is at the step's instant
					loginAttemptsMu.Lock()
					for _, r := range loginAttempts {
						if d := r.lockedUntil.Sub(ref); !r.lockedUntil.IsZero() && d > 0 && d < ahead {
							ahead = d
						}
					}
					before := len(loginAttempts)
					loginAttemptsMu.Unlock()
					if e.anchor.on {
						held = fmt.Sprint(int(e.anchor.off / e.unit))
					}
					var read time.Time
					if act == "Attempt" {
						got = w.attempt(u, vkStr(s.Call, "pw"), v)
						read = w.store.lastFirst
					} else {
						pruneLoginAttempts()
						loginAttemptsMu.Lock()
						got = vkSeen{Retry: before - len(loginAttempts)}
						loginAttemptsMu.Unlock()
					}
					done := time.Now()
					delay := done.Sub(ref)
					if !read.IsZero() {
						delay = read.Sub(ref) // the limiter was consulted before the store was read
					}
					e.end()
					margin := ahead // no deadline ahead: only a stall long enough to disturb whole seconds matters
					if margin > time.Second {
						margin = time.Second
					}
					if 2*delay < margin {
						if delay > worst {
							worst = delay
						}

						break // conclusive: the code read the clock well before the nearest deadline
					}
					// overran the margin: undo and retry
					retried++
					e.restore(snap)
					if try >= vkEdgeTries {
						inconclusive++
						res.Notes = append(res.Notes, fmt.Sprintf("behaviour %d step %d: %s kept overrunning a %v margin (last delay %v)", bi, si, act, ahead, delay))

						break behaviour
					}
				}
				if act == "Attempt" && held != "" {
					placed[held]++
				}
			default:
				t.Fatalf("unknown action %q", act)
			}
			res.Steps++
			res.ActCounts[act]++
			seenTr[prev+"|"+vkCanon(map[string]any{"a": act, "u": u, "pw": vkStr(s.Call, "pw"), "l": vkStr(s.Call, "l"),
				"d": vkStr(s.Call, "d"), "off": vkStr(s.Call, "retry"), "held": held})] = true
			state := e.project(users, ref)
			var mm *vkMismatch
			if act == "Attempt" || act == "Prune" {
				want := vkWantSeen(s.Call)
				switch {
				case got.Reply != want.Reply:
					mm = &vkMismatch{bi, si, act, "reply", want.Reply, got.Reply, nil}
				case got.Verified != want.Verified:
					mm = &vkMismatch{bi, si, act, "verified", fmt.Sprint(want.Verified), fmt.Sprint(got.Verified), nil}
				case act == "Prune" && got.Retry != want.Retry:
					mm = &vkMismatch{bi, si, act, "retry", fmt.Sprint(want.Retry), fmt.Sprint(got.Retry), nil}
				case act == "Attempt" && got.RetrySecs != want.Retry:
					mm = &vkMismatch{bi, si, act, "retry_secs", fmt.Sprint(want.Retry), fmt.Sprint(got.RetrySecs), nil}
				}
			}
			if mm == nil {
				if p, a, b := vkDiff("", s.St, state, nil); p != "" {
					mm = &vkMismatch{bi, si, act, p, a, b, nil}
				}
			}
			if mm != nil {
				for _, ps := range steps[:si+1] {
					mm.Prefix = append(mm.Prefix, ps.Call)
				}
				mm.Prefix = append(mm.Prefix, map[string]any{"held_offset_ms": held, "real_state": state})
				res.Mismatches = append(res.Mismatches, *mm)

				break
			}
			prev = vkCanon(s.St)
		}
		res.Behaviours++
		if len(res.Mismatches) >= 200 {
			break
		}
	}
	res.Transitions = len(seenTr)
	res.Extra["placed"] = placed
	res.Extra["retried"] = retried
	res.Extra["inconclusive"] = inconclusive
	res.Extra["worst_delay_us"] = worst.Microseconds()
	if err := vkWriteResult(out, res); err != nil {
		t.Fatal(err)
	}
}

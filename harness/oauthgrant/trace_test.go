package authserver

// Binding T for spec/OAuthGrant (property C23): unforced concurrent executions of
// the real TokenHandler (run with -race).  The gate hook does not park here, it
// only perturbs the schedule (seeded number of runtime.Gosched calls between the
// cache lookup and the delete).  Logged in one total order: Call (before the
// handler is entered), Find/Delete/Add (caches.VerifSink, under cacheLock), Resp
// (after the handler returned).  TLC validates the log against OAuthGrant_Trace.

import (
	"encoding/json"
	"fmt"
	"runtime"
	"strings"
	"sync"
	"testing"
)

// ogPerturb: in binding T the gate does not park; it only perturbs the schedule (seeded).
func ogPerturb(w *ogWorld) {
	w.mu.Lock()
	n := w.rng.Intn(4)
	w.mu.Unlock()
	for i := 0; i < n; i++ {
		runtime.Gosched()
	}
}

func jsonUnmarshalString(s string, v any) error { return json.Unmarshal([]byte(s), v) }

func (w *ogWorld) traceCall(r string, call map[string]any) {
	w.mu.Lock()
	w.events = append(w.events, ogEvent{Op: "Call:" + r, Key: vkJSON(call)})
	w.mu.Unlock()
}

func (w *ogWorld) traceResp(r string, rp ogReply) {
	w.mu.Lock()
	w.events = append(w.events, ogEvent{Op: "Resp:" + r, Key: vkJSON(map[string]any{"status": rp.Status, "err": rp.Err, "minted": rp.Refresh != ""})})
	w.mu.Unlock()
}

func TestVerifOAuthGrantConcurrent(t *testing.T) {
	out := vkEnv("VERIF_OUT", "")
	if out == "" {
		t.Skip("VERIF_OUT not set")
	}
	runs, seed := vkEnvInt("VERIF_RUNS", 40), int64(vkEnvInt("VERIF_SEED", 1))
	ogSetupWorld(t)
	ogInstallHooks()
	tw, err := vkNewTrace(out)
	if err != nil {
		t.Fatal(err)
	}
	defer tw.Close()
	for run := 1; run <= runs; run++ {
		w := ogNewWorld(seed*7919 + int64(run))
		w.yield = true
		ogW = w
		w.issue(t, []string{"cA", "cB"}, []string{"tA"})
		tw.Emit(map[string]any{"run": run, "ev": "Reset"})
		next := 0
		newReq := func() string { next++; return fmt.Sprintf("r%d", next) }
		pick := func(l ...string) string { return l[w.rng.Intn(len(l))] }
		// phase 1: several redeemers of the same code and of the same refresh token, at once
		type job struct {
			r    string
			call map[string]any
		}
		var phase1 []job
		code := pick("cA", "cA", "cB")
		owner := ogCodes[code][0]
		for i, n := 0, 2+w.rng.Intn(2); i < n; i++ {
			c := map[string]any{"kind": "code", "target": code, "client": owner, "redirect": "same", "verifier": "right"}
			switch w.rng.Intn(8) {
			case 0:
				c["verifier"] = pick("wrong", "empty")
			case 1:
				c["client"] = pick("A", "B", "Bbad")
			case 2:
				c["redirect"] = "other"
			}
			phase1 = append(phase1, job{newReq(), c})
		}
		for i, n := 0, 2+w.rng.Intn(2); i < n; i++ {
			c := map[string]any{"kind": "refresh", "target": "tA", "client": "A", "redirect": "same", "verifier": "empty"}
			if w.rng.Intn(8) == 0 {
				c["client"] = "B"
			}
			if w.rng.Intn(10) == 0 {
				c["target"] = "bogus"
			}
			phase1 = append(phase1, job{newReq(), c})
		}
		fire := func(jobs []job) map[string]ogReply {
			var wg sync.WaitGroup
			var mu sync.Mutex
			res := map[string]ogReply{}
			start := make(chan struct{})
			for _, j := range jobs {
				req, e := w.request(j.call)
				if e != nil {
					t.Fatal(e)
				}
				wg.Add(1)
				go func(j job) {
					defer wg.Done()
					<-start
					w.traceCall(j.r, j.call)
					rp := ogServe(req, 2000)
					w.learn(j.r, rp)
					w.traceResp(j.r, rp)
					mu.Lock()
					res[j.r] = rp
					mu.Unlock()
				}(j)
			}
			close(start)
			wg.Wait()
			return res
		}
		res1 := fire(phase1)
		// phase 2: every refresh token minted in phase 1 is presented by two requests at once
		var phase2 []job
		for _, j := range phase1 {
			if res1[j.r].Refresh != "" && next <= 8 {
				cl, _ := j.call["client"].(string)
				for k := 0; k < 2; k++ {
					phase2 = append(phase2, job{newReq(), map[string]any{"kind": "refresh", "target": "m_" + j.r, "client": cl,
						"redirect": "same", "verifier": "empty"}})
				}
			}
		}
		if len(phase2) > 0 {
			fire(phase2)
		}
		// write this run's events, minted keys renamed to their abstract names
		w.mu.Lock()
		evs := append([]ogEvent{}, w.events...)
		w.events = nil
		abs := map[string]string{}
		for c, a := range w.abstract {
			abs[c] = a
		}
		w.mu.Unlock()
		for _, e := range evs {
			switch {
			case strings.HasPrefix(e.Op, "Call:"):
				m := map[string]any{}
				_ = jsonUnmarshalString(e.Key, &m)
				m["run"], m["ev"], m["r"] = run, "Call", strings.TrimPrefix(e.Op, "Call:")
				tw.Emit(m)
			case strings.HasPrefix(e.Op, "Resp:"):
				m := map[string]any{}
				_ = jsonUnmarshalString(e.Key, &m)
				m["run"], m["ev"], m["r"] = run, "Resp", strings.TrimPrefix(e.Op, "Resp:")
				tw.Emit(m)
			default:
				k := e.Key
				if strings.HasPrefix(k, "raw:") {
					if a, ok := abs[strings.TrimPrefix(k, "raw:")]; ok {
						k = a
					}
				}
				tw.Emit(map[string]any{"run": run, "ev": e.Op, "key": k, "ok": e.Ok})
			}
		}
		w.cleanup()
		if w.interfered != "" {
			t.Fatalf("run %d: %s", run, w.interfered)
		}
	}
	ogW = nil
}

package authserver

// Binding R for spec/OAuthGrant (property C23): every behaviour TLC generated is
// forced, step by step, on the real TokenHandler.  A request is one goroutine;
// the gate hook (verifGate, build tag verif) parks it between caches.Find and
// caches.Delete, so the interleaving is exactly the one TLC chose:
//   Arrive(r,a)  start request r, wait until it parks at the gate or returns
//   Consume(r)   open r's gate, wait until it returns
// Only one request goroutine runs at any time.  After every step the reply, the
// cache critical sections that ran (caches.VerifSink) and the set of grants still
// in the caches are compared with the values TLC computed.  The harness decides
// nothing: "forbid" (a success the statement of C23 forbids at this step) is
// computed by the specification and only compared with the real status.

import (
	"crypto/sha256"
	"encoding/base64"
	"encoding/json"
	"fmt"
	"math/rand"
	"net/http"
	"net/http/httptest"
	"net/url"
	"path/filepath"
	"sort"
	"strings"
	"sync"
	"testing"
	"time"

	"github.com/tucats/ego/internal/caches"
	"github.com/tucats/ego/internal/router"
	"golang.org/x/crypto/bcrypt"
)

const (
	ogVerifier = "dBjftJeZ4CVP-mB92K27uhbUJU1p1r_wW1gFWFOEjXk"
	ogStepWait = 20 * time.Second
)

var ogRedirect = map[string]string{"A": "https://a.example.com/cb", "B": "https://b.example.com/cb", "C": "https://c.example.com/cb"}
var ogSecret = map[string]string{"B": "secret-of-B", "C": "secret-of-C"}
var ogClientID = map[string]string{"A": "appA", "B": "appB", "C": "appC"}

func ogS256(v string) string {
	h := sha256.Sum256([]byte(v))
	return base64.RawURLEncoding.EncodeToString(h[:])
}

// ogSetupWorld builds the fixed registry the specification describes (clients A, B, C and a signing key).
func ogSetupWorld(t *testing.T) {
	t.Helper()
	dir := t.TempDir()
	if err := loadOrGenerateKey(filepath.Join(dir, "as.pem")); err != nil {
		t.Fatalf("key setup: %v", err)
	}
	asGlobalConfig = asConfig{Issuer: "https://ego.verif", TokenExpiration: time.Hour}
	// the server configures these lifetimes at start-up (authserver.go); expiry is not part of the scenario
	_ = caches.SetExpiration(caches.OAuthCodeCache, "1h")
	_ = caches.SetExpiration(caches.OAuthRefreshCache, "1h")
	hash := func(s string) string {
		b, err := bcrypt.GenerateFromPassword([]byte(s), bcrypt.MinCost)
		if err != nil {
			t.Fatal(err)
		}
		return string(b)
	}
	clients = []OAuthClient{
		{ClientID: "appA", RedirectURIs: []string{ogRedirect["A"]}, GrantTypes: []string{"authorization_code", "refresh_token"}, Scopes: []string{"openid"}},
		{ClientID: "appB", ClientSecretHash: hash(ogSecret["B"]), RedirectURIs: []string{ogRedirect["B"]}, GrantTypes: []string{"authorization_code", "refresh_token"}, Scopes: []string{"openid"}},
		{ClientID: "appC", ClientSecretHash: hash(ogSecret["C"]), RedirectURIs: []string{ogRedirect["C"]}, GrantTypes: []string{"authorization_code"}, Scopes: []string{"openid"}},
	}
}

// the issued codes of the specification (owner, challenge kind)
var ogCodes = map[string][2]string{
	"cA": {"A", "s256"}, "cAn": {"A", "none"}, "cB": {"B", "none"}, "cBp": {"B", "s256"}, "cBx": {"B", "plain"}, "cC": {"C", "none"},
}
var ogTokens = map[string]string{"tA": "A", "tB": "B"}

type ogEvent struct {
	Op  string `json:"op"`
	Key string `json:"key"`
	Ok  bool   `json:"ok"`
}

type ogWorld struct {
	mu         sync.Mutex
	concrete   map[string]string // abstract grant -> concrete string
	abstract   map[string]string // concrete string -> abstract grant
	events     []ogEvent
	rawAdds    []int // indexes in events of Add events whose key is still concrete
	quiet      bool  // sink suppressed (harness probes)
	current    string
	parked     map[string]chan struct{}
	parkedAt   map[string][2]string
	notify     chan string
	done       map[string]chan ogReply
	rng        *rand.Rand
	yield      bool // T mode: the gate only perturbs the schedule
	interfered string
}

type ogReply struct {
	Status  int
	Err     string
	Refresh string
	Access  string
}

var ogW *ogWorld

func ogInstallHooks() {
	caches.VerifSink = func(op string, id int, key any, value any, ok bool) {
		if id != caches.OAuthCodeCache && id != caches.OAuthRefreshCache {
			return
		}
		w := ogW
		if w == nil {
			return
		}
		w.mu.Lock()
		defer w.mu.Unlock()
		if op != "Find" && op != "Delete" && op != "Add" {
			// the background sweeper (and purges) are not steps of a token request; with the 1h lifetime the
			// harness configures they never remove anything -- if one does, the run is void
			if n, _ := value.(int); op != "Sweep" || n > 0 {
				w.interfered = fmt.Sprintf("%s on cache %d removed entries (%v)", op, id, value)
			}
			return
		}
		if w.quiet {
			return
		}
		k := fmt.Sprint(key)
		name, known := w.abstract[k]
		if !known {
			name = "raw:" + k
			if op == "Add" {
				w.rawAdds = append(w.rawAdds, len(w.events))
			}
		}
		w.events = append(w.events, ogEvent{Op: op, Key: name, Ok: ok})
	}
	VerifGate = func(point string, key string) {
		w := ogW
		if w == nil {
			return
		}
		if w.yield {
			ogPerturb(w)
			return
		}
		w.mu.Lock()
		r := w.current
		ch := make(chan struct{})
		w.parked[r] = ch
		w.parkedAt[r] = [2]string{point, key}
		w.mu.Unlock()
		w.notify <- r
		<-ch
	}
}

func ogNewWorld(seed int64) *ogWorld {
	return &ogWorld{concrete: map[string]string{}, abstract: map[string]string{}, parked: map[string]chan struct{}{},
		parkedAt: map[string][2]string{}, notify: make(chan string, 16), done: map[string]chan ogReply{},
		rng: rand.New(rand.NewSource(seed))}
}

func (w *ogWorld) bind(abs, conc string) {
	w.mu.Lock()
	w.concrete[abs] = conc
	w.abstract[conc] = abs
	w.mu.Unlock()
}

func (w *ogWorld) setQuiet(q bool) {
	w.mu.Lock()
	w.quiet = q
	w.mu.Unlock()
}

// ogIssue creates the initial grants of a behaviour with the server's own functions.
func (w *ogWorld) issue(t *testing.T, codes, tokens []string) {
	w.setQuiet(true)
	defer w.setQuiet(false)
	for _, c := range codes {
		info, ok := ogCodes[c]
		if !ok {
			t.Fatalf("unknown code %q", c)
		}
		code, err := generateCode()
		if err != nil {
			t.Fatal(err)
		}
		p := PendingAuthorization{ClientID: ogClientID[info[0]], RedirectURI: ogRedirect[info[0]], Scopes: []string{"openid"},
			Username: "alice", IssuedAt: time.Now()}
		switch info[1] {
		case "s256":
			p.CodeChallenge, p.CodeChallengeMethod = ogS256(ogVerifier), "S256"
		case "plain":
			p.CodeChallenge, p.CodeChallengeMethod = ogVerifier, "plain"
		}
		storeCode(code, p)
		w.bind(c, code)
	}
	for _, tk := range tokens {
		tok, err := generateRefreshToken(ogClientID[ogTokens[tk]], "alice", []string{"openid"})
		if err != nil {
			t.Fatal(err)
		}
		w.bind(tk, tok)
	}
	w.bind("bogus", "never-issued-"+fmt.Sprint(w.rng.Int63()))
}

func (w *ogWorld) cleanup() {
	w.setQuiet(true)
	for abs, conc := range w.concrete {
		if strings.HasPrefix(abs, "c") {
			caches.Delete(caches.OAuthCodeCache, conc)
		} else {
			caches.Delete(caches.OAuthRefreshCache, conc)
		}
	}
	w.setQuiet(false)
}

func (w *ogWorld) present() []any {
	w.setQuiet(true)
	defer w.setQuiet(false)
	w.mu.Lock()
	names := make([]string, 0, len(w.concrete))
	for abs := range w.concrete {
		names = append(names, abs)
	}
	w.mu.Unlock()
	sort.Strings(names)
	out := []any{}
	for _, abs := range names {
		id := caches.OAuthRefreshCache
		if strings.HasPrefix(abs, "c") {
			id = caches.OAuthCodeCache
		}
		if _, ok := caches.Find(id, w.concrete[abs]); ok {
			out = append(out, abs)
		}
	}
	return out
}

func (w *ogWorld) takeEvents() []any {
	w.mu.Lock()
	defer w.mu.Unlock()
	out := make([]any, 0, len(w.events))
	for _, e := range w.events {
		out = append(out, map[string]any{"op": e.Op, "key": e.Key, "ok": e.Ok})
	}
	w.events, w.rawAdds = nil, nil
	return out
}

// wrongVerifier draws a member of the class "any string but the right one".
func (w *ogWorld) wrongVerifier() string {
	v := []byte(ogVerifier)
	switch w.rng.Intn(8) {
	case 0:
		return "E9Melhoa2OwvFrEMTJguCHaoeK1t8URWbuGJSstw-cM"
	case 1:
		i := w.rng.Intn(len(v))
		if v[i] == 'x' {
			v[i] = 'y'
		} else {
			v[i] = 'x'
		}
		return string(v)
	case 2:
		return strings.ToUpper(ogVerifier)
	case 3:
		return ogVerifier + ogVerifier
	case 4:
		return ogVerifier[1:]
	case 5:
		return "é" + ogVerifier
	case 6:
		return strings.Repeat("A", 43+w.rng.Intn(200))
	default:
		i := w.rng.Intn(len(v)-1) + 1
		v[i], v[i-1] = v[i-1], v[i]
		if string(v) == ogVerifier {
			return ogVerifier + "0"
		}
		return string(v)
	}
}

func (w *ogWorld) verifier(class string) (string, bool) {
	switch class {
	case "right":
		return ogVerifier, true
	case "wrong":
		return w.wrongVerifier(), true
	case "empty":
		return "", false
	case "padded":
		return ogVerifier + "=", true
	case "space":
		return ogVerifier + " ", true
	case "prefix":
		return ogVerifier[:len(ogVerifier)-1], true
	case "challenge":
		return ogS256(ogVerifier), true
	}
	return "unknown-class-" + class, true
}

// ogRequest builds the HTTP request for the attributes the specification chose.
func (w *ogWorld) request(call map[string]any) (*http.Request, error) {
	kind, target, client := vkStr(call, "kind"), vkStr(call, "target"), vkStr(call, "client")
	w.mu.Lock()
	conc, ok := w.concrete[target]
	w.mu.Unlock()
	if !ok {
		return nil, fmt.Errorf("grant %q has no concrete value (not minted on the real side)", target)
	}
	form := url.Values{}
	id, secret := "", ""
	switch client {
	case "A", "B", "C":
		id, secret = ogClientID[client], ogSecret[client]
	case "Bbad":
		id, secret = ogClientID["B"], "not-the-secret"
	default:
		id, secret = "ghost", "whatever"
	}
	basic := secret != "" && w.rng.Intn(2) == 0
	if !basic {
		form.Set("client_id", id)
		if secret != "" {
			form.Set("client_secret", secret)
		}
	}
	if kind == "code" {
		form.Set("grant_type", "authorization_code")
		form.Set("code", conc)
		owner := "A"
		if info, ok := ogCodes[target]; ok {
			owner = info[0]
		}
		if vkStr(call, "redirect") == "same" {
			form.Set("redirect_uri", ogRedirect[owner])
		} else {
			form.Set("redirect_uri", "https://evil.example.net/cb")
		}
		if v, send := w.verifier(vkStr(call, "verifier")); send {
			form.Set("code_verifier", v)
		}
	} else {
		form.Set("grant_type", "refresh_token")
		form.Set("refresh_token", conc)
	}
	req := httptest.NewRequest(http.MethodPost, "/oauth2/token", strings.NewReader(form.Encode()))
	req.Header.Set("Content-Type", "application/x-www-form-urlencoded")
	if basic {
		req.SetBasicAuth(id, secret)
	}
	return req, nil
}

func ogServe(req *http.Request, session int) ogReply {
	rec := httptest.NewRecorder()
	st := TokenHandler(&router.Session{ID: session}, rec, req)
	rp := ogReply{Status: st}
	if rec.Code != st {
		rp.Err = fmt.Sprintf("handler returned %d but wrote %d", st, rec.Code)
		return rp
	}
	var body map[string]any
	if err := json.Unmarshal(rec.Body.Bytes(), &body); err != nil {
		rp.Err = "unparsable body"
		return rp
	}
	if s, ok := body["error"].(string); ok {
		rp.Err = s
	}
	if s, ok := body["refresh_token"].(string); ok {
		rp.Refresh = s
	}
	if s, ok := body["access_token"].(string); ok {
		rp.Access = s
	}
	return rp
}

// start launches request r and waits until it parks or returns.
func (w *ogWorld) start(r string, req *http.Request) (parked bool, rp ogReply, err error) {
	ch := make(chan ogReply, 1)
	w.mu.Lock()
	w.current = r
	w.done[r] = ch
	w.mu.Unlock()
	go func() { ch <- ogServe(req, 1000) }()
	select {
	case who := <-w.notify:
		if who != r {
			return false, rp, fmt.Errorf("request %s parked while %s was running", who, r)
		}
		return true, rp, nil
	case rp = <-ch:
		return false, rp, nil
	case <-time.After(ogStepWait):
		return false, rp, fmt.Errorf("request %s neither parked nor returned", r)
	}
}

// release opens r's gate and waits for the response.
func (w *ogWorld) release(r string) (ogReply, error) {
	w.mu.Lock()
	ch, ok := w.parked[r]
	delete(w.parked, r)
	w.current = r
	done := w.done[r]
	w.mu.Unlock()
	if !ok {
		return ogReply{}, fmt.Errorf("request %s is not parked", r)
	}
	close(ch)
	select {
	case rp := <-done:
		return rp, nil
	case who := <-w.notify:
		return ogReply{}, fmt.Errorf("request %s parked a second time (as %s)", r, who)
	case <-time.After(ogStepWait):
		return ogReply{}, fmt.Errorf("request %s did not return after its gate opened", r)
	}
}

// learn binds a freshly minted refresh token to its abstract name and renames the Add event that stored it.
func (w *ogWorld) learn(r string, rp ogReply) {
	if rp.Refresh == "" {
		return
	}
	name := "m_" + r
	w.bind(name, rp.Refresh)
	w.mu.Lock()
	for i := range w.events {
		if w.events[i].Key == "raw:"+rp.Refresh {
			w.events[i].Key = name
		}
	}
	w.mu.Unlock()
}

type ogMismatch struct {
	vkMismatch
	Forbid    string `json:"forbid"`
	GotStatus int    `json:"got_status"`
	Kind      string `json:"kind"`
	Field     string `json:"field"`
	Call      any    `json:"call"`
	Steps     []any  `json:"steps,omitempty"`
}

type ogResult struct {
	Behaviours  int            `json:"behaviours"`
	Steps       int            `json:"steps"`
	Mismatches  []ogMismatch   `json:"mismatches"`
	Transitions int            `json:"transitions"`
	ActCounts   map[string]int `json:"act_counts"`
	Successes   int            `json:"successes"`
	LostRace    int            `json:"lost_race_refusals"`
	Parked      int            `json:"parked"`
	Fatal       string         `json:"fatal,omitempty"`
}

func TestVerifOAuthGrantReplay(t *testing.T) {
	in, out := vkEnv("VERIF_IN", ""), vkEnv("VERIF_OUT", "")
	if in == "" || out == "" {
		t.Skip("VERIF_IN/VERIF_OUT not set")
	}
	seed := int64(vkEnvInt("VERIF_SEED", 1))
	perturb := vkEnv("VERIF_PERTURB", "") // binding self-test: falsify one expected value
	bs, err := ogLoadBehaviours(in)
	if err != nil {
		t.Fatal(err)
	}
	ogSetupWorld(t)
	ogInstallHooks()
	res := ogResult{ActCounts: map[string]int{}}
	seen := map[string]bool{}
	asSet := func(p string) bool { return p == ".present" }
	maxMis := vkEnvInt("VERIF_MAX_MISMATCH", 20000)
	for bi, beh := range bs {
		steps := beh.Steps
		w := ogNewWorld(seed*1000003 + int64(bi))
		ogW = w
		codes, tokens := ogInitialGrants(beh.Grants)
		w.issue(t, codes, tokens)
		prefix := []any{}
		valid := true // replies so far agree with the specification => "forbid" speaks about the real history
		state := "init"
		for si, s := range steps {
			if !valid {
				break
			}
			call := s.Call
			act, r := vkStr(call, "act"), vkStr(call, "r")
			want, _ := s.St.(map[string]any)
			want = ogPerturbWant(want, perturb, bi, si)
			res.Steps++
			res.ActCounts[act]++
			tr := state + "|" + vkCanon(call)
			if !seen[tr] {
				seen[tr] = true
				res.Transitions++
			}
			var (
				rp       ogReply
				finished bool
				serr     error
			)
			switch act {
			case "Arrive":
				req, e := w.request(call)
				if e != nil {
					serr = e
					break
				}
				var parked bool
				parked, rp, serr = w.start(r, req)
				finished = serr == nil && !parked
				if parked {
					res.Parked++
				}
			case "Consume":
				rp, serr = w.release(r)
				finished = serr == nil
			default:
				serr = fmt.Errorf("unknown action %q", act)
			}
			if serr != nil {
				res.Fatal = fmt.Sprintf("behaviour %d step %d (%s %s): %v", bi, si, act, r, serr)
				break
			}
			if finished {
				w.learn(r, rp)
			}
			got := map[string]any{"events": w.takeEvents(), "done": finished, "status": 0, "err": "", "minted": false,
				"forbid": want["forbid"], "present": w.present()}
			if finished {
				got["status"], got["err"], got["minted"] = rp.Status, rp.Err, rp.Refresh != ""
				if rp.Status == 200 {
					res.Successes++
				} else if evs, _ := got["events"].([]any); act == "Consume" && len(evs) > 0 {
					if e0, _ := evs[0].(map[string]any); e0 != nil && e0["op"] == "Delete" && e0["ok"] == false {
						res.LostRace++
					}
				}
			}
			prefix = append(prefix, map[string]any{"call": call, "want": want, "got": got})
			wantDone, _ := want["done"].(bool)
			final := rp
			if wantDone && !finished {
				// the specification says the request is answered here, the real one is parked: let it finish
				// so that its real answer can be held against what the statement forbids
				var e error
				final, e = w.release(r)
				if e != nil {
					res.Fatal = fmt.Sprintf("behaviour %d step %d: %v", bi, si, e)
					break
				}
				w.learn(r, final)
				got["status_after_release"] = final.Status
			}
			if path, a, b := vkDiff("", want, got, asSet); path != "" {
				field := strings.TrimPrefix(strings.SplitN(strings.TrimPrefix(path, "."), ".", 2)[0], ".")
				if i := strings.Index(field, "["); i >= 0 {
					field = field[:i]
				}
				m := ogMismatch{vkMismatch: vkMismatch{Behaviour: bi, Step: si, Act: act, Path: path, Want: a, Got: b},
					Forbid: vkStr(want, "forbid"), GotStatus: final.Status, Kind: vkStr(call, "kind"), Field: field, Call: call}
				if (final.Status == 200 && m.Forbid != "") || len(res.Mismatches) < 20 {
					m.Steps = append([]any{}, prefix...) // full step record for what may become a finding
				}
				if len(res.Mismatches) < maxMis {
					res.Mismatches = append(res.Mismatches, m)
				}
			}
			for _, f := range []string{"done", "status", "err", "minted"} {
				if vkCanon(want[f]) != vkCanon(got[f]) {
					valid = false // the histories differ from here on: "forbid" no longer speaks about the real one
				}
			}
			state = vkCanon(want)
		}
		// never leave a goroutine parked
		w.mu.Lock()
		left := make([]string, 0, len(w.parked))
		for r := range w.parked {
			left = append(left, r)
		}
		w.mu.Unlock()
		for _, r := range left {
			_, _ = w.release(r)
		}
		w.cleanup()
		if w.interfered != "" && res.Fatal == "" {
			res.Fatal = fmt.Sprintf("behaviour %d: %s", bi, w.interfered)
		}
		if res.Fatal != "" {
			break
		}
		res.Behaviours++
	}
	ogW = nil
	if err := vkWriteResult(out, res); err != nil {
		t.Fatal(err)
	}
	if res.Fatal != "" {
		t.Fatal(res.Fatal)
	}
}

// one behaviour = the grants that exist initially (Codes and Tokens of the TLC configuration) and the steps TLC printed
type ogBehaviour struct {
	Grants []string `json:"grants"`
	Steps  []vkStep `json:"steps"`
}

func ogLoadBehaviours(path string) ([]ogBehaviour, error) {
	var out []ogBehaviour
	err := vkLoadLines(path, func(b []byte) error {
		var beh ogBehaviour
		d := json.NewDecoder(strings.NewReader(string(b)))
		d.UseNumber()
		if err := d.Decode(&beh); err != nil {
			return err
		}
		out = append(out, beh)
		return nil
	})
	return out, err
}

func ogInitialGrants(grants []string) (codes, tokens []string) {
	for _, g := range grants {
		if _, ok := ogCodes[g]; ok {
			codes = append(codes, g)
		} else if _, ok := ogTokens[g]; ok {
			tokens = append(tokens, g)
		}
	}
	sort.Strings(codes)
	sort.Strings(tokens)
	return
}

// ogPerturbWant falsifies one expected value (binding self-test): "b:s:field".
func ogPerturbWant(want map[string]any, spec string, bi, si int) map[string]any {
	if spec == "" {
		return want
	}
	var b, s int
	var field string
	parts := strings.SplitN(spec, ":", 3)
	if len(parts) != 3 {
		return want
	}
	fmt.Sscan(parts[0], &b)
	fmt.Sscan(parts[1], &s)
	field = parts[2]
	if b != bi || s != si {
		return want
	}
	cp := map[string]any{}
	for k, v := range want {
		cp[k] = v
	}
	switch field {
	case "status":
		cp["status"] = json.Number("418")
	case "present":
		l, _ := cp["present"].([]any)
		cp["present"] = append(append([]any{}, l...), "phantom")
	case "events":
		l, _ := cp["events"].([]any)
		cp["events"] = append(append([]any{}, l...), map[string]any{"op": "Delete", "key": "phantom", "ok": true})
	}
	return cp
}

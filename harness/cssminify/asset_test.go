package assets

// Binding F, level B, for spec/CssMinify (property C34): the stylesheets as a
// browser gets them.  Every input is written as <root>/assets/cNNN.css under a
// scratch library root (the shipped stylesheets are copied there unchanged),
// then fetched with GET /assets/... through the real router and the real
// AssetsHandler with ego.server.javascript minification switched on; the
// bytes of the file and the bytes of the response body are logged for the
// TLA+ contract.  Nothing here decides whether a response is right.
//
//   VERIF_IN     ndjson, one byte array per line (TLC's own output)
//   VERIF_FILES  optional ndjson {"path": file}: shipped stylesheets
//   VERIF_OUT    ndjson {"in": [...], "out": [...], "src": .., "status": n, "ctype": ..}

import (
	"encoding/json"
	"fmt"
	"net/http"
	"net/http/httptest"
	"os"
	"path/filepath"
	"testing"

	"github.com/tucats/ego/internal/cli/settings"
	"github.com/tucats/ego/internal/defs"
	"github.com/tucats/ego/internal/router"
)

func c34Ints(b []byte) []int {
	out := make([]int, len(b))
	for i, c := range b {
		out[i] = int(c)
	}
	return out
}

func TestVerifC34Asset(t *testing.T) {
	in, outp := vkEnv("VERIF_IN", ""), vkEnv("VERIF_OUT", "")
	if in == "" || outp == "" {
		t.Skip("VERIF_IN/VERIF_OUT not set")
	}
	base, err := os.MkdirTemp("/var/tmp", "verif-c34-")
	if err != nil {
		t.Fatal(err)
	}
	defer os.RemoveAll(base)
	os.Setenv("HOME", base) // no user profile is read or written outside the scratch tree
	dir := filepath.Join(base, "assets")
	if err := os.MkdirAll(dir, 0o755); err != nil {
		t.Fatal(err)
	}
	type item struct {
		name string
		src  string
		data []byte
	}
	var items []item
	err = vkLoadLines(in, func(line []byte) error {
		var bs []int
		if err := json.Unmarshal(line, &bs); err != nil {
			return err
		}
		text := make([]byte, len(bs))
		for i, c := range bs {
			text[i] = byte(c)
		}
		items = append(items, item{fmt.Sprintf("c%06d.css", len(items)), "gen", text})
		return nil
	})
	if err != nil {
		t.Fatal(err)
	}
	if fl := vkEnv("VERIF_FILES", ""); fl != "" {
		err = vkLoadLines(fl, func(line []byte) error {
			var f struct {
				Path string `json:"path"`
			}
			if err := json.Unmarshal(line, &f); err != nil {
				return err
			}
			data, err := os.ReadFile(f.Path)
			if err != nil {
				return err
			}
			items = append(items, item{fmt.Sprintf("c%06d.css", len(items)), f.Path, data})
			return nil
		})
		if err != nil {
			t.Fatal(err)
		}
	}
	for _, it := range items {
		if err := os.WriteFile(filepath.Join(dir, it.name), it.data, 0o644); err != nil {
			t.Fatal(err)
		}
	}

	settings.SetDefault(defs.EgoLibPathSetting, base)
	settings.SetDefault(defs.JSMinifySetting, "true")

	// the asset route of internal/commands/routes.go
	mux := router.NewRouter("verif-c34")
	mux.New(defs.AssetsPath+"{{item...}}", AssetsHandler, http.MethodGet).Class(router.AssetRequestCounter)

	tw, err := vkNewTrace(outp)
	if err != nil {
		t.Fatal(err)
	}
	defer tw.Close()
	for _, it := range items {
		req := httptest.NewRequest(http.MethodGet, defs.AssetsPath+it.name, nil)
		req.RemoteAddr = "127.0.0.1:9"
		w := httptest.NewRecorder()
		mux.ServeHTTP(w, req)
		tw.Emit(map[string]any{"in": c34Ints(it.data), "out": c34Ints(w.Body.Bytes()), "src": it.src,
			"status": w.Code, "ctype": w.Header().Get("Content-Type"), "same": true})
	}
	fmt.Printf("VERIF-C34 asset responses=%d\n", len(items))
}

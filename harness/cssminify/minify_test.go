package javascript

// Binding F, level A, for spec/CssMinify (property C34).  The harness only
// drives the real MinifyCSS with the stylesheets TLC generated (and with the
// shipped stylesheets, whole and rule by rule) and logs what went in and what
// came out, as bytes, for the TLA+ contract to judge.  It decides nothing.
//
//   VERIF_IN     ndjson, one byte array per line (TLC's own output)
//   VERIF_FILES  optional ndjson, one {"path": file, "whole": bool, "split": bool}
//                per line: real files; whole = the file as one input; split =
//                cut at every line that is exactly "}" (input selection only;
//                the contract checks each piece is in the domain)
//   VERIF_OUT    ndjson {"in": [...], "out": [...], "src": "gen" | path, "same": bool}
//                same = the input slice handed to MinifyCSS was left untouched

import (
	"bytes"
	"encoding/json"
	"fmt"
	"os"
	"testing"
)

func c34Ints(b []byte) []int {
	out := make([]int, len(b))
	for i, c := range b {
		out[i] = int(c)
	}
	return out
}

func c34Run(tw *vkTraceWriter, src string, text []byte) {
	arg := append([]byte(nil), text...)
	got := MinifyCSS(arg)
	tw.Emit(map[string]any{"in": c34Ints(text), "out": c34Ints(got), "src": src, "same": bytes.Equal(arg, text)})
}

func TestVerifC34Minify(t *testing.T) {
	in, out := vkEnv("VERIF_IN", ""), vkEnv("VERIF_OUT", "")
	if in == "" || out == "" {
		t.Skip("VERIF_IN/VERIF_OUT not set")
	}
	tw, err := vkNewTrace(out)
	if err != nil {
		t.Fatal(err)
	}
	defer tw.Close()
	n := 0
	err = vkLoadLines(in, func(line []byte) error {
		var bs []int
		if err := json.Unmarshal(line, &bs); err != nil {
			return err
		}
		text := make([]byte, len(bs))
		for i, c := range bs {
			if c < 0 || c > 255 {
				return fmt.Errorf("not a byte: %d", c)
			}
			text[i] = byte(c)
		}
		c34Run(tw, "gen", text)
		n++
		return nil
	})
	if err != nil {
		t.Fatal(err)
	}
	nf := 0
	if fl := vkEnv("VERIF_FILES", ""); fl != "" {
		err = vkLoadLines(fl, func(line []byte) error {
			var f struct {
				Path  string `json:"path"`
				Whole bool   `json:"whole"`
				Split bool   `json:"split"`
			}
			if err := json.Unmarshal(line, &f); err != nil {
				return err
			}
			data, err := os.ReadFile(f.Path)
			if err != nil {
				return err
			}
			if f.Whole {
				c34Run(tw, f.Path, data)
				nf++
			}
			if f.Split {
				var cur []byte
				for _, ln := range bytes.SplitAfter(data, []byte("\n")) {
					cur = append(cur, ln...)
					if bytes.Equal(bytes.TrimRight(ln, "\r\n"), []byte("}")) {
						c34Run(tw, f.Path, cur)
						nf++
						cur = nil
					}
				}
				if len(bytes.TrimSpace(cur)) > 0 {
					c34Run(tw, f.Path, cur)
					nf++
				}
			}
			return nil
		})
		if err != nil {
			t.Fatal(err)
		}
	}
	fmt.Printf("VERIF-C34 minify generated=%d from-files=%d\n", n, nf)
}

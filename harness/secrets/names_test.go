package settings

// C44 harness: dumps the setting names the real code knows (the case domain "every setting name requested
// individually") and the code's own tables about them.  Projection only: no classification happens here.

import (
	"encoding/json"
	"os"
	"sort"
	"testing"

	"github.com/tucats/ego/internal/defs"
)

func TestVerifC44Names(t *testing.T) {
	out := os.Getenv("VERIF_OUT")
	if out == "" {
		t.Skip("VERIF_OUT not set")
	}

	keys := func(m map[string]bool) []string {
		r := []string{}
		for k := range m {
			r = append(r, k)
		}

		sort.Strings(r)

		return r
	}

	enc := []string{}
	for k := range encryptedKeyValue {
		enc = append(enc, k)
	}

	sort.Strings(enc)

	res := map[string]any{
		"valid":      keys(defs.ValidSettings),
		"restricted": keys(defs.RestrictedSettings),
		"readonly":   keys(defs.ReadonlySetting),
		"encrypted":  enc,
		"elided":     defs.ElidedPassword,
	}

	b, _ := json.MarshalIndent(res, "", " ")
	if err := os.WriteFile(out, b, 0o600); err != nil {
		t.Fatal(err)
	}
}

package assets

// C39 harness (binding F).  Overlaid into internal/server/assets as a _test.go
// file.  It only DRIVES and PROJECTS:
//   - builds on disk the fixture printed by the TLA+ spec (AssetRange!Fixture),
//   - executes every case printed by AssetRange_Gen on the real AssetsHandler,
//     routed through the real router (Router.ServeHTTP, including its panic
//     recovery), the request being parsed by net/http from the literal
//     request line the spec wrote,
//   - logs [in |-> the case, out |-> status, Content-Range, Content-Length,
//     body bytes, panicked] for the TLA+ contract to judge,
//   - writes the oracle reps.json: the real minifiers / Markdown renderer
//     applied to each whole raw file (the contract treats them as given).
// Nothing here decides whether a response is right.

import (
	"bufio"
	"encoding/json"
	"fmt"
	"io"
	"net"
	"net/http"
	"net/http/httptest"
	"os"
	"path/filepath"
	"strings"
	"sync/atomic"
	"testing"
	"time"

	"github.com/tucats/ego/internal/cli/settings"
	"github.com/tucats/ego/internal/defs"
	"github.com/tucats/ego/internal/router"
	"github.com/tucats/ego/internal/util/javascript"
)

type c39File struct {
	P    []string `json:"p"`
	ID   string   `json:"id"`
	Kind string   `json:"kind"`
}

type c39Out struct {
	P     []string `json:"p"`
	Bytes []int    `json:"bytes"`
}

type c39Link struct {
	P    []string `json:"p"`
	Zone string   `json:"zone"`
	Tgt  []string `json:"tgt"`
}

type c39Fixture struct {
	Raw      map[string][]int `json:"raw"`
	Files    []c39File        `json:"files"`
	Dirs     [][]string       `json:"dirs"`
	OutFiles []c39Out         `json:"outfiles"`
	Links    []c39Link        `json:"links"`
	OutDir   string           `json:"outdir"`
	Root     string           `json:"root"`
}

type c39Case struct {
	Method string `json:"method"`
	Min    bool   `json:"min"`
	Prime  string `json:"prime"`
	Path   struct {
		URL string `json:"url"`
	} `json:"path"`
	Range struct {
		Shape string `json:"shape"`
		Text  string `json:"text"`
	} `json:"range"`
}

type c39Resp struct {
	Status   int    `json:"status"`
	CR       string `json:"cr"`
	CL       string `json:"cl"`
	Body     []int  `json:"body"`
	Panicked bool   `json:"panicked"`
}

func c39Bytes(l []int) []byte {
	b := make([]byte, len(l))
	for i, v := range l {
		b[i] = byte(v)
	}
	return b
}

func c39Ints(b []byte) []int {
	l := make([]int, len(b))
	for i, v := range b {
		l[i] = int(v)
	}
	return l
}

func c39Build(fx *c39Fixture) (base string, err error) {
	base, err = os.MkdirTemp("/var/tmp", "c39fx-")
	if err != nil {
		return "", err
	}
	// resolve the scratch location itself so that nothing on the way to the root is a link
	if base, err = filepath.EvalSymlinks(base); err != nil {
		return "", err
	}
	root := filepath.Join(base, fx.Root)
	out := filepath.Join(base, fx.OutDir)
	for _, d := range fx.Dirs {
		if err = os.MkdirAll(filepath.Join(append([]string{root}, d...)...), 0o755); err != nil {
			return base, err
		}
	}
	if err = os.MkdirAll(out, 0o755); err != nil {
		return base, err
	}
	for _, f := range fx.Files {
		fn := filepath.Join(append([]string{root}, f.P...)...)
		if err = os.WriteFile(fn, c39Bytes(fx.Raw[f.ID]), 0o644); err != nil {
			return base, err
		}
	}
	for _, o := range fx.OutFiles {
		fn := filepath.Join(append([]string{out}, o.P...)...)
		if err = os.WriteFile(fn, c39Bytes(o.Bytes), 0o644); err != nil {
			return base, err
		}
	}
	for _, l := range fx.Links {
		from := root
		if l.Zone == "out" {
			from = out
		}
		tgt := filepath.Join(append([]string{from}, l.Tgt...)...)
		if err = os.Symlink(tgt, filepath.Join(append([]string{root}, l.P...)...)); err != nil {
			return base, err
		}
	}
	return base, nil
}

func TestVerifC39(t *testing.T) {
	in, outp, repsp := os.Getenv("VERIF_IN"), os.Getenv("VERIF_OUT"), os.Getenv("VERIF_REPS")
	if in == "" || outp == "" || repsp == "" {
		t.Skip("VERIF_IN/VERIF_OUT/VERIF_REPS not set")
	}
	var (
		fx    *c39Fixture
		cases []json.RawMessage
	)
	err := vkLoadLines(in, func(b []byte) error {
		var probe struct {
			Fixture *c39Fixture `json:"fixture"`
		}
		if err := json.Unmarshal(b, &probe); err != nil {
			return err
		}
		if probe.Fixture != nil {
			fx = probe.Fixture
			return nil
		}
		cases = append(cases, json.RawMessage(append([]byte(nil), b...)))
		return nil
	})
	if err != nil || fx == nil {
		t.Fatalf("cannot load cases: %v (fixture present: %v)", err, fx != nil)
	}
	base, err := c39Build(fx)
	if base != "" {
		defer os.RemoveAll(base)
	}
	if err != nil {
		t.Fatalf("fixture: %v", err)
	}
	os.Setenv("HOME", base) // no user profile is read or written outside the scratch tree
	root := filepath.Join(base, fx.Root)
	outAbs := strings.TrimPrefix(filepath.Join(base, fx.OutDir), "/")

	settings.SetDefault(defs.EgoLibPathSetting, root)
	settings.SetDefault(defs.JSShortVarNamesSetting, "false")
	settings.SetDefault(defs.JSMinifySetting, "false")

	// oracle: the real transformations of each whole raw file
	reps := map[string]map[string][]int{}
	for _, f := range fx.Files {
		raw := c39Bytes(fx.Raw[f.ID])
		mn, html := raw, raw
		switch f.Kind {
		case "js":
			mn = javascript.Minify(append([]byte(nil), raw...), false)
		case "css":
			mn = javascript.MinifyCSS(append([]byte(nil), raw...))
		case "md":
			html = mdToHTML(append([]byte(nil), raw...))
		}
		reps[f.ID] = map[string][]int{"min": c39Ints(mn), "html": c39Ints(html)}
	}
	if err := vkWriteResult(repsp, reps); err != nil {
		t.Fatal(err)
	}

	// the two asset routes of internal/commands/routes.go, the handler wrapped only to see a panic leave it
	var panicked atomic.Bool
	wrapped := func(s *router.Session, w http.ResponseWriter, r *http.Request) int {
		defer func() {
			if v := recover(); v != nil {
				panicked.Store(true)
				panic(v)
			}
		}()
		return AssetsHandler(s, w, r)
	}
	mux := router.NewRouter("verif-c39")
	mux.New(defs.AssetsPath+"{{item...}}", wrapped, http.MethodGet).Class(router.AssetRequestCounter)
	mux.New(defs.AssetsPath+"{{item...}}", wrapped, http.MethodHead).Class(router.AssetRequestCounter)

	// VERIF_WIRE=1: the same router behind a real net/http server on loopback; the request text is
	// written to the socket as is and the response is what arrives on the wire.
	wire := os.Getenv("VERIF_WIRE") == "1"
	var srv *httptest.Server
	if wire {
		srv = httptest.NewServer(mux)
		defer srv.Close()
	}

	do := func(method, url, rng string, hasRange bool) (c39Resp, error) {
		url = strings.ReplaceAll(url, "@OUT@", outAbs)
		raw := method + " " + url + " HTTP/1.1\r\nHost: verif\r\n"
		if hasRange {
			raw += "Range: " + rng + "\r\n"
		}
		if wire {
			raw += "Connection: close\r\n"
		}
		raw += "\r\n"
		panicked.Store(false)
		if wire {
			conn, err := net.DialTimeout("tcp", srv.Listener.Addr().String(), 10*time.Second)
			if err != nil {
				return c39Resp{}, err
			}
			defer conn.Close()
			conn.SetDeadline(time.Now().Add(30 * time.Second))
			if _, err := conn.Write([]byte(raw)); err != nil {
				return c39Resp{}, err
			}
			resp, err := http.ReadResponse(bufio.NewReader(conn), &http.Request{Method: method})
			if err != nil { // connection dropped without an answer
				return c39Resp{Status: 0, Body: []int{}, Panicked: panicked.Load()}, nil
			}
			body, rerr := io.ReadAll(resp.Body)
			resp.Body.Close()
			out := c39Resp{Status: resp.StatusCode, CR: resp.Header.Get("Content-Range"), CL: resp.Header.Get("Content-Length"),
				Body: c39Ints(body), Panicked: panicked.Load()}
			if rerr != nil { // declared length and bytes on the wire disagree
				out.CL = "broken:" + rerr.Error()
			}
			return out, nil
		}
		req, err := http.ReadRequest(bufio.NewReader(strings.NewReader(raw)))
		if err != nil {
			return c39Resp{}, fmt.Errorf("net/http rejects the request line %q: %v", raw, err)
		}
		req.RemoteAddr = "127.0.0.1:9"
		w := httptest.NewRecorder()
		func() {
			defer func() {
				if v := recover(); v != nil { // recovery disabled: the panic reaches the server loop
					panicked.Store(true)
					w.Code = 0
				}
			}()
			mux.ServeHTTP(w, req)
		}()
		return c39Resp{Status: w.Code, CR: w.Header().Get("Content-Range"), CL: w.Header().Get("Content-Length"),
			Body: c39Ints(w.Body.Bytes()), Panicked: panicked.Load()}, nil
	}

	tw, err := vkNewTrace(outp)
	if err != nil {
		t.Fatal(err)
	}
	defer tw.Close()
	for _, rawCase := range cases {
		var c c39Case
		if err := json.Unmarshal(rawCase, &c); err != nil {
			t.Fatalf("bad case %s: %v", rawCase, err)
		}
		FlushAssetCache()
		settings.SetDefault(defs.JSMinifySetting, fmt.Sprint(c.Min))
		if c.Prime != "" {
			if _, err := do("GET", c.Prime, "", false); err != nil {
				t.Fatal(err)
			}
		}
		out, err := do(c.Method, c.Path.URL, c.Range.Text, c.Range.Shape != "none")
		if err != nil {
			t.Fatal(err)
		}
		tw.Emit(map[string]any{"in": rawCase, "out": out})
	}
}

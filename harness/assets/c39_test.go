package assets

// C39 harness (binding F).  Overlaid into internal/server/assets as a _test.go
// file.  It only DRIVES and PROJECTS:
//   - builds on disk the fixture printed by the TLA+ spec (AssetRange!Fixture;
//     small files as bytes, big files in run-length form),
//   - sequential stage: executes every case printed by AssetRange_Gen on the
//     real AssetsHandler, routed through the real router (Router.ServeHTTP,
//     including its panic recovery), the request being parsed by net/http from
//     the literal request line the spec wrote (VERIF_WIRE=1: behind a real
//     net/http server on loopback, raw request on a TCP connection),
//   - concurrent stage (VERIF_IN_CONC, VERIF_CONC): the given cases are issued by
//     several clients at once against the real server, once per GOMAXPROCS value;
//     the ResponseWriter handed to AssetsHandler yields the processor at every
//     call (a legal schedule, no sleeping) so that requests overlap between the
//     handler's Loader call and its Write,
//   - logs [stage, in |-> the case, out |-> status, Content-Range, Content-Length,
//     body (bytes, or canonical run-length form when longer than 256 bytes),
//     panicked] for the TLA+ contract to judge,
//   - writes the oracle reps.json: the real minifiers / Markdown renderer
//     applied to each whole raw file (the contract treats them as given).
// Nothing here decides whether a response is right.

import (
	"bufio"
	"encoding/json"
	"fmt"
	"io"
	"net"
	"net/http"
	"net/http/httptest"
	"os"
	"path/filepath"
	"runtime"
	"strconv"
	"strings"
	"sync"
	"sync/atomic"
	"testing"
	"time"

	"github.com/tucats/ego/internal/cli/settings"
	"github.com/tucats/ego/internal/defs"
	"github.com/tucats/ego/internal/router"
	"github.com/tucats/ego/internal/util/javascript"
)

type c39File struct {
	P    []string `json:"p"`
	ID   string   `json:"id"`
	Kind string   `json:"kind"`
	Size int      `json:"size"`
	RLE  [][2]int `json:"rle"`
}

type c39Out struct {
	P     []string `json:"p"`
	Bytes []int    `json:"bytes"`
}

type c39Link struct {
	P    []string `json:"p"`
	Zone string   `json:"zone"`
	Tgt  []string `json:"tgt"`
}

type c39Fixture struct {
	Raw      map[string][]int `json:"raw"`
	Files    []c39File        `json:"files"`
	BigFiles []c39File        `json:"bigfiles"`
	Dirs     [][]string       `json:"dirs"`
	OutFiles []c39Out         `json:"outfiles"`
	Links    []c39Link        `json:"links"`
	OutDir   string           `json:"outdir"`
	Root     string           `json:"root"`
}

type c39Case struct {
	Method string `json:"method"`
	Min    bool   `json:"min"`
	Prime  string `json:"prime"`
	Path   struct {
		URL string `json:"url"`
	} `json:"path"`
	Range struct {
		Shape string `json:"shape"`
		Text  string `json:"text"`
	} `json:"range"`
}

type c39Resp struct {
	Status   int      `json:"status"`
	CR       string   `json:"cr"`
	CL       string   `json:"cl"`
	Body     []int    `json:"body"`
	Big      bool     `json:"big"`
	RLE      [][2]int `json:"rle"`
	Panicked bool     `json:"panicked"`
}

const c39BigBody = 256

func c39Bytes(l []int) []byte {
	b := make([]byte, len(l))
	for i, v := range l {
		b[i] = byte(v)
	}
	return b
}

func c39Ints(b []byte) []int {
	l := make([]int, len(b))
	for i, v := range b {
		l[i] = int(v)
	}
	return l
}

// c39Project: the body as logged (lossless): bytes, or canonical run-length form.
func c39Project(r *c39Resp, body []byte) {
	r.Body, r.RLE = []int{}, [][2]int{}
	if len(body) <= c39BigBody {
		r.Body = c39Ints(body)
		return
	}
	r.Big = true
	for i := 0; i < len(body); {
		j := i
		for j < len(body) && body[j] == body[i] {
			j++
		}
		r.RLE = append(r.RLE, [2]int{int(body[i]), j - i})
		i = j
	}
}

func c39Build(fx *c39Fixture) (base string, err error) {
	base, err = os.MkdirTemp("/var/tmp", "c39fx-")
	if err != nil {
		return "", err
	}
	// resolve the scratch location itself so that nothing on the way to the root is a link
	if base, err = filepath.EvalSymlinks(base); err != nil {
		return "", err
	}
	root := filepath.Join(base, fx.Root)
	out := filepath.Join(base, fx.OutDir)
	for _, d := range fx.Dirs {
		if err = os.MkdirAll(filepath.Join(append([]string{root}, d...)...), 0o755); err != nil {
			return base, err
		}
	}
	if err = os.MkdirAll(out, 0o755); err != nil {
		return base, err
	}
	for _, f := range fx.Files {
		fn := filepath.Join(append([]string{root}, f.P...)...)
		if err = os.WriteFile(fn, c39Bytes(fx.Raw[f.ID]), 0o644); err != nil {
			return base, err
		}
	}
	for _, f := range fx.BigFiles {
		fn := filepath.Join(append([]string{root}, f.P...)...)
		data := make([]byte, 0, f.Size)
		for _, run := range f.RLE {
			for k := 0; k < run[1]; k++ {
				data = append(data, byte(run[0]))
			}
		}
		if len(data) != f.Size {
			return base, fmt.Errorf("big file %s: run lengths add up to %d, size says %d", f.ID, len(data), f.Size)
		}
		if err = os.WriteFile(fn, data, 0o644); err != nil {
			return base, err
		}
	}
	for _, o := range fx.OutFiles {
		fn := filepath.Join(append([]string{out}, o.P...)...)
		if err = os.WriteFile(fn, c39Bytes(o.Bytes), 0o644); err != nil {
			return base, err
		}
	}
	for _, l := range fx.Links {
		from := root
		if l.Zone == "out" {
			from = out
		}
		tgt := filepath.Join(append([]string{from}, l.Tgt...)...)
		if err = os.Symlink(tgt, filepath.Join(append([]string{root}, l.P...)...)); err != nil {
			return base, err
		}
	}
	return base, nil
}

// c39Yield gives up the processor at every call the handler makes on its ResponseWriter.
type c39Yield struct{ http.ResponseWriter }

func (y c39Yield) Header() http.Header { runtime.Gosched(); return y.ResponseWriter.Header() }
func (y c39Yield) WriteHeader(c int)   { runtime.Gosched(); y.ResponseWriter.WriteHeader(c) }
func (y c39Yield) Write(b []byte) (int, error) {
	runtime.Gosched()
	return y.ResponseWriter.Write(b)
}

func c39LoadCases(path string) (fx *c39Fixture, cases []json.RawMessage, err error) {
	err = vkLoadLines(path, func(b []byte) error {
		var probe struct {
			Fixture *c39Fixture `json:"fixture"`
		}
		if err := json.Unmarshal(b, &probe); err != nil {
			return err
		}
		if probe.Fixture != nil {
			fx = probe.Fixture
			return nil
		}
		cases = append(cases, json.RawMessage(append([]byte(nil), b...)))
		return nil
	})
	return
}

func TestVerifC39(t *testing.T) {
	in, outp, repsp := os.Getenv("VERIF_IN"), os.Getenv("VERIF_OUT"), os.Getenv("VERIF_REPS")
	if in == "" || outp == "" || repsp == "" {
		t.Skip("VERIF_IN/VERIF_OUT/VERIF_REPS not set")
	}
	fx, cases, err := c39LoadCases(in)
	if err != nil || fx == nil {
		t.Fatalf("cannot load cases: %v (fixture present: %v)", err, fx != nil)
	}
	var concCases []json.RawMessage
	if p := os.Getenv("VERIF_IN_CONC"); p != "" {
		if _, concCases, err = c39LoadCases(p); err != nil {
			t.Fatalf("cannot load concurrent cases: %v", err)
		}
	}
	base, err := c39Build(fx)
	if base != "" {
		defer os.RemoveAll(base)
	}
	if err != nil {
		t.Fatalf("fixture: %v", err)
	}
	os.Setenv("HOME", base) // no user profile is read or written outside the scratch tree
	root := filepath.Join(base, fx.Root)
	outAbs := strings.TrimPrefix(filepath.Join(base, fx.OutDir), "/")

	settings.SetDefault(defs.EgoLibPathSetting, root)
	settings.SetDefault(defs.JSShortVarNamesSetting, "false")
	settings.SetDefault(defs.JSMinifySetting, "false")

	// oracle: the real transformations of each whole raw file
	reps := map[string]map[string][]int{}
	for _, f := range fx.Files {
		raw := c39Bytes(fx.Raw[f.ID])
		mn, html := raw, raw
		switch f.Kind {
		case "js":
			mn = javascript.Minify(append([]byte(nil), raw...), false)
		case "css":
			mn = javascript.MinifyCSS(append([]byte(nil), raw...))
		case "md":
			html = mdToHTML(append([]byte(nil), raw...))
		}
		reps[f.ID] = map[string][]int{"min": c39Ints(mn), "html": c39Ints(html)}
	}
	if err := vkWriteResult(repsp, reps); err != nil {
		t.Fatal(err)
	}

	// the two asset routes of internal/commands/routes.go; the handler is wrapped only to see a panic
	// leave it (keyed by the X-Verif-Id header the client sent) and, in the concurrent stage, to yield
	var (
		panics sync.Map
		yield  atomic.Bool
	)
	wrapped := func(s *router.Session, w http.ResponseWriter, r *http.Request) int {
		defer func() {
			if v := recover(); v != nil {
				panics.Store(r.Header.Get("X-Verif-Id"), true)
				panic(v)
			}
		}()
		if yield.Load() {
			w = c39Yield{w}
		}
		return AssetsHandler(s, w, r)
	}
	mux := router.NewRouter("verif-c39")
	mux.New(defs.AssetsPath+"{{item...}}", wrapped, http.MethodGet).Class(router.AssetRequestCounter)
	mux.New(defs.AssetsPath+"{{item...}}", wrapped, http.MethodHead).Class(router.AssetRequestCounter)

	// VERIF_WIRE=1 (and always in the concurrent stage): the same router behind a real net/http server on
	// loopback; the request text is written to the socket as is and the response is what arrives on the wire.
	wire := os.Getenv("VERIF_WIRE") == "1"
	var srv *httptest.Server
	if wire || len(concCases) > 0 {
		srv = httptest.NewServer(mux)
		defer srv.Close()
	}
	var seq int64
	var seqMu sync.Mutex
	nextID := func() string {
		seqMu.Lock()
		defer seqMu.Unlock()
		seq++
		return strconv.FormatInt(seq, 10)
	}

	do := func(onWire bool, method, url, rng string, hasRange bool) (c39Resp, error) {
		id := nextID()
		url = strings.ReplaceAll(url, "@OUT@", outAbs)
		raw := method + " " + url + " HTTP/1.1\r\nHost: verif\r\nX-Verif-Id: " + id + "\r\n"
		if hasRange {
			raw += "Range: " + rng + "\r\n"
		}
		if onWire {
			raw += "Connection: close\r\n"
		}
		raw += "\r\n"
		didPanic := func() bool { _, ok := panics.LoadAndDelete(id); return ok }
		if onWire {
			conn, err := net.DialTimeout("tcp", srv.Listener.Addr().String(), 20*time.Second)
			if err != nil {
				return c39Resp{}, err
			}
			defer conn.Close()
			conn.SetDeadline(time.Now().Add(120 * time.Second))
			if _, err := conn.Write([]byte(raw)); err != nil {
				return c39Resp{}, err
			}
			resp, err := http.ReadResponse(bufio.NewReader(conn), &http.Request{Method: method})
			if err != nil { // connection dropped without an answer
				out := c39Resp{Status: 0, Panicked: didPanic()}
				c39Project(&out, nil)
				return out, nil
			}
			body, rerr := io.ReadAll(resp.Body)
			resp.Body.Close()
			out := c39Resp{Status: resp.StatusCode, CR: resp.Header.Get("Content-Range"), CL: resp.Header.Get("Content-Length"),
				Panicked: didPanic()}
			c39Project(&out, body)
			if rerr != nil { // declared length and bytes on the wire disagree
				out.CL = "broken:" + rerr.Error()
			}
			return out, nil
		}
		req, err := http.ReadRequest(bufio.NewReader(strings.NewReader(raw)))
		if err != nil {
			return c39Resp{}, fmt.Errorf("net/http rejects the request line %q: %v", raw, err)
		}
		req.RemoteAddr = "127.0.0.1:9"
		w := httptest.NewRecorder()
		escaped := false
		func() {
			defer func() {
				if v := recover(); v != nil { // recovery disabled: the panic reaches the server loop
					escaped = true
					w.Code = 0
				}
			}()
			mux.ServeHTTP(w, req)
		}()
		out := c39Resp{Status: w.Code, CR: w.Header().Get("Content-Range"), CL: w.Header().Get("Content-Length"),
			Panicked: didPanic() || escaped}
		c39Project(&out, w.Body.Bytes())
		return out, nil
	}

	tw, err := vkNewTrace(outp)
	if err != nil {
		t.Fatal(err)
	}
	defer tw.Close()

	// ---- sequential stage: one case at a time on a flushed cache (plus its priming GET)
	for _, rawCase := range cases {
		var c c39Case
		if err := json.Unmarshal(rawCase, &c); err != nil {
			t.Fatalf("bad case %s: %v", rawCase, err)
		}
		FlushAssetCache()
		settings.SetDefault(defs.JSMinifySetting, fmt.Sprint(c.Min))
		if c.Prime != "" {
			if _, err := do(wire, "GET", c.Prime, "", false); err != nil {
				t.Fatal(err)
			}
		}
		out, err := do(wire, c.Method, c.Path.URL, c.Range.Text, c.Range.Shape != "none")
		if err != nil {
			t.Fatal(err)
		}
		tw.Emit(map[string]any{"stage": "seq", "in": rawCase, "out": out})
	}

	// ---- concurrent stage
	if len(concCases) == 0 {
		return
	}
	clients := vkEnvInt("VERIF_CONC_CLIENTS", 8)
	parsed := make([]c39Case, len(concCases))
	for i, rc := range concCases {
		if err := json.Unmarshal(rc, &parsed[i]); err != nil {
			t.Fatalf("bad case %s: %v", rc, err)
		}
	}
	old := runtime.GOMAXPROCS(0)
	defer runtime.GOMAXPROCS(old)
	yield.Store(true)
	for _, g := range strings.Split(vkEnv("VERIF_CONC", "1,4"), ",") {
		gmp, err := strconv.Atoi(strings.TrimSpace(g))
		if err != nil || gmp < 1 {
			t.Fatalf("bad VERIF_CONC entry %q", g)
		}
		for _, min := range []bool{false, true} {
			var idx []int
			for i := range parsed {
				if parsed[i].Min == min {
					idx = append(idx, i)
				}
			}
			if len(idx) == 0 {
				continue
			}
			runtime.GOMAXPROCS(gmp)
			FlushAssetCache()
			settings.SetDefault(defs.JSMinifySetting, fmt.Sprint(min))
			outs := make([]c39Resp, len(idx))
			errs := make([]error, len(idx))
			work := make(chan int)
			var wg sync.WaitGroup
			for c := 0; c < clients; c++ {
				wg.Add(1)
				go func() {
					defer wg.Done()
					for k := range work {
						cs := &parsed[idx[k]]
						outs[k], errs[k] = do(true, cs.Method, cs.Path.URL, cs.Range.Text, cs.Range.Shape != "none")
					}
				}()
			}
			for k := range idx {
				work <- k
			}
			close(work)
			wg.Wait()
			for k := range idx {
				if errs[k] != nil {
					t.Fatalf("concurrent stage (GOMAXPROCS=%d): %v", gmp, errs[k])
				}
				tw.Emit(map[string]any{"stage": "conc", "gomaxprocs": gmp, "in": concCases[idx[k]], "out": outs[k]})
			}
		}
	}
}

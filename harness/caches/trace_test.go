package caches

// Binding T for spec/Caches: concurrent callers on the real package; one event
// per critical section (emitted by the verif hook while cacheLock is held) and
// one per eviction callback / OnPurge firing; TLC validates the log.

import (
	"fmt"
	"math/rand"
	"sync"
	"testing"
	"time"
)

type vkCacheEv struct {
	Run   int    `json:"run"`
	Seq   int    `json:"seq"`
	Ev    string `json:"ev"`
	C     string `json:"c"`
	K     string `json:"k"`
	V     string `json:"v"`
	Reply string `json:"reply"`
	D     int    `json:"d"`
}

type vkCacheLog struct {
	mu   sync.Mutex
	run  int
	seq  int
	evs  []vkCacheEv
	bc   int // broadcasts observed
	pbc  int // Purge(notify) critical sections observed
	name map[int]string
}

func (l *vkCacheLog) add(e vkCacheEv) {
	l.mu.Lock()
	l.seq++
	e.Run, e.Seq = l.run, l.seq
	l.evs = append(l.evs, e)
	l.mu.Unlock()
}

func vkStrOrEmpty(v any) string {
	if v == nil {
		return ""
	}
	return fmt.Sprint(v)
}

func (l *vkCacheLog) sink(op string, id int, key any, value any, ok bool) {
	c, known := l.name[id]
	if !known {
		return
	}
	e := vkCacheEv{Ev: op, C: c, K: vkStrOrEmpty(key)}
	switch op {
	case "Add":
		e.V = fmt.Sprint(value)
		e.Reply = map[bool]string{true: "stored", false: "rejected"}[ok]
	case "Find":
		e.Reply = "miss"
		if ok {
			e.Reply = fmt.Sprint(value)
		}
	case "Delete":
		e.Reply = fmt.Sprint(ok)
	case "Purge":
		if notify, _ := value.(bool); !notify {
			e.Ev = "PurgeLocal"
		} else {
			l.mu.Lock()
			l.pbc++
			l.mu.Unlock()
		}
	case "SetExpiration":
		e.D = int(value.(time.Duration) / vkTick)
	case "Sweep":
		e.Reply = fmt.Sprint(ok)
		e.D, _ = value.(int)
	}
	l.add(e)
}

func TestVerifCachesConcurrent(t *testing.T) {
	out := vkEnv("VERIF_OUT", "")
	if out == "" {
		t.Skip("VERIF_OUT not set")
	}
	runs, workers, ops := vkEnvInt("VERIF_RUNS", 20), vkEnvInt("VERIF_WORKERS", 6), vkEnvInt("VERIF_OPS", 40)
	seed := int64(vkEnvInt("VERIF_SEED", 1))
	tw, err := vkNewTrace(out)
	if err != nil {
		t.Fatal(err)
	}
	defer tw.Close()
	lg := &vkCacheLog{}
	scanTime = "100000h"
	expireTime = fmt.Sprintf("%dh", vkEnvInt("VERIF_DEFAULT_LIFE", 2))
	MaxCacheSize = vkEnvInt("VERIF_LIMIT", 2)
	VerifSink = lg.sink
	SetOnEvict(func(id int, key any, value any) {
		if c, ok := lg.name[id]; ok {
			lg.add(vkCacheEv{Ev: "Notify", C: c, K: fmt.Sprint(key), V: fmt.Sprint(value)})
		}
	})
	OnPurge = func(id int) {
		if c, ok := lg.name[id]; ok {
			lg.mu.Lock()
			lg.bc++
			lg.mu.Unlock()
			lg.add(vkCacheEv{Ev: "Broadcast", C: c})
		}
	}
	keys := []string{"k1", "k2", "k3"}
	lives := []int{1, 3}
	for r := 1; r <= runs; r++ {
		base := 5000 + r*8
		ids := []int{base, base + 1}
		lg.mu.Lock()
		lg.run, lg.evs, lg.bc, lg.pbc = r, nil, 0, 0
		lg.name = map[int]string{ids[0]: "c1", ids[1]: "c2"}
		lg.mu.Unlock()
		var wg sync.WaitGroup
		for w := 0; w < workers; w++ {
			wg.Add(1)
			go func(w int) {
				defer wg.Done()
				rng := rand.New(rand.NewSource(seed*1000003 + int64(r)*1009 + int64(w)))
				for i := 0; i < ops; i++ {
					id, k := ids[rng.Intn(2)], keys[rng.Intn(3)]
					switch n := rng.Intn(100); {
					case n < 30:
						Add(id, k, fmt.Sprintf("r%dw%di%d", r, w, i)) // every producer's values are distinguishable
					case n < 55:
						Find(id, k)
					case n < 72:
						Delete(id, k)
					case n < 77:
						Purge(id)
					case n < 81:
						PurgeLocal(id)
					case n < 86:
						SetExpiration(id, fmt.Sprintf("%dh", lives[rng.Intn(2)]))
					case n < 93:
						sweepExpired(id)
					default:
						cacheLock.Lock()
						for _, c := range cacheList {
							for kk, it := range c.Items {
								it.Expires = it.Expires.Add(-vkTick)
								c.Items[kk] = it
							}
						}
						lg.add(vkCacheEv{Ev: "Tick"})
						cacheLock.Unlock()
					}
				}
			}(w)
		}
		wg.Wait()
		for i := 0; i < 3000; i++ { // OnPurge runs on goroutines of its own
			lg.mu.Lock()
			done := lg.bc >= lg.pbc
			lg.mu.Unlock()
			if done {
				break
			}
			time.Sleep(time.Millisecond)
		}
		time.Sleep(2 * time.Millisecond)
		lg.mu.Lock()
		for _, e := range lg.evs {
			tw.Emit(e)
		}
		tw.Emit(vkCacheEv{Run: r + 1, Seq: 0, Ev: "Reset", D: lg.bc})
		lg.mu.Unlock()
		for _, id := range ids {
			PurgeLocal(id)
		}
	}
	VerifSink = nil
}

package caches

// Binding R for spec/Caches: replays TLC behaviours through the real package and
// compares reply and projected state with what TLC computed after every step.

import (
	"fmt"
	"sync"
	"sync/atomic"
	"testing"
	"time"
)

const vkTick = time.Hour

// Every behaviour gets cache classes of its own, so that nothing a previous
// behaviour configured can leak into the next one whatever the implementation
// keeps per class.
var vkClassID = map[string]int{}

func vkFreshClasses(behaviour int) {
	base := 1000 + behaviour*8
	vkClassID = map[string]int{"c1": base, "c2": base + 1, "c3": base + 2}
}

type vkEvict struct {
	C, K, V string
}

type vkCacheWorld struct {
	mu         sync.Mutex
	evicted    []vkEvict
	broadcasts atomic.Int64
}

var vkW = &vkCacheWorld{}

func vkClassName(id int) string {
	for n, i := range vkClassID {
		if i == id {
			return n
		}
	}
	return fmt.Sprint(id)
}

func vkResetCaches(limit, defaultLife int) {
	for _, id := range vkClassID {
		PurgeLocal(id) // drop the previous behaviour's caches (frees memory; classes are never reused)
	}
	scanTime = "100000h" // background sweepers never fire during a run; Sweep is driven explicitly
	expireTime = fmt.Sprintf("%dh", defaultLife)
	MaxCacheSize = limit
	vkW.mu.Lock()
	vkW.evicted = nil
	vkW.mu.Unlock()
	vkW.broadcasts.Store(0)
	SetOnEvict(func(id int, key any, value any) {
		vkW.mu.Lock()
		vkW.evicted = append(vkW.evicted, vkEvict{vkClassName(id), fmt.Sprint(key), fmt.Sprint(value)})
		vkW.mu.Unlock()
	})
	OnPurge = func(int) { vkW.broadcasts.Add(1) }
}

// vkAge lets one unit of virtual time pass: every stored deadline moves one tick closer.
func vkAge() {
	cacheLock.Lock()
	defer cacheLock.Unlock()
	for _, c := range cacheList {
		for k, it := range c.Items {
			it.Expires = it.Expires.Add(-vkTick)
			c.Items[k] = it
		}
	}
}

func vkProject(classes []string) map[string]any {
	cacheLock.Lock()
	now := time.Now()
	cs := map[string]any{}
	for _, name := range classes {
		c, ok := cacheList[vkClassID[name]]
		items := map[string]any{}
		life := 0
		if ok {
			life = int(c.Expiration / vkTick)
			for k, it := range c.Items {
				ttl := int((it.Expires.Sub(now) + vkTick/2) / vkTick)
				if it.Expires.Sub(now) < -vkTick/2 {
					ttl = -int((now.Sub(it.Expires) + vkTick/2) / vkTick)
				}
				items[fmt.Sprint(k)] = map[string]any{"val": fmt.Sprint(it.Data), "ttl": ttl}
			}
		}
		cs[name] = map[string]any{"on": ok, "life": life, "items": items}
	}
	cacheLock.Unlock()
	vkW.mu.Lock()
	ev := make([]any, 0, len(vkW.evicted))
	seen := map[vkEvict]bool{}
	for _, e := range vkW.evicted {
		if !seen[e] { // the spec's "evicted" is a set of (c,k,v); multiplicity is in nevicted
			seen[e] = true
			ev = append(ev, map[string]any{"c": e.C, "k": e.K, "v": e.V})
		}
	}
	n := len(vkW.evicted)
	vkW.mu.Unlock()
	return map[string]any{"cache": cs, "evicted": ev, "nevicted": n, "broadcasts": int(vkW.broadcasts.Load())}
}

// vkCall executes one spec action on the real code and returns the reply in the spec's vocabulary.
func vkCall(call map[string]any) (string, error) {
	c := vkClassID[vkStr(call, "c")]
	k, v := vkStr(call, "k"), vkStr(call, "v")
	switch vkStr(call, "act") {
	case "Add":
		before := Size(c)
		_, had := func() (any, bool) { // peek without refreshing
			cacheLock.Lock()
			defer cacheLock.Unlock()
			if cc, ok := cacheList[c]; ok {
				it, ok2 := cc.Items[k]
				return it, ok2
			}
			return nil, false
		}()
		Add(c, k, v)
		// reply is observed, not predicted: did the entry land?
		cacheLock.Lock()
		stored := false
		if cc, ok := cacheList[c]; ok {
			if it, ok2 := cc.Items[k]; ok2 && fmt.Sprint(it.Data) == v {
				stored = true
			}
		}
		cacheLock.Unlock()
		_, _ = before, had
		if stored {
			return "stored", nil
		}
		return "rejected", nil
	case "Find":
		val, ok := Find(c, k)
		if !ok {
			return "miss", nil
		}
		return fmt.Sprint(val), nil
	case "Delete":
		return fmt.Sprint(Delete(c, k)), nil
	case "Purge":
		want := vkW.broadcasts.Load() + 1
		Purge(c)
		for i := 0; i < 2000 && vkW.broadcasts.Load() < want; i++ { // OnPurge runs on its own goroutine
			time.Sleep(time.Millisecond)
		}
		return "", nil
	case "PurgeLocal":
		PurgeLocal(c)
		return "", nil
	case "SetExpiration":
		return "", SetExpiration(c, fmt.Sprintf("%dh", vkInt(call, "d")))
	case "Sweep":
		return fmt.Sprint(sweepExpired(c)), nil
	case "Tick":
		vkAge()
		return "", nil
	}
	return "", fmt.Errorf("unknown action %q", vkStr(call, "act"))
}

func TestVerifCachesReplay(t *testing.T) {
	in, out := vkEnv("VERIF_IN", ""), vkEnv("VERIF_OUT", "")
	if in == "" || out == "" {
		t.Skip("VERIF_IN/VERIF_OUT not set")
	}
	limit, life := vkEnvInt("VERIF_LIMIT", 2), vkEnvInt("VERIF_DEFAULT_LIFE", 2)
	bs, err := vkLoadBehaviours(in)
	if err != nil {
		t.Fatal(err)
	}
	res := vkResult{ActCounts: map[string]int{}}
	seenTr := map[string]bool{}
	asSet := func(p string) bool { return p == ".evicted" }
	for bi, steps := range bs {
		vkResetCaches(limit, life)
		vkFreshClasses(bi)
		classes := []string{}
		if len(steps) > 0 {
			if st, ok := steps[0].St.(map[string]any); ok {
				if cm, ok := st["cache"].(map[string]any); ok {
					for n := range cm {
						classes = append(classes, n)
					}
				}
			}
		}
		prev := "init"
		for si, s := range steps {
			act := vkStr(s.Call, "act")
			reply, err := vkCall(s.Call)
			if err != nil {
				reply = "error:" + err.Error()
			}
			res.Steps++
			res.ActCounts[act]++
			tr := prev + "|" + vkCanon(s.Call)
			if !seenTr[tr] {
				seenTr[tr] = true
			}
			got := vkProject(classes)
			bad := false
			if reply != vkStr(s.Call, "reply") {
				res.Mismatches = append(res.Mismatches, vkMismatch{bi, si, act, "reply", vkStr(s.Call, "reply"), reply, nil})
				bad = true
			} else if p, w, g := vkDiff("", s.St, got, asSet); p != "" {
				res.Mismatches = append(res.Mismatches, vkMismatch{bi, si, act, p, w, g, nil})
				bad = true
			}
			if bad {
				m := &res.Mismatches[len(res.Mismatches)-1]
				for _, ps := range steps[:si+1] {
					m.Prefix = append(m.Prefix, ps.Call)
				}
				break // state diverged; the rest of this behaviour is meaningless
			}
			prev = vkCanon(s.St)
		}
		res.Behaviours++
		if len(res.Mismatches) >= 200 {
			break
		}
	}
	res.Transitions = len(seenTr)
	if err := vkWriteResult(out, res); err != nil {
		t.Fatal(err)
	}
}

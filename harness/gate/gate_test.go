package commands

// Binding for spec/Gate (property C20), overlaid as internal/commands/zz_verif_c20_test.go.
//
// TLC (Gate_Gen) supplies every builder-call sequence and every request of the
// quantifier.  This driver
//   - declares a REAL route with each sequence on a fresh router.Router (real
//     Authentication/Permissions/LightWeight/... calls), reads the real route record
//     back after every call, and sends the requests through the real
//     Router.ServeHTTP with a recording handler;
//   - builds the server's REAL route table exactly as `ego server` does
//     (setupServerRouter: static routes, lib/services, native admin handlers, OAuth
//     AS/RS routes, redirects), swaps every handler for a recorder and sends every
//     credential form for a population of users derived from the table's own
//     permission lists.
// Every credential is real: bcrypt password records in the real user store, native
// tokens from tokens.New (expired: negative lifetime, tampered: one hex digit changed,
// revoked: tokens.Blacklist), JWTs signed with the key the real resource-server code
// fetched from an httptest identity provider (bad signature: another key; expired: exp
// in the past).  It only drives, projects and logs: io.ndjson is judged by the TLA+
// contract Gate_Trace.  Nothing here decides what is right.

import (
	"crypto/ecdsa"
	"crypto/elliptic"
	"crypto/rand"
	"crypto/sha256"
	"crypto/x509"
	"encoding/base64"
	"encoding/json"
	"encoding/pem"
	"fmt"
	"net/http"
	"net/http/httptest"
	"os"
	"path/filepath"
	"sort"
	"strconv"
	"strings"
	"sync"
	"testing"
	"time"

	"github.com/tucats/ego/internal/caches"
	"github.com/tucats/ego/internal/cli/settings"
	"github.com/tucats/ego/internal/defs"
	"github.com/tucats/ego/internal/language/tokens"
	"github.com/tucats/ego/internal/router"
	"github.com/tucats/ego/internal/server/auth"
	"github.com/tucats/ego/internal/server/oauth"
	"github.com/tucats/ego/internal/server/services"
	"golang.org/x/crypto/bcrypt"
)

type gCall struct {
	Op string   `json:"op"`
	B  bool     `json:"b"`
	Ps []string `json:"ps"`
}

type gReq struct {
	Form     string   `json:"form"`
	Method   string   `json:"method"`
	Sub      string   `json:"sub"`
	SubPerms []string `json:"subperms"`
	IDPerms  []string `json:"idperms"`
}

type gIn struct {
	Kind  string  `json:"kind"`
	Calls []gCall `json:"calls"`
	gReq
}

type gBuildRec struct {
	Kind  string                 `json:"kind"`
	Calls []gCall                `json:"calls"`
	After []router.VerifC20Flags `json:"after"`
}

type gReqRec struct {
	Kind    string               `json:"kind"`
	Src     string               `json:"src"`
	Route   string               `json:"route"`
	Flags   router.VerifC20Flags `json:"flags"`
	Req     gReq                 `json:"req"`
	Invoked bool                 `json:"invoked"`
	Status  int                  `json:"status"`
	N       int                  `json:"n"`
	Calls   []gCall              `json:"calls"`
}

type gSummary struct {
	Sequences      int            `json:"sequences"`
	DistinctFlags  int            `json:"distinct_flags"`
	GenRequests    int            `json:"gen_requests"`
	GenInvoked     int            `json:"gen_invoked"`
	TableRoutes    int            `json:"table_routes"`
	TableAddressed int            `json:"table_routes_addressed"`
	TableRequests  int            `json:"table_requests"`
	TableInvoked   int            `json:"table_invoked"`
	TableReached   int            `json:"table_routes_handler_reached"`
	TableUsers     map[string]any `json:"table_users"`
	Unaddressed    []string       `json:"table_routes_unaddressed"`
	FormCounts     map[string]int `json:"form_counts"`
	Records        int            `json:"records"`
	Elapsed        float64        `json:"elapsed_s"`
	Fatal          string         `json:"fatal,omitempty"`
}

const (
	gTokenKey = "00000000-0000-0000-0000-000000000020-00000000-0000-0000-0000-0000000000c0"
	gInstance = "aaaaaaaa-aaaa-aaaa-aaaa-aaaaaaaaaa20"
	gAudience = "ego-api"
	gClient   = "verif-c20"
	gReqHdr   = "X-Verif-Req"
)

type gWorld struct {
	mu     sync.Mutex
	hits   map[string]string // request id -> endpoint+method of the route whose handler ran
	seq    int
	perms  map[string][]string          // user -> permissions as stored
	tok    map[string]map[string]string // form -> user -> bearer string
	key    *ecdsa.PrivateKey
	other  *ecdsa.PrivateKey
	issuer string
	jwt    map[string]string // cache: form|sub|scope -> jwt
}

func gB64(b []byte) string { return base64.RawURLEncoding.EncodeToString(b) }

func gPw(u string) string { return "right-" + u + "-pw" }

func gSorted(l []string) []string {
	o := append([]string{}, l...)
	sort.Strings(o)

	return o
}

func (w *gWorld) hit(r *router.Route, req *http.Request) {
	i := r.VerifC20Info()
	w.mu.Lock()
	w.hits[req.Header.Get(gReqHdr)] = i.Method + " " + i.Endpoint
	w.mu.Unlock()
}

func (w *gWorld) sign(k *ecdsa.PrivateKey, input string) string {
	h := sha256.Sum256([]byte(input))
	r, s, err := ecdsa.Sign(rand.Reader, k, h[:])
	if err != nil {
		panic(err)
	}
	out := make([]byte, 64)
	r.FillBytes(out[:32])
	s.FillBytes(out[32:])

	return gB64(out)
}

// mintJWT: form jwt_valid | jwt_badsig | jwt_expired ; scope tokens "s:<perm>" map 1:1 to permissions.
func (w *gWorld) mintJWT(form, sub string, idperms []string) string {
	sc := []string{}
	for _, p := range gSorted(idperms) {
		sc = append(sc, "s:"+p)
	}
	ck := form + "|" + sub + "|" + strings.Join(sc, " ")
	w.mu.Lock()
	j, ok := w.jwt[ck]
	w.mu.Unlock()
	if ok {
		return j
	}
	hdr := map[string]any{"alg": "ES256", "typ": "JWT", "kid": "k2"}
	exp := time.Now().Add(24 * time.Hour).Unix()
	if form == "jwt_expired" {
		exp = time.Now().Add(-time.Hour).Unix()
	}
	cl := map[string]any{"sub": sub, "scope": strings.Join(sc, " "), "iss": w.issuer, "aud": gAudience, "exp": exp,
		"jti": fmt.Sprintf("c20-%d-%s", os.Getpid(), gB64([]byte(ck)))}
	hb, _ := json.Marshal(hdr)
	cb, _ := json.Marshal(cl)
	input := gB64(hb) + "." + gB64(cb)
	k := w.key
	if form == "jwt_badsig" {
		k = w.other
	}
	j = input + "." + w.sign(k, input)
	w.mu.Lock()
	w.jwt[ck] = j
	w.mu.Unlock()

	return j
}

func gMutate(s string) string {
	i := len(s) / 2
	c := byte('0')
	if s[i] == '0' {
		c = '1'
	}

	return s[:i] + string(c) + s[i+1:]
}

// setup: real user store, token key, revocation table, identity provider, resource-server + authorization-server roles.
func gSetup(dir string, permNames []string) (*gWorld, error) {
	w := &gWorld{hits: map[string]string{}, perms: map[string][]string{}, tok: map[string]map[string]string{}, jwt: map[string]string{}}
	os.Setenv("EGO_SERVER_TOKEN_KEY", gTokenKey)
	settings.SetDefault(defs.AuthMaxAttemptsSetting, "0") // lockout is C24's subject
	svc, err := auth.NewFileService("memory", "verif-admin", "verif-admin-password")
	if err != nil {
		return nil, err
	}
	auth.AuthService = svc
	caches.MaxCacheSize = 1 << 20
	if err := tokens.SetDatabasePath("sqlite3://" + filepath.Join(dir, "c20-blacklist.db") + "?_pragma=synchronous(OFF)"); err != nil {
		return nil, fmt.Errorf("blacklist database: %v", err)
	}
	if w.key, err = ecdsa.GenerateKey(elliptic.P256(), rand.Reader); err != nil {
		return nil, err
	}
	if w.other, err = ecdsa.GenerateKey(elliptic.P256(), rand.Reader); err != nil {
		return nil, err
	}
	mux := http.NewServeMux()
	srv := httptest.NewServer(mux)
	w.issuer = srv.URL
	mux.HandleFunc("/.well-known/openid-configuration", func(rw http.ResponseWriter, _ *http.Request) {
		rw.Header().Set("Content-Type", "application/json")
		json.NewEncoder(rw).Encode(map[string]any{"issuer": srv.URL, "jwks_uri": srv.URL + "/jwks",
			"token_endpoint": srv.URL + "/token", "authorization_endpoint": srv.URL + "/authorize"})
	})
	mux.HandleFunc("/jwks", func(rw http.ResponseWriter, _ *http.Request) {
		x := make([]byte, 32)
		y := make([]byte, 32)
		w.key.PublicKey.X.FillBytes(x)
		w.key.PublicKey.Y.FillBytes(y)
		rw.Header().Set("Content-Type", "application/json")
		json.NewEncoder(rw).Encode(map[string]any{"keys": []any{
			map[string]any{"kty": "EC", "use": "sig", "alg": "ES256", "kid": "k2", "crv": "P-256", "x": gB64(x), "y": gB64(y)}}})
	})
	od := filepath.Join(dir, "lib", "oauth")
	if err = os.MkdirAll(od, 0o700); err != nil {
		return nil, err
	}
	der, err := x509.MarshalECPrivateKey(w.key)
	if err != nil {
		return nil, err
	}
	keyFile := filepath.Join(od, "signing.pem")
	if err = os.WriteFile(keyFile, pem.EncodeToMemory(&pem.Block{Type: "EC PRIVATE KEY", Bytes: der}), 0o600); err != nil {
		return nil, err
	}
	clientFile := filepath.Join(od, "clients.json")
	cj, _ := json.Marshal([]map[string]any{{"client_id": gClient, "redirect_uris": []string{}, "grant_types": []string{"client_credentials"}, "scopes": []string{"ego.logon"}}})
	if err = os.WriteFile(clientFile, cj, 0o600); err != nil {
		return nil, err
	}
	pm := []string{}
	for _, p := range permNames {
		pm = append(pm, "s:"+p+"="+p)
	}
	settings.SetDefault(defs.EgoPathSetting, dir)
	settings.SetDefault(defs.OAuthProviderSetting, srv.URL)
	settings.SetDefault(defs.OAuthAudienceSetting, gAudience)
	settings.SetDefault(defs.OAuthPermissionMapSetting, strings.Join(pm, ","))
	settings.SetDefault(defs.OAuthASEnabledSetting, "true")
	settings.SetDefault(defs.OAuthASIssuerSetting, srv.URL)
	settings.SetDefault(defs.OAuthASKeyFileSetting, keyFile)
	settings.SetDefault(defs.OAuthASClientFileSetting, clientFile)
	if err = oauth.Initialize(); err != nil {
		return nil, fmt.Errorf("oauth.Initialize: %v", err)
	}
	if !oauth.IsEnabled() {
		return nil, fmt.Errorf("resource-server role not enabled")
	}

	return w, nil
}

func (w *gWorld) addUser(name string, perms []string) error {
	if have, ok := w.perms[name]; ok {
		if strings.Join(gSorted(have), ",") != strings.Join(gSorted(perms), ",") {
			return fmt.Errorf("user %s requested with two permission sets: %v / %v", name, have, perms)
		}

		return nil
	}
	h, err := bcrypt.GenerateFromPassword([]byte(gPw(name)), bcrypt.MinCost)
	if err != nil {
		return err
	}
	w.perms[name] = perms

	return auth.AuthService.WriteUser(0, defs.User{Name: name, Password: string(h), Permissions: append([]string{}, perms...)})
}

func (w *gWorld) token(form, user string) (string, error) {
	if t, ok := w.tok[form][user]; ok {
		return t, nil
	}
	life := "12h"
	if form == "token_expired" {
		life = "-1h"
	}
	s, err := tokens.New(user, "", life, gInstance, 0)
	if err != nil {
		return "", err
	}
	switch form {
	case "token_tampered":
		s = gMutate(s)
	case "token_revoked":
		t, err := tokens.Unwrap(s, 0)
		if err != nil {
			return "", fmt.Errorf("fresh token does not unwrap: %v", err)
		}
		if err := tokens.Blacklist(t.TokenID.String()); err != nil {
			return "", err
		}
	}
	if w.tok[form] == nil {
		w.tok[form] = map[string]string{}
	}
	w.tok[form][user] = s

	return s, nil
}

// prepare makes sure every credential a request needs exists (sequentially, before the workers start).
func (w *gWorld) prepare(rq gReq) error {
	if rq.Sub != "" && rq.Form != "basic_unknown" {
		if err := w.addUser(rq.Sub, rq.SubPerms); err != nil {
			return err
		}
	}
	if strings.HasPrefix(rq.Form, "token_") {
		if _, err := w.token(rq.Form, rq.Sub); err != nil {
			return err
		}
	}
	if strings.HasPrefix(rq.Form, "jwt_") {
		w.mintJWT(rq.Form, rq.Sub, rq.IDPerms)
	}

	return nil
}

// do sends one request through the real ServeHTTP; returns (handler ran?, which route's handler, status).
func (w *gWorld) do(m *router.Router, path string, info router.VerifC20Info, rq gReq) (bool, string, int) {
	var body *strings.Reader
	switch rq.Form {
	case "body_right":
		body = strings.NewReader(fmt.Sprintf(`{"username":%q,"password":%q}`, rq.Sub, gPw(rq.Sub)))
	case "body_wrong":
		body = strings.NewReader(fmt.Sprintf(`{"username":%q,"password":%q}`, rq.Sub, "wrong-"+gPw(rq.Sub)))
	}
	var req *http.Request
	if body != nil {
		req = httptest.NewRequest(rq.Method, path, body)
	} else {
		req = httptest.NewRequest(rq.Method, path, nil)
	}
	w.mu.Lock()
	w.seq++
	id := strconv.Itoa(w.seq)
	w.mu.Unlock()
	req.Header.Set(gReqHdr, id)
	req.Header.Set("Accept", "*/*")
	ct := "application/json"
	if len(info.Content) > 0 {
		ct = info.Content[0]
	}
	req.Header.Set("Content-Type", ct)
	basic := func(u, p string) string { return "Basic " + base64.StdEncoding.EncodeToString([]byte(u+":"+p)) }
	switch rq.Form {
	case "malformed":
		req.Header.Set("Authorization", "Basic %%%not-base64%%%")
	case "badscheme":
		req.Header.Set("Authorization", `Digest username="verif-admin", response="0"`)
	case "basic_unknown":
		req.Header.Set("Authorization", basic(rq.Sub, "whatever"))
	case "basic_wrong":
		req.Header.Set("Authorization", basic(rq.Sub, "wrong-"+gPw(rq.Sub)))
	case "basic_right":
		req.Header.Set("Authorization", basic(rq.Sub, gPw(rq.Sub)))
	case "token_valid", "token_expired", "token_tampered", "token_revoked":
		req.Header.Set("Authorization", "Bearer "+w.tok[rq.Form][rq.Sub])
	case "jwt_valid", "jwt_badsig", "jwt_expired":
		req.Header.Set("Authorization", "Bearer "+w.mintJWT(rq.Form, rq.Sub, rq.IDPerms))
	}
	rec := httptest.NewRecorder()
	m.ServeHTTP(rec, req)
	w.mu.Lock()
	h, ok := w.hits[id]
	delete(w.hits, id)
	w.mu.Unlock()

	return ok, h, rec.Code
}

// Every request with a dead native token costs the server one Argon2id key derivation
// (32 MiB, ~40 ms idle, ~1 s on a saturated machine): those forms are sent to a
// seeded sample of the targets in the quick tier (VERIF_EXPENSIVE=k; 0 = all).
func gExpensive(form string) bool {
	return form == "token_expired" || form == "token_tampered" || form == "token_revoked"
}

// gPick marks k of n indices (all when k <= 0 or k >= n), deterministically from seed.
func gPick(n, k, seed int) map[int]bool {
	out := map[int]bool{}
	if k <= 0 || k >= n {
		for i := 0; i < n; i++ {
			out[i] = true
		}

		return out
	}
	x := uint64(seed)*0x9E3779B97F4A7C15 + 0xC20
	idx := make([]int, n)
	for i := range idx {
		idx[i] = i
	}
	for i := n - 1; i > 0; i-- {
		x ^= x << 13
		x ^= x >> 7
		x ^= x << 17
		j := int(x % uint64(i+1))
		idx[i], idx[j] = idx[j], idx[i]
	}
	for _, i := range idx[:k] {
		out[i] = true
	}

	return out
}

type gJob struct {
	m     *router.Router
	path  string
	info  router.VerifC20Info
	rec   *gReqRec
	owner string // endpoint+method expected to own the handler
}

func (w *gWorld) runJobs(jobs []gJob, workers int) error {
	var wg sync.WaitGroup
	ch := make(chan *gJob, 256)
	var emu sync.Mutex
	var first error
	for i := 0; i < workers; i++ {
		wg.Add(1)
		go func() {
			defer wg.Done()
			for j := range ch {
				inv, who, st := w.do(j.m, j.path, j.info, j.rec.Req)
				j.rec.Invoked, j.rec.Status = inv, st
				if inv && who != j.owner {
					emu.Lock()
					if first == nil {
						first = fmt.Errorf("request for %s ran the handler of %s", j.owner, who)
					}
					emu.Unlock()
				}
			}
		}()
	}
	for i := range jobs {
		ch <- &jobs[i]
	}
	close(ch)
	wg.Wait()

	return first
}

func gApply(r *router.Route, c gCall) error {
	switch c.Op {
	case "Authentication":
		r.Authentication(c.B)
	case "Permissions":
		r.Permissions(c.Ps...)
	case "LightWeight":
		r.LightWeight(c.B)
	case "CanAuthenticate":
		r.CanAuthenticate(c.B)
	case "Credentials":
		r.Credentials(c.B)
	case "Redirect":
		if c.B {
			r.Redirect("/verif/c20/elsewhere")
		} else {
			r.Redirect("")
		}
	default:
		return fmt.Errorf("unknown builder call %q", c.Op)
	}

	return nil
}

// concrete path for an endpoint pattern
func gPath(endpoint string) string {
	parts := strings.Split(endpoint, "/")
	for i, p := range parts {
		if strings.HasPrefix(p, "{{") && strings.HasSuffix(p, "...}}") {
			parts[i] = "verif/c20.txt"
		} else if strings.HasPrefix(p, "{{") {
			parts[i] = "verifc20"
		}
	}

	return strings.Join(parts, "/")
}

func TestVerifC20Gate(t *testing.T) {
	in, out, resPath := vkEnv("VERIF_IN", ""), vkEnv("VERIF_OUT", ""), vkEnv("VERIF_RES", "")
	if in == "" || out == "" || resPath == "" {
		t.Skip("VERIF_IN/VERIF_OUT/VERIF_RES not set")
	}
	perSeq := vkEnv("VERIF_PERSEQ", "0") == "1"
	mode := vkEnv("VERIF_MODE", "both")
	workers := vkEnvInt("VERIF_WORKERS", 6)
	expensive := vkEnvInt("VERIF_EXPENSIVE", 0)
	seed := vkEnvInt("VERIF_SEED", 1)
	libRoot := vkEnv("VERIF_LIBROOT", "")
	dir := vkEnv("VERIF_TMP", "")
	if dir == "" {
		dir = t.TempDir()
	}
	sum := gSummary{FormCounts: map[string]int{}, TableUsers: map[string]any{}}
	t0 := time.Now()
	finish := func(fatal string) {
		sum.Fatal = fatal
		sum.Elapsed = time.Since(t0).Seconds()
		if err := vkWriteResult(resPath, sum); err != nil {
			t.Fatal(err)
		}
		if fatal != "" {
			t.Fatal(fatal)
		}
	}
	var seqs [][]gCall
	var reqs []gReq
	err := vkLoadLines(in, func(b []byte) error {
		var r gIn
		if err := json.Unmarshal(b, &r); err != nil {
			return err
		}
		switch r.Kind {
		case "seq":
			seqs = append(seqs, r.Calls)
		case "req":
			reqs = append(reqs, r.gReq)
		}

		return nil
	})
	if err != nil {
		finish("input: " + err.Error())
	}
	sort.SliceStable(seqs, func(i, j int) bool { return len(seqs[i]) < len(seqs[j]) })

	// ---- pass one over the real declarations: which permission names exist (for the JWT scope map)
	router.PathRoot = filepath.Join(libRoot, "lib")
	os.Setenv(defs.EgoPathEnv, libRoot)
	permSet := map[string]bool{defs.RootPermission: true, defs.LogonPermission: true}
	for _, rq := range reqs {
		for _, p := range append(append([]string{}, rq.SubPerms...), rq.IDPerms...) {
			permSet[p] = true
		}
	}
	for _, s := range seqs {
		for _, c := range s {
			for _, p := range c.Ps {
				permSet[p] = true
			}
		}
	}
	if mode != "gen" {
		r0 := defineStaticRoutes()
		if _, e := os.ReadDir(filepath.Join(router.PathRoot, "services")); e != nil {
			finish("no lib/services under " + router.PathRoot)
		}
		if e := services.DefineLibHandlers(r0, router.PathRoot, "/services"); e != nil {
			finish("DefineLibHandlers: " + e.Error())
		}
		for _, rt := range r0.VerifC20Routes() {
			for _, p := range rt.VerifC20Flags().Perms {
				permSet[p] = true
			}
		}
	} else {
		router.InitializeValidations()
	}
	permNames := []string{}
	for p := range permSet {
		permNames = append(permNames, p)
	}
	sort.Strings(permNames)
	w, err := gSetup(dir, permNames)
	if err != nil {
		finish("setup: " + err.Error())
	}
	forms := []string{}
	seenForm := map[string]bool{}
	for _, rq := range reqs {
		if !seenForm[rq.Form] {
			seenForm[rq.Form] = true
			forms = append(forms, rq.Form)
		}
		if err := w.prepare(rq); err != nil {
			finish("prepare: " + err.Error())
		}
	}

	tw, err := vkNewTrace(out)
	if err != nil {
		finish(err.Error())
	}
	defer tw.Close()
	emit := func(v any) { tw.Emit(v); sum.Records++ }

	// ---- generated declarations
	if mode != "table" {
		type slot struct {
			m     *router.Router
			route *router.Route
			calls []gCall
			flags router.VerifC20Flags
			n     int
			first bool // first declaration with this route record
		}
		byFlags := map[string]*slot{}
		var order []*slot
		for i, calls := range seqs {
			m := router.NewRouter(fmt.Sprintf("verif-c20-%d", i))
			rt := m.New("/verif/c20/gate", nil, router.AnyMethod)
			rt.VerifC20Wrap(w.hit)
			b := gBuildRec{Kind: "build", Calls: calls, After: []router.VerifC20Flags{}}
			if calls == nil {
				b.Calls = []gCall{}
			}
			for _, c := range calls {
				if err := gApply(rt, c); err != nil {
					finish(err.Error())
				}
				b.After = append(b.After, rt.VerifC20Flags())
			}
			emit(b)
			sum.Sequences++
			f := rt.VerifC20Flags()
			k := vkJSON(f)
			if s, ok := byFlags[k]; ok && !perSeq {
				s.n++

				continue
			}
			s := &slot{m: m, route: rt, calls: b.Calls, flags: f, n: 1}
			if _, ok := byFlags[k]; !ok {
				byFlags[k] = s
				s.first = true
			}
			order = append(order, s)
		}
		sum.DistinctFlags = len(byFlags)
		firsts := 0
		for _, s := range order {
			if s.first {
				firsts++
			}
		}
		pick := gPick(firsts, expensive, seed)
		type pair struct {
			s  *slot
			rq gReq
		}
		var pairs []pair
		fi := 0
		for _, s := range order {
			for _, rq := range reqs {
				if gExpensive(rq.Form) && !(s.first && pick[fi]) {
					continue
				}
				pairs = append(pairs, pair{s, rq})
			}
			if s.first {
				fi++
			}
		}
		recs := make([]gReqRec, len(pairs))
		jobs := make([]gJob, len(pairs))
		for k, p := range pairs {
			info := p.s.route.VerifC20Info()
			recs[k] = gReqRec{Kind: "req", Src: "gen", Route: "gen", Flags: p.s.flags, Req: p.rq, N: 1, Calls: p.s.calls}
			jobs[k] = gJob{m: p.s.m, path: "/verif/c20/gate", info: info, rec: &recs[k], owner: info.Method + " " + info.Endpoint}
		}
		if err := w.runJobs(jobs, workers); err != nil {
			finish("gen: " + err.Error())
		}
		// identical (flags, request, outcome) records are one case for the contract: collapse with a count
		idx := map[string]int{}
		var outRecs []gReqRec
		for _, r := range recs {
			sum.GenRequests++
			sum.FormCounts[r.Req.Form]++
			if r.Invoked {
				sum.GenInvoked++
			}
			k := vkJSON([]any{r.Flags, r.Req, r.Invoked, r.Status})
			if i, ok := idx[k]; ok {
				outRecs[i].N++

				continue
			}
			idx[k] = len(outRecs)
			outRecs = append(outRecs, r)
		}
		for _, r := range outRecs {
			emit(r)
		}
	}

	// ---- the real route table
	if mode != "gen" {
		m, err := setupServerRouter(nil, "")
		if err != nil {
			finish("setupServerRouter: " + err.Error())
		}
		routes := m.VerifC20Routes()
		sum.TableRoutes = len(routes)
		// users derived from the table's own permission lists
		users := map[string][]string{
			"t_root":  {defs.LogonPermission, defs.RootPermission},
			"t_plain": {defs.LogonPermission},
			"t_none":  {},
		}
		all := map[string]bool{defs.LogonPermission: true}
		sets := map[string][]string{}
		for _, rt := range routes {
			ps := gSorted(rt.VerifC20Flags().Perms)
			if len(ps) == 0 {
				continue
			}
			sets[strings.Join(ps, ",")] = ps
			for _, p := range ps {
				if p != defs.RootPermission {
					all[p] = true
				}
			}
		}
		keys := []string{}
		for k := range sets {
			keys = append(keys, k)
		}
		sort.Strings(keys)
		for i, k := range keys {
			ps := sets[k]
			hasRoot := false
			for _, p := range ps {
				hasRoot = hasRoot || p == defs.RootPermission
			}
			if !hasRoot {
				users[fmt.Sprintf("t_has_%d", i)] = gSorted(append([]string{defs.LogonPermission}, ps...))
			}
			for j := range ps {
				rest := []string{}
				seen := map[string]bool{}
				for x, p := range append([]string{defs.LogonPermission}, ps...) {
					if x-1 != j && p != defs.RootPermission && !seen[p] {
						seen[p] = true
						rest = append(rest, p)
					}
				}
				users[fmt.Sprintf("t_lacks_%d_%d", i, j)] = gSorted(rest)
			}
		}
		allp := []string{}
		for p := range all {
			allp = append(allp, p)
		}
		users["t_all"] = gSorted(allp)
		// one user per distinct permission set
		unames := []string{}
		{
			names := []string{}
			for u := range users {
				names = append(names, u)
			}
			base := map[string]bool{"t_root": true, "t_all": true, "t_plain": true, "t_none": true}
			sort.Slice(names, func(i, j int) bool {
				if base[names[i]] != base[names[j]] {
					return base[names[i]]
				}

				return names[i] < names[j]
			})
			seenSet := map[string]bool{}
			for _, u := range names {
				ded := []string{}
				for _, p := range gSorted(users[u]) {
					if len(ded) == 0 || ded[len(ded)-1] != p {
						ded = append(ded, p)
					}
				}
				users[u] = ded
				k := strings.Join(ded, ",")
				if seenSet[k] && !base[u] {
					delete(users, u)

					continue
				}
				seenSet[k] = true
			}
			for u, ps := range users {
				unames = append(unames, u)
				sum.TableUsers[u] = ps
			}
			sort.Strings(unames)
		}
		strong := []string{"t_all", "t_root"}
		tokenStrong := []string{"t_root"}
		jwtPerms := func(ps []string) []string {
			if len(ps) == 0 {
				return []string{defs.LogonPermission}
			}

			return ps
		}
		var treqs []gReq
		for _, f := range forms {
			switch f {
			case "none", "malformed", "badscheme":
				treqs = append(treqs, gReq{Form: f, SubPerms: []string{}, IDPerms: []string{}})
			case "basic_unknown":
				treqs = append(treqs, gReq{Form: f, Sub: "nobody", SubPerms: []string{}, IDPerms: []string{}})
			case "basic_wrong", "basic_right", "token_valid", "body_wrong", "body_right":
				for _, u := range unames {
					treqs = append(treqs, gReq{Form: f, Sub: u, SubPerms: users[u], IDPerms: users[u]})
				}
			case "jwt_valid":
				for _, u := range unames {
					treqs = append(treqs, gReq{Form: f, Sub: u, SubPerms: users[u], IDPerms: jwtPerms(users[u])})
				}
				// the subject names a local user who holds more than the token grants
				treqs = append(treqs, gReq{Form: f, Sub: "t_root", SubPerms: users["t_root"], IDPerms: jwtPerms(users["t_plain"])})
				treqs = append(treqs, gReq{Form: f, Sub: "t_all", SubPerms: users["t_all"], IDPerms: jwtPerms(users["t_plain"])})
			case "token_expired", "token_tampered", "token_revoked":
				for _, u := range tokenStrong {
					treqs = append(treqs, gReq{Form: f, Sub: u, SubPerms: users[u], IDPerms: users[u]})
				}
			case "jwt_badsig", "jwt_expired":
				for _, u := range strong {
					treqs = append(treqs, gReq{Form: f, Sub: u, SubPerms: users[u], IDPerms: jwtPerms(users[u])})
				}
			}
		}
		for _, rq := range treqs {
			if err := w.prepare(rq); err != nil {
				finish("prepare(table): " + err.Error())
			}
		}
		var recs []gReqRec
		var jobs []gJob
		type tgt struct {
			rt   *router.Route
			path string
			info router.VerifC20Info
		}
		var tgts []tgt
		for _, rt := range routes {
			rt.VerifC20Wrap(w.hit)
		}
		for _, rt := range routes {
			info := rt.VerifC20Info()
			method := info.Method
			if method == router.AnyMethod {
				method = http.MethodGet
			}
			path := gPath(info.Endpoint)
			got, st := m.FindRoute(method, path, false)
			if st != http.StatusOK || got != rt {
				sum.Unaddressed = append(sum.Unaddressed, info.Method+" "+info.Endpoint)

				continue
			}
			tgts = append(tgts, tgt{rt, path, info})
		}
		sum.TableAddressed = len(tgts)
		// dead native tokens: every route (thorough) or one route per distinct route record (quick)
		flagFirst := map[string]bool{}
		var firstIdx []int
		for i, tg := range tgts {
			k := vkJSON(tg.rt.VerifC20Flags())
			if !flagFirst[k] {
				flagFirst[k] = true
				firstIdx = append(firstIdx, i)
			}
		}
		sendExpensive := map[int]bool{}
		for i := range tgts {
			sendExpensive[i] = expensive <= 0
		}
		tpick := gPick(len(firstIdx), expensive, seed+1)
		for n, i := range firstIdx {
			if tpick[n] {
				sendExpensive[i] = true
			}
		}
		for i, tg := range tgts {
			method := tg.info.Method
			if method == router.AnyMethod {
				method = http.MethodGet
			}
			for _, rq := range treqs {
				if gExpensive(rq.Form) && !sendExpensive[i] {
					continue
				}
				rq.Method = method
				recs = append(recs, gReqRec{Kind: "req", Src: "table", Route: tg.info.Method + " " + tg.info.Endpoint,
					Flags: tg.rt.VerifC20Flags(), Req: rq, N: 1, Calls: []gCall{}})
				jobs = append(jobs, gJob{m: m, path: tg.path, info: tg.info, owner: tg.info.Method + " " + tg.info.Endpoint})
			}
		}
		for k := range jobs {
			jobs[k].rec = &recs[k]
		}
		if err := w.runJobs(jobs, workers); err != nil {
			finish("table: " + err.Error())
		}
		reached := map[string]bool{}
		for _, r := range recs {
			sum.TableRequests++
			sum.FormCounts[r.Req.Form]++
			if r.Invoked {
				sum.TableInvoked++
				reached[r.Route] = true
			}
			emit(r)
		}
		sum.TableReached = len(reached)
	}
	finish("")
}

//go:build verif

package router

// C20 harness support (overlaid at build time as internal/router/zz_verif_c20_export.go,
// never part of tucats/ego).  Read-only projections of a route record, plus the one
// modification the harness makes to the real route table: the handler of every route is
// replaced by a recorder (so only the gate runs, never an admin handler) and payload
// validation - which runs after the gate and only ever refuses - is switched off so the
// recorder is reachable with an empty body.

import (
	"net/http"
	"sort"
)

// VerifC20Flags is the part of a route record the gate reads.
type VerifC20Flags struct {
	MA    bool     `json:"ma"`
	CA    bool     `json:"ca"`
	LW    bool     `json:"lw"`
	CC    bool     `json:"cc"`
	AR    bool     `json:"ar"`
	PNil  bool     `json:"pnil"`
	Perms []string `json:"perms"`
	Redir bool     `json:"redir"`
}

func (r *Route) VerifC20Flags() VerifC20Flags {
	p := make([]string, len(r.requiredPermissions))
	copy(p, r.requiredPermissions)

	return VerifC20Flags{MA: r.mustAuthenticate, CA: r.canAuthenticate, LW: r.lightweight, CC: r.checkCredentials,
		AR: r.allowRedirects, PNil: r.requiredPermissions == nil, Perms: p, Redir: r.redirect != ""}
}

// VerifC20Info describes how to address a route.
type VerifC20Info struct {
	Endpoint string
	Method   string
	Accept   []string
	Content  []string
}

func (r *Route) VerifC20Info() VerifC20Info {
	return VerifC20Info{Endpoint: r.endpoint, Method: r.method, Accept: r.acceptMediaTypes, Content: r.contentMediaTypes}
}

// VerifC20Routes lists the route table in a stable order.
func (m *Router) VerifC20Routes() []*Route {
	m.mutex.Lock()
	defer m.mutex.Unlock()

	out := make([]*Route, 0, len(m.routes))
	for _, r := range m.routes {
		out = append(out, r)
	}

	sort.Slice(out, func(i, j int) bool {
		if out[i].endpoint != out[j].endpoint {
			return out[i].endpoint < out[j].endpoint
		}

		return out[i].method < out[j].method
	})

	return out
}

// VerifC20Wrap replaces the handler by a recorder and drops payload validations.
func (r *Route) VerifC20Wrap(hit func(r *Route, req *http.Request)) {
	r.validations = nil
	r.handler = func(session *Session, w http.ResponseWriter, req *http.Request) int {
		hit(r, req)
		w.WriteHeader(http.StatusOK)

		return http.StatusOK
	}
}

// VerifC20ForgetFailures clears the login rate limiter (C24's subject, not C20's).
func VerifC20ForgetFailures() {
	loginAttemptsMu.Lock()
	defer loginAttemptsMu.Unlock()

	loginAttempts = map[string]*loginRecord{}
}

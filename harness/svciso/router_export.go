//go:build verif

package router

// C42 harness support (overlaid at build time as internal/router/zz_verif_c42_export.go,
// never part of tucats/ego).  A read-only projection of the first-use lock of a route.
// It is only called while every request of the replayed behaviour is parked at a gate,
// so nobody else is inside Lock/Unlock when the mutex is probed.

func (r *Route) VerifC42Lock() (counter int, locked bool) {
	if r == nil {
		return 0, false
	}

	if r.routeLock.TryLock() {
		r.routeLock.Unlock()
	} else {
		locked = true
	}

	return int(r.counter.Load()), locked
}

package services

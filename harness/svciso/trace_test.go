package services

// Binding T for spec/ServiceIsolation (property C42).
//
// Batches of concurrent service requests with distinct URL parts, parameters,
// bodies, headers and users run through the real router.ServeHTTP and the real
// ServiceHandler, with cache flushes thrown in, under a GOMAXPROCS sweep and
// with scheduling points injected into the bytecode dispatch loop (verifYield).
// The hooks record one event per critical section of the service cache (called
// under serviceCacheMutex, so their order is the order of the critical sections)
// and per gate of ServiceHandler; the response every client received is recorded
// when ServeHTTP returns.  TLC validates the log against the specification
// (ServiceIsolation_Trace); nothing here decides what is right.

import (
	"fmt"
	"math/rand"
	"net/http/httptest"
	"runtime"
	"sync"
	"sync/atomic"
	"testing"
	"time"

	"github.com/tucats/ego/internal/defs"
	"github.com/tucats/ego/internal/language/bytecode"
	"github.com/tucats/ego/internal/language/data"
	"github.com/tucats/ego/internal/language/symbols"
	"github.com/tucats/ego/internal/router"
)

type c42Rec struct {
	mu     sync.Mutex
	events []map[string]any
	bySess map[int]string
}

func (c *c42Rec) add(e map[string]any) {
	c.mu.Lock()
	c.events = append(c.events, e)
	c.mu.Unlock()
}

func (c *c42Rec) req(session int) string {
	c.mu.Lock()
	defer c.mu.Unlock()

	return c.bySess[session]
}

// c42Endpoint: the route pattern a request's table belongs to (the Endpoint field of its request object)
func c42Endpoint(t *symbols.SymbolTable) string {
	if v, ok := t.Get(defs.RequestVariable); ok {
		if s, ok := v.(*data.Struct); ok {
			return data.String(s.GetAlways("Endpoint"))
		}
	}

	return ""
}

func c42InstallRecorder(rec *c42Rec) {
	VerifGate = func(point string, session int, table *symbols.SymbolTable) {
		switch point {
		case "acquire":
			id := c42ReqID(table)

			rec.mu.Lock()
			rec.bySess[session] = id
			rec.events = append(rec.events, map[string]any{"ev": "Enter", "r": id, "ep": c42Endpoint(table)})
			rec.mu.Unlock()
		case "finish":
			rec.add(map[string]any{"ev": "Run", "r": c42ReqID(table), "ep": c42Endpoint(table)})
		}
	}
	// called with serviceCacheMutex held
	VerifEvent = func(op string, session int, endpoint string, table *symbols.SymbolTable) {
		switch op {
		case "lookup":
			rec.add(map[string]any{"ev": "Lookup", "r": rec.req(session), "ep": endpoint})
		case "reads":
			rec.add(map[string]any{"ev": "ReadS", "r": rec.req(session), "ep": endpoint, "had": table != nil})
		case "add":
			rec.add(map[string]any{"ev": "Add", "r": rec.req(session), "ep": endpoint})
		case "errdel":
			rec.add(map[string]any{"ev": "RunErr", "r": rec.req(session), "ep": endpoint})
		case "finished":
			item, ok := ServiceCache[endpoint]
			rec.add(map[string]any{"ev": "Finish", "r": rec.req(session), "ep": endpoint, "saved": ok && item.s == table})
		case "flush":
			rec.add(map[string]any{"ev": "Flush", "ep": ""}) // every endpoint
		case "aged":
			// the oldest entry was thrown out by addToCache of another endpoint: for that endpoint, a flush
			rec.add(map[string]any{"ev": "Flush", "ep": endpoint, "aged": true})
		}
	}
}

var c42YieldCtr atomic.Uint64

func c42InstallYield(seed uint64, every uint64) {
	if every == 0 {
		bytecode.VerifYield = nil

		return
	}

	bytecode.VerifYield = func(int32) {
		x := (c42YieldCtr.Add(1) + seed) * 0x9E3779B97F4A7C15
		x ^= x >> 29

		if x%every == 0 {
			runtime.Gosched()
		} else if x%4099 == 0 {
			time.Sleep(30 * time.Microsecond)
		}
	}
}

func TestVerifC42Concurrent(t *testing.T) {
	out := vkEnv("VERIF_OUT", "")
	if out == "" {
		t.Skip("VERIF_OUT not set")
	}

	root := vkEnv("VERIF_SVCROOT", "")
	runs, seed := vkEnvInt("VERIF_RUNS", 8), vkEnvInt("VERIF_SEED", 1)
	nmax := vkEnvInt("VERIF_N", 16)

	if err := c42Setup(root, vkEnv("VERIF_EGOPATH", "/repo")); err != nil {
		t.Fatal(err)
	}

	tw, err := vkNewTrace(out)
	if err != nil {
		t.Fatal(err)
	}
	defer tw.Close()

	shapes := make([]string, 0, len(c42Manifest))
	for k := range c42Manifest {
		shapes = append(shapes, k)
	}

	sortStrings(shapes)

	rng := rand.New(rand.NewSource(int64(seed)))
	procs := []int{1, 2, 4, 8}
	yields := []uint64{0, 3, 7, 2}
	defer runtime.GOMAXPROCS(runtime.GOMAXPROCS(0))

	// which request indices fail is fixed for the whole log (the trace specification has one Bad set)
	bad := map[int]bool{}
	for i := 1; i <= nmax; i++ {
		if rng.Intn(7) == 0 {
			bad[i] = true
		}
	}

	blocks := 0

	if len(bad) == 0 {
		bad[2+rng.Intn(nmax-1)] = true
	}

	for run := 1; run <= runs; run++ {
		keys := []string{shapes[run%len(shapes)]}
		aging := run%4 == 3 && len(shapes) > 1

		// an "aging" run: two services share a service cache of one entry, so compiling one of them
		// throws the other out (addToCache), with requests for it still in flight
		MaxCachedEntries = 20
		if aging {
			keys = append(keys, shapes[(run+1)%len(shapes)])
			MaxCachedEntries = 1
		}

		n := nmax
		if run%3 == 0 {
			n = nmax/2 + 1
		}

		runtime.GOMAXPROCS(procs[run%len(procs)])
		c42InstallYield(uint64(seed*1000+run), yields[(run/2)%len(yields)])

		VerifGate, VerifEvent = nil, nil

		FlushServiceCache()

		rt := router.NewRouter(fmt.Sprintf("c42t-%d", run))
		if err := DefineLibHandlers(rt, root, "/services"); err != nil {
			t.Fatal(err)
		}

		rec := &c42Rec{bySess: map[int]string{}}
		c42InstallRecorder(rec)

		ids, bads := map[string][]any{}, map[string][]any{}

		var wg sync.WaitGroup

		start := make(chan struct{})
		flushes := 0

		if run%2 == 0 {
			flushes = 1 + rng.Intn(3)
		}

		warm := run%4 == 1 // one request first, alone: the batch then starts on a warm cache

		for i := 1; i <= n; i++ {
			id := fmt.Sprintf("r%d", i)
			svc := c42Manifest[keys[i%len(keys)]]
			ids[svc.Pattern] = append(ids[svc.Pattern], id)

			if bads[svc.Pattern] == nil {
				bads[svc.Pattern] = []any{}
			}

			if bad[i] {
				bads[svc.Pattern] = append(bads[svc.Pattern], id)
			}

			req, err := c42NewRequest(svc, id, bad[i])
			if err != nil {
				t.Fatal(err)
			}

			w := httptest.NewRecorder()
			delay := time.Duration(rng.Intn(400)) * time.Microsecond

			serve := func() {
				rt.ServeHTTP(w, req)

				r := c42Response(w)
				rec.add(map[string]any{"ev": "Resp", "r": id, "ep": svc.Pattern, "status": r["status"], "body": r["body"]})
			}

			if warm && i == 1 {
				serve()

				continue
			}

			wg.Add(1)

			go func() {
				defer wg.Done()
				<-start
				time.Sleep(delay)
				serve()
			}()
		}

		for f := 0; f < flushes; f++ {
			delay := time.Duration(200+rng.Intn(3000)) * time.Microsecond

			wg.Add(1)

			go func() {
				defer wg.Done()
				<-start
				time.Sleep(delay)
				FlushServiceCache()
			}()
		}

		close(start)
		wg.Wait()

		VerifGate, VerifEvent = nil, nil
		MaxCachedEntries = 20

		// one block of the log per endpoint: its own requests, its own cache entry
		for _, key := range keys {
			svc := c42Manifest[key]
			blocks++

			svcKeys := []any{}
			for _, k := range splitKey(key) {
				svcKeys = append(svcKeys, k)
			}

			tw.Emit(map[string]any{"run": blocks, "ev": "Reset", "svc": svcKeys, "reqs": ids[svc.Pattern], "bad": bads[svc.Pattern],
				"batch": run, "gomaxprocs": procs[run%len(procs)], "flushes": flushes, "aging": aging})

			for _, e := range rec.events {
				if ep := fmt.Sprint(e["ep"]); ep == svc.Pattern || ep == "" {
					o := map[string]any{"run": blocks}
					for k, v := range e {
						if k != "ep" {
							o[k] = v
						}
					}

					tw.Emit(o)
				}
			}
		}
	}

	bytecode.VerifYield = nil
}

func sortStrings(s []string) {
	for i := 1; i < len(s); i++ {
		for j := i; j > 0 && s[j] < s[j-1]; j-- {
			s[j], s[j-1] = s[j-1], s[j]
		}
	}
}

func splitKey(k string) []string {
	out, cur := []string{}, ""
	for _, c := range k {
		if c == '-' {
			out = append(out, cur)
			cur = ""
		} else {
			cur += string(c)
		}
	}

	return append(out, cur)
}

package util

// Binding F for spec/JsonMinify (property C19).  The harness only drives the
// real code with inputs TLC generated and logs what went in and what came out
// (as Unicode code points) for the TLA+ contracts to judge.  It decides nothing.
//
//   TestVerifC19Minify  egostrings.JSONMinify(text)            -> {in, out}
//   TestVerifC19Write   util.WriteJSON -> WriteMaybeCompressed behind a real
//                       net/http server, fetched by a client that does not
//                       decode anything by itself -> {id, hdr, kind, utf8, text};
//                       first one request at a time, then (cases with g = "conc")
//                       many overlapping requests with yielding response writers

import (
	"bytes"
	"compress/gzip"
	"encoding/json"
	"fmt"
	"io"
	"math/rand"
	"net/http"
	"net/http/httptest"
	"runtime"
	"sort"
	"strconv"
	"sync"
	"sync/atomic"
	"testing"
	"unicode/utf8"

	"github.com/tucats/ego/internal/cli/settings"
	"github.com/tucats/ego/internal/defs"
	egostrings "github.com/tucats/ego/internal/util/strings"
)

func vkRunes(cps []int) string {
	r := make([]rune, len(cps))
	for i, c := range cps {
		r[i] = rune(c)
	}
	return string(r)
}

func vkCodePoints(s string) []int {
	out := make([]int, 0, len(s))
	for _, r := range s {
		out = append(out, int(r))
	}
	return out
}

func TestVerifC19Minify(t *testing.T) {
	in, out := vkEnv("VERIF_IN", ""), vkEnv("VERIF_OUT", "")
	if in == "" || out == "" {
		t.Skip("VERIF_IN/VERIF_OUT not set")
	}
	tw, err := vkNewTrace(out)
	if err != nil {
		t.Fatal(err)
	}
	defer tw.Close()
	n := 0
	err = vkLoadLines(in, func(line []byte) error {
		var cps []int
		if err := json.Unmarshal(line, &cps); err != nil {
			return err
		}
		text := vkRunes(cps)
		got := egostrings.JSONMinify(text)
		tw.Emit(map[string]any{"in": vkCodePoints(text), "out": vkCodePoints(got), "utf8": utf8.ValidString(got)})
		n++
		return nil
	})
	if err != nil {
		t.Fatal(err)
	}
	fmt.Printf("VERIF-C19 minify pairs=%d\n", n)
}

// ---------------------------------------------------------------- level B

type vkVal struct {
	T string  `json:"t"`
	S []int   `json:"s"`
	N int     `json:"n"`
	A []vkVal `json:"a"`
}

type vkCase struct {
	G   string `json:"g"`
	V   vkVal  `json:"v"`
	AE  string `json:"ae"`
	Thr int    `json:"thr"`
}

// vkGoValue builds the Go value a handler would pass to WriteJSON.
func vkGoValue(v vkVal) any {
	switch v.T {
	case "s":
		return vkRunes(v.S)
	case "i":
		return v.N
	case "T":
		return true
	case "F":
		return false
	case "N":
		return nil
	case "a":
		l := make([]any, len(v.A))
		for i, e := range v.A {
			l[i] = vkGoValue(e)
		}
		return l
	case "r":
		l := make([]any, v.N)
		for i := range l {
			l[i] = vkGoValue(v.A[0])
		}
		return l
	case "o":
		m := map[string]any{}
		for _, e := range v.A {
			m[vkRunes(e.S)] = vkGoValue(e.A[0])
		}
		return m
	}
	panic("unknown value tag " + v.T)
}

// vkYieldWriter is the ResponseWriter the handler sees in the concurrent stage:
// it gives the processor away before every WriteHeader and Write, so that other
// handlers run between the steps of this one.
type vkYieldWriter struct {
	http.ResponseWriter
	yields int
}

func (y *vkYieldWriter) yield() {
	for i := 0; i < y.yields; i++ {
		runtime.Gosched()
	}
}

func (y *vkYieldWriter) WriteHeader(status int) {
	y.yield()
	y.ResponseWriter.WriteHeader(status)
}

func (y *vkYieldWriter) Write(b []byte) (int, error) {
	y.yield()
	return y.ResponseWriter.Write(b)
}

// vkProjectResponse: what the wire bytes are (complete gzip stream, broken gzip
// stream, or not gzip) and the text they carry, as a log record.
func vkProjectResponse(id int, resp *http.Response, wire []byte, extra map[string]any) map[string]any {
	kind, text := "plain", wire
	if len(wire) >= 2 && wire[0] == 0x1f && wire[1] == 0x8b {
		kind, text = "badgzip", nil // gzip magic, but not (yet shown to be) a complete gzip stream
		if zr, err := gzip.NewReader(bytes.NewReader(wire)); err == nil {
			if plain, err := io.ReadAll(zr); err == nil {
				kind, text = "gzip", plain
			}
		}
	}
	rec := map[string]any{"id": id, "hdr": resp.Header.Get("Content-Encoding"), "kind": kind,
		"status": resp.StatusCode, "wire": len(wire), "utf8": utf8.Valid(text), "text": []int{}}
	if utf8.Valid(text) {
		rec["text"] = vkCodePoints(string(text))
	}
	for k, v := range extra {
		rec[k] = v
	}
	return rec
}

func vkSetThreshold(thr int) {
	if thr < 0 {
		settings.SetDefault(defs.ServerCompressionThresholdSetting, "")
	} else {
		settings.SetDefault(defs.ServerCompressionThresholdSetting, strconv.Itoa(thr))
	}
}

func TestVerifC19Write(t *testing.T) {
	in, out := vkEnv("VERIF_CASES", ""), vkEnv("VERIF_OUT_B", "")
	if in == "" || out == "" {
		t.Skip("VERIF_CASES/VERIF_OUT_B not set")
	}
	var cases []vkCase
	err := vkLoadLines(in, func(line []byte) error {
		var c vkCase
		if err := json.Unmarshal(line, &c); err != nil {
			return err
		}
		cases = append(cases, c)
		return nil
	})
	if err != nil {
		t.Fatal(err)
	}
	tw, err := vkNewTrace(out)
	if err != nil {
		t.Fatal(err)
	}
	defer tw.Close()

	// the server side: what a handler does (router.Session.Response() fills the
	// ResponseInfo from util.AcceptsGzip(r) exactly like this)
	var yields atomic.Int64
	srv := httptest.NewServer(http.HandlerFunc(func(w http.ResponseWriter, r *http.Request) {
		id, _ := strconv.Atoi(r.URL.Query().Get("id"))
		sent := 0
		if n := int(yields.Load()); n > 0 {
			w = &vkYieldWriter{ResponseWriter: w, yields: n}
		}
		w.Header().Set(defs.ContentTypeHeader, "application/json")
		WriteJSON(w, ResponseInfo{SessionID: id, AcceptsGzip: AcceptsGzip(r), Length: &sent}, http.StatusOK,
			vkGoValue(cases[id-1].V))
	}))
	defer srv.Close()
	// the client side: takes the bytes as they are on the wire
	client := &http.Client{Transport: &http.Transport{DisableCompression: true, MaxIdleConnsPerHost: 64}}
	saved := settings.Get(defs.ServerCompressionThresholdSetting)
	defer settings.SetDefault(defs.ServerCompressionThresholdSetting, saved)

	fetch := func(id int) (*http.Response, []byte, error) {
		req, _ := http.NewRequest(http.MethodGet, srv.URL+"/?id="+strconv.Itoa(id), nil)
		if ae := cases[id-1].AE; ae != "" {
			req.Header.Set("Accept-Encoding", ae)
		}
		resp, err := client.Do(req)
		if err != nil {
			return nil, nil, err
		}
		wire, err := io.ReadAll(resp.Body)
		resp.Body.Close()
		return resp, wire, err
	}

	// sequential stage
	nseq, nz := 0, 0
	conc := map[int][]int{} // threshold -> ids of the concurrent stage
	for i, c := range cases {
		id := i + 1
		if c.G == "conc" {
			conc[c.Thr] = append(conc[c.Thr], id)
			continue
		}
		vkSetThreshold(c.Thr)
		resp, wire, err := fetch(id)
		if err != nil {
			t.Fatalf("case %d: %v", id, err)
		}
		rec := vkProjectResponse(id, resp, wire, nil)
		if rec["kind"] == "gzip" {
			nz++
		}
		tw.Emit(rec)
		nseq++
	}

	// concurrent stage: all requests of one threshold setting in flight together, from
	// several client goroutines, under different GOMAXPROCS, the handlers yielding at
	// every WriteHeader/Write
	workers, rounds := vkEnvInt("VERIF_WORKERS", 8), vkEnvInt("VERIF_ROUNDS", 2)
	seed := int64(vkEnvInt("VERIF_SEED", 1))
	nconc := 0
	var mu sync.Mutex
	thrs := make([]int, 0, len(conc))
	for thr := range conc {
		thrs = append(thrs, thr)
	}
	sort.Ints(thrs)
	for _, procs := range []int{1, 2, 8} {
		prev := runtime.GOMAXPROCS(procs)
		for _, thr := range thrs {
			vkSetThreshold(thr)
			for round := 0; round < rounds; round++ {
				yields.Store(int64(1 + 4*round))
				ids := append([]int(nil), conc[thr]...)
				rand.New(rand.NewSource(seed*1000+int64(round*10+procs))).Shuffle(len(ids), func(i, j int) { ids[i], ids[j] = ids[j], ids[i] })
				work := make(chan int, len(ids))
				for _, id := range ids {
					work <- id
				}
				close(work)
				var wg sync.WaitGroup
				for w := 0; w < workers; w++ {
					wg.Add(1)
					go func() {
						defer wg.Done()
						for id := range work {
							resp, wire, err := fetch(id)
							if err != nil {
								t.Errorf("concurrent case %d: %v", id, err)
								return
							}
							rec := vkProjectResponse(id, resp, wire, map[string]any{"procs": procs, "round": round})
							mu.Lock()
							tw.Emit(rec)
							nconc++
							mu.Unlock()
						}
					}()
				}
				wg.Wait()
			}
		}
		runtime.GOMAXPROCS(prev)
	}
	yields.Store(0)
	fmt.Printf("VERIF-C19 write sequential=%d gzip=%d concurrent=%d\n", nseq, nz, nconc)
}

package util

// Binding F for spec/JsonMinify (property C19).  The harness only drives the
// real code with inputs TLC generated and logs what went in and what came out
// (as Unicode code points) for the TLA+ contracts to judge.  It decides nothing.
//
//   TestVerifC19Minify  egostrings.JSONMinify(text)            -> {in, out}
//   TestVerifC19Write   util.WriteJSON -> WriteMaybeCompressed behind a real
//                       net/http server, fetched by a client that does not
//                       decode anything by itself -> {id, hdr, kind, utf8, text}

import (
	"bytes"
	"compress/gzip"
	"encoding/json"
	"fmt"
	"io"
	"net/http"
	"net/http/httptest"
	"strconv"
	"testing"
	"unicode/utf8"

	"github.com/tucats/ego/internal/cli/settings"
	"github.com/tucats/ego/internal/defs"
	egostrings "github.com/tucats/ego/internal/util/strings"
)

func vkRunes(cps []int) string {
	r := make([]rune, len(cps))
	for i, c := range cps {
		r[i] = rune(c)
	}
	return string(r)
}

func vkCodePoints(s string) []int {
	out := make([]int, 0, len(s))
	for _, r := range s {
		out = append(out, int(r))
	}
	return out
}

func TestVerifC19Minify(t *testing.T) {
	in, out := vkEnv("VERIF_IN", ""), vkEnv("VERIF_OUT", "")
	if in == "" || out == "" {
		t.Skip("VERIF_IN/VERIF_OUT not set")
	}
	tw, err := vkNewTrace(out)
	if err != nil {
		t.Fatal(err)
	}
	defer tw.Close()
	n := 0
	err = vkLoadLines(in, func(line []byte) error {
		var cps []int
		if err := json.Unmarshal(line, &cps); err != nil {
			return err
		}
		text := vkRunes(cps)
		got := egostrings.JSONMinify(text)
		tw.Emit(map[string]any{"in": vkCodePoints(text), "out": vkCodePoints(got), "utf8": utf8.ValidString(got)})
		n++
		return nil
	})
	if err != nil {
		t.Fatal(err)
	}
	fmt.Printf("VERIF-C19 minify pairs=%d\n", n)
}

// ---------------------------------------------------------------- level B

type vkVal struct {
	T string  `json:"t"`
	S []int   `json:"s"`
	N int     `json:"n"`
	A []vkVal `json:"a"`
}

type vkCase struct {
	V   vkVal  `json:"v"`
	AE  string `json:"ae"`
	Thr int    `json:"thr"`
}

// vkGoValue builds the Go value a handler would pass to WriteJSON.
func vkGoValue(v vkVal) any {
	switch v.T {
	case "s":
		return vkRunes(v.S)
	case "i":
		return v.N
	case "T":
		return true
	case "F":
		return false
	case "N":
		return nil
	case "a":
		l := make([]any, len(v.A))
		for i, e := range v.A {
			l[i] = vkGoValue(e)
		}
		return l
	case "r":
		l := make([]any, v.N)
		for i := range l {
			l[i] = vkGoValue(v.A[0])
		}
		return l
	case "o":
		m := map[string]any{}
		for _, e := range v.A {
			m[vkRunes(e.S)] = vkGoValue(e.A[0])
		}
		return m
	}
	panic("unknown value tag " + v.T)
}

func TestVerifC19Write(t *testing.T) {
	in, out := vkEnv("VERIF_CASES", ""), vkEnv("VERIF_OUT_B", "")
	if in == "" || out == "" {
		t.Skip("VERIF_CASES/VERIF_OUT_B not set")
	}
	var cases []vkCase
	err := vkLoadLines(in, func(line []byte) error {
		var c vkCase
		if err := json.Unmarshal(line, &c); err != nil {
			return err
		}
		cases = append(cases, c)
		return nil
	})
	if err != nil {
		t.Fatal(err)
	}
	tw, err := vkNewTrace(out)
	if err != nil {
		t.Fatal(err)
	}
	defer tw.Close()

	// the server side: what a handler does (router.Session.Response() fills the
	// ResponseInfo from util.AcceptsGzip(r) exactly like this)
	srv := httptest.NewServer(http.HandlerFunc(func(w http.ResponseWriter, r *http.Request) {
		id, _ := strconv.Atoi(r.URL.Query().Get("id"))
		sent := 0
		w.Header().Set(defs.ContentTypeHeader, "application/json")
		WriteJSON(w, ResponseInfo{SessionID: id, AcceptsGzip: AcceptsGzip(r), Length: &sent}, http.StatusOK,
			vkGoValue(cases[id-1].V))
	}))
	defer srv.Close()
	// the client side: takes the bytes as they are on the wire
	client := &http.Client{Transport: &http.Transport{DisableCompression: true}}
	saved := settings.Get(defs.ServerCompressionThresholdSetting)
	defer settings.SetDefault(defs.ServerCompressionThresholdSetting, saved)

	nz := 0
	for i, c := range cases {
		id := i + 1
		if c.Thr < 0 {
			settings.SetDefault(defs.ServerCompressionThresholdSetting, "")
		} else {
			settings.SetDefault(defs.ServerCompressionThresholdSetting, strconv.Itoa(c.Thr))
		}
		req, _ := http.NewRequest(http.MethodGet, srv.URL+"/?id="+strconv.Itoa(id), nil)
		if c.AE != "" {
			req.Header.Set("Accept-Encoding", c.AE)
		}
		resp, err := client.Do(req)
		if err != nil {
			t.Fatalf("case %d: %v", id, err)
		}
		wire, err := io.ReadAll(resp.Body)
		resp.Body.Close()
		if err != nil {
			t.Fatalf("case %d: reading body: %v", id, err)
		}
		// projection: what the wire bytes are (gzip stream or not) and the text they carry
		kind, text := "plain", wire
		if len(wire) >= 2 && wire[0] == 0x1f && wire[1] == 0x8b {
			kind, text = "badgzip", nil // gzip magic, but not (yet shown to be) a complete gzip stream
			if zr, err := gzip.NewReader(bytes.NewReader(wire)); err == nil {
				if plain, err := io.ReadAll(zr); err == nil {
					kind, text = "gzip", plain
					nz++
				}
			}
		}
		rec := map[string]any{"id": id, "hdr": resp.Header.Get("Content-Encoding"), "kind": kind,
			"status": resp.StatusCode, "wire": len(wire), "utf8": utf8.Valid(text), "text": []int{}}
		if utf8.Valid(text) {
			rec["text"] = vkCodePoints(string(text))
		}
		tw.Emit(rec)
	}
	fmt.Printf("VERIF-C19 write cases=%d gzip=%d\n", len(cases), nz)
}

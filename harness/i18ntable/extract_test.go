package i18ntable

// C38 harness, part 1: the emitted message keys of the CURRENT source tree.
//
// Walks every non-test .go file under the repository root with go/parser and
// collects the constant string that reaches the key argument of a "sink":
//
//	i18n.T/Text (kind T)  i18n.L/LLang (L)  i18n.M/MLang (M)  i18n.E/ELang (E)
//	errors.Message (Err)  ui.Log/WriteLog (Log)  ui.Say/SayAlways (Say)
//	cli.Option{Description: ...} composite literals (Opt)
//
// A local variable that is only ever assigned sink functions (log := ui.Log; if force { log = ui.WriteLog })
// is followed as that sink.
//
// A key argument is resolved when it is a string literal, a concatenation of
// resolvable parts, a named constant (same package or pkg.Name), or a local
// variable all of whose assignments in the enclosing function are resolvable.
// When it is a parameter of the enclosing function or method (not reassigned in
// its body), that function becomes a derived sink of the same kind (iterated to
// a fixpoint; methods are matched by name inside their own package), so keys
// passed through small wrappers are found at the wrappers' call sites.  Everything
// else is a dynamic key: outside the property's quantifier ("constant message
// keys"), counted and listed so the evidence says how many there are.
//
// Nothing here judges anything: the output is the list of (kind, key, where).

import (
	"fmt"
	"go/ast"
	"go/parser"
	"go/token"
	"os"
	"path/filepath"
	"sort"
	"strconv"
	"strings"
)

const modulePath = "github.com/tucats/ego"

type exSite struct {
	Kind string `json:"kind"`
	Key  string `json:"key"`
	File string `json:"file"`
	Line int    `json:"line"`
	Via  string `json:"via"`
	Dead string `json:"dead,omitempty"` // why this site cannot emit its key (unreferenced variable, private option), else ""
	pos  token.Pos
}

type exDyn struct {
	Kind string `json:"kind"`
	File string `json:"file"`
	Line int    `json:"line"`
	Expr string `json:"expr"`
}

type exStats struct {
	Files       int      `json:"files"`
	Packages    int      `json:"packages"`
	SinkCalls   int      `json:"sink_calls"`
	Resolved    int      `json:"resolved_sites"`
	Dynamic     int      `json:"dynamic_sites"`
	ViaParam    int      `json:"sites_forwarding_a_parameter"`
	Derived     []string `json:"derived_sinks"`
	NonCallRefs []string `json:"sink_referenced_not_called"`
	ParseErrors []string `json:"parse_errors"`
}

type exSinkKey struct {
	dir  string // package directory relative to root
	name string // function name
}

type exSink struct {
	kind string
	arg  int
}

type exFile struct {
	rel     string
	dir     string
	ast     *ast.File
	imports map[string]string // local name -> package dir relative to root ("" if outside the module)
}

type exPkg struct {
	dir    string
	files  []*exFile
	consts map[string][]ast.Expr // package-level const specs, by name
	cfile  map[ast.Expr]*exFile
}

type extractor struct {
	aliased map[token.Pos]bool // sink references assigned to a local variable whose calls are followed
	root    string
	fset    *token.FileSet
	pkgs    map[string]*exPkg
	sinks   map[exSinkKey]exSink
	stats   exStats
}

func baseSinks() map[exSinkKey]exSink {
	return map[exSinkKey]exSink{
		{"internal/i18n", "T"}:           {"T", 0},
		{"internal/i18n", "Text"}:        {"T", 1},
		{"internal/i18n", "L"}:           {"L", 0},
		{"internal/i18n", "LLang"}:       {"L", 1},
		{"internal/i18n", "M"}:           {"M", 0},
		{"internal/i18n", "MLang"}:       {"M", 1},
		{"internal/i18n", "E"}:           {"E", 0},
		{"internal/i18n", "ELang"}:       {"E", 1},
		{"internal/errors", "Message"}:   {"Err", 0},
		{"internal/cli/ui", "Log"}:       {"Log", 1},
		{"internal/cli/ui", "WriteLog"}:  {"Log", 1},
		{"internal/cli/ui", "Say"}:       {"Say", 0},
		{"internal/cli/ui", "SayAlways"}: {"Say", 0},
	}
}

func (x *extractor) load() error {
	x.fset = token.NewFileSet()
	x.pkgs = map[string]*exPkg{}
	err := filepath.Walk(x.root, func(p string, info os.FileInfo, err error) error {
		if err != nil {
			return nil
		}
		name := info.Name()
		if info.IsDir() {
			if p != x.root && (strings.HasPrefix(name, ".") || name == "testdata" || name == "vendor" || name == "node_modules") {
				return filepath.SkipDir
			}
			return nil
		}
		if !strings.HasSuffix(name, ".go") || strings.HasSuffix(name, "_test.go") || strings.HasPrefix(name, "zz_verif") {
			return nil
		}
		rel, _ := filepath.Rel(x.root, p)
		f, perr := parser.ParseFile(x.fset, p, nil, parser.SkipObjectResolution)
		if perr != nil {
			x.stats.ParseErrors = append(x.stats.ParseErrors, rel+": "+perr.Error())
			if f == nil {
				return nil
			}
		}
		dir := filepath.ToSlash(filepath.Dir(rel))
		ef := &exFile{rel: filepath.ToSlash(rel), dir: dir, ast: f, imports: map[string]string{}}
		for _, im := range f.Imports {
			path, _ := strconv.Unquote(im.Path.Value)
			local := path[strings.LastIndex(path, "/")+1:]
			if im.Name != nil {
				local = im.Name.Name
			}
			d := ""
			if path == modulePath {
				d = "."
			} else if strings.HasPrefix(path, modulePath+"/") {
				d = strings.TrimPrefix(path, modulePath+"/")
			}
			ef.imports[local] = d
		}
		pk := x.pkgs[dir]
		if pk == nil {
			pk = &exPkg{dir: dir, consts: map[string][]ast.Expr{}, cfile: map[ast.Expr]*exFile{}}
			x.pkgs[dir] = pk
		}
		pk.files = append(pk.files, ef)
		x.stats.Files++
		for _, d := range f.Decls { // package-level constants (function-local ones are handled with the local variables)
			gd, ok := d.(*ast.GenDecl)
			if !ok || gd.Tok != token.CONST {
				continue
			}
			for _, sp := range gd.Specs {
				vs := sp.(*ast.ValueSpec)
				for i, nm := range vs.Names {
					if i < len(vs.Values) {
						pk.consts[nm.Name] = append(pk.consts[nm.Name], vs.Values[i])
						pk.cfile[vs.Values[i]] = ef
					}
				}
			}
		}
		return nil
	})
	x.stats.Packages = len(x.pkgs)
	return err
}

// constant value of e (in file f), or ok=false
func (x *extractor) resolve(f *exFile, e ast.Expr, depth int) (string, bool) {
	if depth > 12 {
		return "", false
	}
	switch v := e.(type) {
	case *ast.BasicLit:
		if v.Kind == token.STRING {
			s, err := strconv.Unquote(v.Value)
			return s, err == nil
		}
	case *ast.ParenExpr:
		return x.resolve(f, v.X, depth+1)
	case *ast.BinaryExpr:
		if v.Op == token.ADD {
			a, ok1 := x.resolve(f, v.X, depth+1)
			b, ok2 := x.resolve(f, v.Y, depth+1)
			return a + b, ok1 && ok2
		}
	case *ast.Ident:
		return x.resolveConst(x.pkgs[f.dir], v.Name, depth)
	case *ast.SelectorExpr:
		if id, ok := v.X.(*ast.Ident); ok {
			if d, ok := f.imports[id.Name]; ok && d != "" {
				return x.resolveConst(x.pkgs[d], v.Sel.Name, depth)
			}
		}
	}
	return "", false
}

func (x *extractor) resolveConst(pk *exPkg, name string, depth int) (string, bool) {
	if pk == nil {
		return "", false
	}
	vals := pk.consts[name]
	if len(vals) == 0 {
		return "", false
	}
	out, have := "", false
	for _, ve := range vals {
		s, ok := x.resolve(pk.cfile[ve], ve, depth+1)
		if !ok {
			return "", false
		}
		if have && s != out { // the same name is a constant with different values in different scopes: not decidable here
			return "", false
		}
		out, have = s, true
	}
	return out, have
}

func exprText(fset *token.FileSet, root string, e ast.Expr) string {
	p := fset.Position(e.Pos())
	q := fset.Position(e.End())
	b, err := os.ReadFile(p.Filename)
	if err != nil || q.Offset > len(b) || p.Offset > q.Offset {
		return "?"
	}
	s := string(b[p.Offset:q.Offset])
	if len(s) > 80 {
		s = s[:80] + "..."
	}
	return s
}

// which sink (if any) does this call expression invoke
func (x *extractor) sinkOf(f *exFile, call *ast.CallExpr, aliases map[string]exSink) (exSink, string, bool) {
	switch fn := call.Fun.(type) {
	case *ast.Ident:
		if s, ok := aliases[fn.Name]; ok {
			return s, fn.Name + " (local alias of a sink)", true
		}
		s, ok := x.sinks[exSinkKey{f.dir, fn.Name}]
		return s, fn.Name, ok
	case *ast.SelectorExpr:
		if id, ok := fn.X.(*ast.Ident); ok {
			if d, ok := f.imports[id.Name]; ok {
				if d == "" {
					return exSink{}, "", false
				}
				s, ok := x.sinks[exSinkKey{d, fn.Sel.Name}]
				return s, id.Name + "." + fn.Sel.Name, ok
			}
		}
		// a method of this package that forwards its parameter to a sink (derived; matched by name within the package)
		s, ok := x.sinks[exSinkKey{f.dir, "." + fn.Sel.Name}]
		return s, "(method) ." + fn.Sel.Name, ok
	}
	return exSink{}, "", false
}

// all values assigned to the local variable `name` inside the function body: (values, every assignment is a
// constant, the name is assigned/declared in the body at all)
func (x *extractor) localValues(f *exFile, body *ast.BlockStmt, name string) ([]string, bool, bool) {
	var vals []string
	ok, seen := true, false
	ast.Inspect(body, func(n ast.Node) bool {
		switch v := n.(type) {
		case *ast.AssignStmt:
			for i, l := range v.Lhs {
				if id, is := l.(*ast.Ident); is && id.Name == name {
					seen = true
					if len(v.Lhs) != len(v.Rhs) || (v.Tok != token.ASSIGN && v.Tok != token.DEFINE) {
						ok = false
						continue
					}
					s, r := x.resolve(f, v.Rhs[i], 0)
					if !r {
						ok = false
					} else {
						vals = append(vals, s)
					}
				}
			}
		case *ast.ValueSpec:
			for i, id := range v.Names {
				if id.Name == name {
					seen = true
					if i >= len(v.Values) {
						if len(v.Values) == 0 {
							continue // `var k string` : the zero value is not a message key; later assignments decide
						}
						ok = false
						continue
					}
					s, r := x.resolve(f, v.Values[i], 0)
					if !r {
						ok = false
					} else {
						vals = append(vals, s)
					}
				}
			}
		case *ast.RangeStmt:
			for _, l := range []ast.Expr{v.Key, v.Value} {
				if id, is := l.(*ast.Ident); is && id.Name == name {
					seen, ok = true, false
				}
			}
		case *ast.UnaryExpr:
			if v.Op == token.AND {
				if id, is := v.X.(*ast.Ident); is && id.Name == name {
					ok = false
				}
			}
		}
		return true
	})
	return vals, ok && seen && len(vals) > 0, seen
}

func paramIndex(ft *ast.FuncType, name string) int {
	i := 0
	if ft.Params == nil {
		return -1
	}
	for _, fl := range ft.Params.List {
		if len(fl.Names) == 0 {
			i++
			continue
		}
		for _, nm := range fl.Names {
			if nm.Name == name {
				if _, variadic := fl.Type.(*ast.Ellipsis); variadic {
					return -1
				}
				return i
			}
			i++
		}
	}
	return -1
}

func (x *extractor) run() ([]exSite, []exDyn) {
	x.sinks = baseSinks()
	x.aliased = map[token.Pos]bool{}
	var sites []exSite
	var dyn []exDyn
	for round := 0; round < 8; round++ {
		sites, dyn = nil, nil
		x.stats.SinkCalls, x.stats.ViaParam = 0, 0
		added := false
		for _, pk := range x.pkgs {
			for _, f := range pk.files {
				for _, d := range f.ast.Decls {
					fd, isFn := d.(*ast.FuncDecl)
					var body *ast.BlockStmt
					if isFn {
						body = fd.Body
					}
					// log := ui.Log ; if force { log = ui.WriteLog } ; log(class, "key", ...)  -- local aliases of sinks
					aliases := map[string]exSink{}
					ast.Inspect(d, func(n ast.Node) bool {
						as, ok := n.(*ast.AssignStmt)
						if !ok || len(as.Lhs) != len(as.Rhs) {
							return true
						}
						for i, l := range as.Lhs {
							id, ok := l.(*ast.Ident)
							if !ok {
								continue
							}
							if sk, _, ok := x.sinkOf(f, &ast.CallExpr{Fun: as.Rhs[i]}, nil); ok {
								if old, have := aliases[id.Name]; !have || old == sk {
									aliases[id.Name] = sk
									x.aliased[as.Rhs[i].Pos()] = true
								} else {
									aliases[id.Name] = exSink{"?", 1 << 20} // two different sinks under one name: give up on it
								}
							}
						}
						return true
					})
					litParams := map[string]bool{} // parameter names of function literals inside this declaration
					ast.Inspect(d, func(n ast.Node) bool {
						if fl, ok := n.(*ast.FuncLit); ok && fl.Type.Params != nil {
							for _, p := range fl.Type.Params.List {
								for _, nm := range p.Names {
									litParams[nm.Name] = true
								}
							}
						}
						return true
					})
					ast.Inspect(d, func(n ast.Node) bool {
						call, ok := n.(*ast.CallExpr)
						if !ok {
							return true
						}
						sk, via, ok := x.sinkOf(f, call, aliases)
						if !ok || sk.arg >= len(call.Args) {
							return true
						}
						x.stats.SinkCalls++
						arg := call.Args[sk.arg]
						pos := x.fset.Position(arg.Pos())
						// a bare identifier is looked up innermost scope first: parameter, local variable/constant, package constant
						if id, isId := arg.(*ast.Ident); isId && isFn && body != nil {
							if litParams[id.Name] {
								dyn = append(dyn, exDyn{sk.kind, f.rel, pos.Line, exprText(x.fset, x.root, arg) + " (parameter of a function literal)"})
								return true
							}
							vals, allConst, assigned := x.localValues(f, body, id.Name)
							if pi := paramIndex(fd.Type, id.Name); pi >= 0 {
								if !assigned {
									x.stats.ViaParam++
									nm := fd.Name.Name
									if fd.Recv != nil {
										nm = "." + nm
									}
									k := exSinkKey{f.dir, nm}
									if _, have := x.sinks[k]; !have {
										x.sinks[k] = exSink{sk.kind, pi}
										x.stats.Derived = append(x.stats.Derived, fmt.Sprintf("%s %s(arg %d) -> %s", f.dir, nm, pi, sk.kind))
										added = true
									}
									return true
								}
								dyn = append(dyn, exDyn{sk.kind, f.rel, pos.Line, exprText(x.fset, x.root, arg) + " (reassigned parameter)"})
								return true
							}
							if assigned {
								if allConst {
									for _, s := range vals {
										sites = append(sites, exSite{Kind: sk.kind, Key: s, File: f.rel, Line: pos.Line, Via: via + " (local " + id.Name + ")", pos: call.Pos()})
									}
								} else {
									dyn = append(dyn, exDyn{sk.kind, f.rel, pos.Line, exprText(x.fset, x.root, arg)})
								}
								return true
							}
						}
						if s, ok := x.resolve(f, arg, 0); ok {
							sites = append(sites, exSite{Kind: sk.kind, Key: s, File: f.rel, Line: pos.Line, Via: via, pos: call.Pos()})
							return true
						}
						dyn = append(dyn, exDyn{sk.kind, f.rel, pos.Line, exprText(x.fset, x.root, arg)})
						return true
					})
				}
			}
		}
		if !added {
			break
		}
	}
	// cli.Option{Description: "..."} composite literals
	for _, pk := range x.pkgs {
		for _, f := range pk.files {
			var walk func(n ast.Node, inOpt bool)
			isOptType := func(t ast.Expr) (bool, bool) { // (is Option, is container of Option)
				switch v := t.(type) {
				case *ast.Ident:
					return f.dir == "internal/cli/cli" && v.Name == "Option", false
				case *ast.SelectorExpr:
					if id, ok := v.X.(*ast.Ident); ok && f.imports[id.Name] == "internal/cli/cli" && v.Sel.Name == "Option" {
						return true, false
					}
				case *ast.ArrayType:
					if o, _ := isOptTypeRec(f, v.Elt); o {
						return false, true
					}
				}
				return false, false
			}
			walk = func(n ast.Node, elemIsOpt bool) {
				ast.Inspect(n, func(m ast.Node) bool {
					cl, ok := m.(*ast.CompositeLit)
					if !ok {
						return true
					}
					opt, cont := false, false
					if cl.Type != nil {
						opt, cont = isOptType(cl.Type)
					} else {
						opt = elemIsOpt
					}
					if cont {
						for _, el := range cl.Elts {
							if kv, ok := el.(*ast.KeyValueExpr); ok {
								walk(kv.Value, true)
							} else {
								walk(el, true)
							}
						}
						return false
					}
					if opt {
						dead := ""
						for _, el := range cl.Elts { // help never shows a Private option (internal/cli/cli/help.go)
							if kv, ok := el.(*ast.KeyValueExpr); ok {
								if id, ok := kv.Key.(*ast.Ident); ok && id.Name == "Private" {
									if v, ok := kv.Value.(*ast.Ident); ok && v.Name == "true" {
										dead = "private option: never shown by help"
									}
								}
							}
						}
						for _, el := range cl.Elts {
							kv, ok := el.(*ast.KeyValueExpr)
							if !ok {
								continue
							}
							if id, ok := kv.Key.(*ast.Ident); ok && id.Name == "Description" {
								pos := x.fset.Position(kv.Value.Pos())
								if s, ok := x.resolve(f, kv.Value, 0); ok {
									if s != "" {
										sites = append(sites, exSite{Kind: "Opt", Key: s, File: f.rel, Line: pos.Line, Via: "cli.Option.Description", Dead: dead})
									}
								} else {
									dyn = append(dyn, exDyn{"Opt", f.rel, pos.Line, exprText(x.fset, x.root, kv.Value)})
								}
							} else {
								walk(kv.Value, false)
							}
						}
						return false
					}
					return true
				})
			}
			walk(f.ast, false)
		}
	}
	// a key that only initialises a package-level variable nobody refers to cannot be emitted
	x.markUnreferenced(sites)
	// references to a base sink that are not calls (function values): keys passed through them are invisible here
	base := baseSinks()
	for _, pk := range x.pkgs {
		for _, f := range pk.files {
			called := map[ast.Expr]bool{}
			ast.Inspect(f.ast, func(n ast.Node) bool {
				if c, ok := n.(*ast.CallExpr); ok {
					called[c.Fun] = true
				}
				return true
			})
			ast.Inspect(f.ast, func(n ast.Node) bool {
				se, ok := n.(*ast.SelectorExpr)
				if !ok || called[se] || x.aliased[se.Pos()] {
					return true
				}
				if id, ok := se.X.(*ast.Ident); ok {
					if d, ok := f.imports[id.Name]; ok && d != "" {
						if _, is := base[exSinkKey{d, se.Sel.Name}]; is {
							p := x.fset.Position(se.Pos())
							x.stats.NonCallRefs = append(x.stats.NonCallRefs, fmt.Sprintf("%s:%d %s.%s", f.rel, p.Line, id.Name, se.Sel.Name))
						}
					}
				}
				return true
			})
		}
	}
	sort.Slice(sites, func(i, j int) bool {
		a, b := sites[i], sites[j]
		if a.Kind != b.Kind {
			return a.Kind < b.Kind
		}
		if a.Key != b.Key {
			return a.Key < b.Key
		}
		if a.File != b.File {
			return a.File < b.File
		}
		return a.Line < b.Line
	})
	sort.Slice(dyn, func(i, j int) bool {
		if dyn[i].File != dyn[j].File {
			return dyn[i].File < dyn[j].File
		}
		return dyn[i].Line < dyn[j].Line
	})
	sort.Strings(x.stats.Derived)
	sort.Strings(x.stats.NonCallRefs)
	x.stats.Resolved, x.stats.Dynamic = len(sites), len(dyn)
	return sites, dyn
}

// markUnreferenced: for `var V = <sink call>(...)` at package level, count the uses of V (pkg.V elsewhere, V inside
// the package, any file that is not a test); none => the site is dead.
func (x *extractor) markUnreferenced(sites []exSite) {
	type vkey struct{ dir, name string }
	byPos := map[token.Pos]vkey{}
	for _, pk := range x.pkgs {
		for _, f := range pk.files {
			for _, d := range f.ast.Decls {
				gd, ok := d.(*ast.GenDecl)
				if !ok || gd.Tok != token.VAR {
					continue
				}
				for _, sp := range gd.Specs {
					vs := sp.(*ast.ValueSpec)
					for i, nm := range vs.Names {
						if i < len(vs.Values) {
							e := vs.Values[i]
							for { // V = Message("k").SetUser(true) : the innermost call is the sink call
								c, ok := e.(*ast.CallExpr)
								if !ok {
									break
								}
								byPos[c.Pos()] = vkey{f.dir, nm.Name}
								se, ok := c.Fun.(*ast.SelectorExpr)
								if !ok {
									break
								}
								e = se.X
							}
						}
					}
				}
			}
		}
	}
	uses := map[vkey]int{}
	for _, pk := range x.pkgs {
		for _, f := range pk.files {
			ast.Inspect(f.ast, func(n ast.Node) bool {
				switch v := n.(type) {
				case *ast.SelectorExpr:
					if id, ok := v.X.(*ast.Ident); ok {
						if d, ok := f.imports[id.Name]; ok && d != "" {
							uses[vkey{d, v.Sel.Name}]++
							return false
						}
					}
				case *ast.Ident:
					uses[vkey{f.dir, v.Name}]++
				}
				return true
			})
		}
	}
	for i := range sites {
		if vk, ok := byPos[sites[i].pos]; ok && sites[i].pos != token.NoPos {
			if uses[vk] <= 1 { // the declaration itself is one Ident
				sites[i].Dead = "initialises " + vk.name + ", which nothing refers to"
			}
		}
	}
}

func isOptTypeRec(f *exFile, t ast.Expr) (bool, bool) {
	switch v := t.(type) {
	case *ast.Ident:
		return f.dir == "internal/cli/cli" && v.Name == "Option", false
	case *ast.SelectorExpr:
		if id, ok := v.X.(*ast.Ident); ok && f.imports[id.Name] == "internal/cli/cli" && v.Sel.Name == "Option" {
			return true, false
		}
	case *ast.StarExpr:
		return isOptTypeRec(f, v.X)
	}
	return false, false
}

func extractSites(root string) ([]exSite, []exDyn, exStats, error) {
	x := &extractor{root: root}
	if err := x.load(); err != nil {
		return nil, nil, x.stats, err
	}
	sites, dyn := x.run()
	return sites, dyn, x.stats, nil
}

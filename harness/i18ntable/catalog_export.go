//go:build verif

package i18n

// C38 harness: read-only view of the compiled message catalog (the unexported
// map generated into messages.go) for the harness package
// internal/verifharness/i18ntable.  Overlaid at build time; never part of /repo.
func VerifCatalog() map[string]map[string]string { return messages }

package sandbox

import (
	"fmt"
	"os"
	"sort"
	"testing"

	"github.com/tucats/ego/internal/language/data"
	"github.com/tucats/ego/internal/runtime"
)

func TestExploreInventory(t *testing.T) {
	ents, _ := os.ReadDir(os.Getenv("VERIF_REPO_DIR") + "/internal/runtime")
	for _, e := range ents {
		if !e.IsDir() {
			continue
		}
		p := runtime.AddPackage(e.Name())
		if p == nil {
			fmt.Println("PKG", e.Name(), "nil")
			continue
		}
		keys := p.Keys()
		sort.Strings(keys)
		for _, k := range keys {
			v, _ := p.Get(k)
			switch f := v.(type) {
			case data.Function:
				d := f.Declaration
				if d == nil {
					fmt.Println("FN", e.Name(), k, "nodecl")
					continue
				}
				fmt.Printf("FN %s.%s %s sandboxedFn=%v native=%v\n", e.Name(), k, d.String(), f.Sandboxed, f.IsNative)
			case *data.Type:
				fmt.Printf("TYPE %s.%s %s\n", e.Name(), k, f.FunctionNameList())
			default:
				fmt.Printf("OTHER %s.%s %T\n", e.Name(), k, v)
			}
		}
	}
}

// Harness of C26 (binding F): drives the REAL interpreter (compiler + bytecode context, the same way
// internal/server/admin/run.go runs dashboard code) inside a chroot'ed scratch universe and projects what
// each generated call did to the file tree / which marked values it returned.  It decides nothing: the
// records go to TLC (SandboxPath_Trace).
//
// The inventory of functions is DERIVED: every directory of internal/runtime is offered to
// runtime.AddPackage; every function of every package found that declares a string parameter is called with
// the path spelling in each string position (other parameters get type-directed fillers; a few optional
// "hints" supply alternative values for non-path parameters such as io.Open's mode).  When the first result
// is a handle type with methods (os.File, io.File, sql.Database ...) every method that can be given
// arguments is called on it too (follow-ups), so reads/writes through a handle are observed.
package sandbox

import (
	"bufio"
	"encoding/json"
	"fmt"
	"os"
	"path/filepath"
	"regexp"
	"runtime"
	"runtime/debug"
	"sort"
	"strconv"
	"strings"
	"syscall"
	"testing"
	"time"

	"github.com/tucats/ego/internal/cli/settings"
	"github.com/tucats/ego/internal/defs"
	"github.com/tucats/ego/internal/language/bytecode"
	"github.com/tucats/ego/internal/language/compiler"
	"github.com/tucats/ego/internal/language/data"
	"github.com/tucats/ego/internal/language/symbols"
	egoruntime "github.com/tucats/ego/internal/runtime"
)

type node struct {
	P  []string `json:"p"`
	K  string   `json:"k"`
	TA bool     `json:"ta"`
	TC []string `json:"tc"`
}

type spell struct {
	Abs bool     `json:"abs"`
	C   []string `json:"c"`
}

type kase struct {
	Loopy bool   `json:"loopy"`
	ID    int    `json:"id"`
	Nodes []node `json:"nodes"`
	Sp    spell  `json:"sp"`
}

type eff struct {
	K   string   `json:"k"`
	Loc []string `json:"loc"`
}

type group struct {
	E   []eff    `json:"e"`
	Fns []string `json:"fns"`
}

type coreRec struct {
	Fn string `json:"fn"`
	E  []eff  `json:"e"`
}

type outRec struct {
	ID      int       `json:"id"`
	M       string    `json:"m"`
	Groups  []group   `json:"groups"`
	Core    []coreRec `json:"core"`
	Calls   int       `json:"calls"`
	Skipped int       `json:"skipped"`
	Errs    int       `json:"errs"`
}

// one way of calling one function with the path in one string position
type callSpec struct {
	ID      string // pkg.Fn#pos[@variant]
	Base    string // pkg.Fn#pos
	Src     func(path string) string
	bc      *bytecode.ByteCode
	bcErr   error
	Skipped string
}

const intArg = "448" // 0o700: changes the mode of files (0644) and directories (0755) alike

var needImport = map[string]string{}

var netDeny = map[string]bool{"ai": true, "rest": true, "proxy": true, "http": true}

func textOf(sp spell) string {
	s := strings.Join(sp.C, "/")
	if sp.Abs {
		s = "/" + s
	}

	return s
}

func pathOf(p []string) string { return "/" + strings.Join(p, "/") }

// ---------------------------------------------------------------- argument synthesis

type synth struct {
	pre  []string
	post []string
	n    int
}

func (s *synth) arg(ts string, tag string) (string, bool) {
	s.n++
	v := fmt.Sprintf("%s%d", tag, s.n)

	switch {
	case ts == "string":
		return `"x"`, true
	case ts == "int" || ts == "int64" || ts == "int32" || ts == "int16" || ts == "int8" || ts == "byte" || ts == "uint32" || ts == "uint64" || ts == "uint":
		return ts + "(" + intArg + ")", true
	case ts == "float64" || ts == "float32":
		return ts + "(1.5)", true
	case ts == "bool":
		return "false", true
	case ts == "[]byte":
		s.pre = append(s.pre, v+" := make([]byte, 64)")
		s.post = append(s.post, `fmt.Println("@@B", string(`+v+`))`)

		return v, true
	case ts == "[]string":
		return `[]string{"x"}`, true
	case ts == "[]int":
		return `[]int{1}`, true
	case ts == "interface{}" || ts == "any":
		return `"data-x"`, true
	case ts == "[]interface{}":
		return `[]interface{}{"x"}`, true
	case ts == "map[string]interface{}":
		return `map[string]interface{}{}`, true
	case ts == "*interface{}" || ts == "*any":
		s.pre = append(s.pre, "var "+v+" interface{}")
		s.post = append(s.post, `fmt.Println("@@P", `+v+`)`)

		return "&" + v, true
	case ts == "*string":
		s.pre = append(s.pre, v+` := "x"`)
		s.post = append(s.post, `fmt.Println("@@P", `+v+`)`)

		return "&" + v, true
	case ts == "time.Duration":
		return "time.Duration(1000000)", true
	case strings.HasPrefix(ts, "func(key string) string"), ts == "func(string) string":
		return "func(k string) string { return k }", true
	}

	return "", false
}

func printable(ts string, v string) string {
	if ts == "[]byte" {
		return "string(" + v + ")"
	}

	return v
}

// callText builds "lhs := recv.Name(args)" + prints; pathPos < 0 means no path argument (a follow-up method).
func callText(recv string, d *data.Declaration, pathPos int, pathExpr string, fill map[int]string, tag string, label string) (string, bool, string) {
	s := &synth{}
	args := []string{}
	np := len(d.Parameters)

	for i := 0; i < np; i++ {
		ts := d.Parameters[i].Type.String()
		if d.Variadic && i == np-1 {
			ts = strings.TrimPrefix(ts, "...")
		}

		if i == pathPos {
			args = append(args, pathExpr)

			continue
		}

		if f, ok := fill[i]; ok && ts == "string" {
			args = append(args, strconv.Quote(f))

			continue
		}

		a, ok := s.arg(ts, tag+"a")
		if !ok {
			return "", false, "parameter " + d.Parameters[i].Name + " of type " + ts + " cannot be synthesized"
		}

		args = append(args, a)
	}

	b := strings.Builder{}
	for _, p := range s.pre {
		b.WriteString(p + "\n")
	}

	call := recv + "." + d.Name + "(" + strings.Join(args, ", ") + ")"
	nr := len(d.Returns)

	if nr == 0 {
		b.WriteString(call + "\n")
		b.WriteString(`fmt.Println("@@V", "` + label + `")` + "\n")
	} else {
		lhs := []string{}
		prs := []string{}

		for i := 0; i < nr; i++ {
			v := fmt.Sprintf("%sr%d", tag, i)
			lhs = append(lhs, v)
			ts := ""

			if d.Returns[i] != nil {
				ts = d.Returns[i].String()
			}

			prs = append(prs, printable(ts, v))
		}

		b.WriteString(strings.Join(lhs, ", ") + " := " + call + "\n")
		b.WriteString(`fmt.Println("@@V", "` + label + `", ` + strings.Join(prs, ", ") + ")\n")
	}

	for _, p := range s.post {
		b.WriteString(p + "\n")
	}

	return b.String(), true, ""
}

var reMethod = regexp.MustCompile(`^(?:\([^)]*\)\s*)?([A-Za-z_][A-Za-z0-9_]*)\(`)

// FunctionNames() yields declaration texts such as "(f File) ReadString() (string, error)"
func methodNames(t *data.Type) []string {
	out := []string{}

	for _, s := range t.FunctionNames() {
		if m := reMethod.FindStringSubmatch(strings.TrimSpace(s)); m != nil {
			out = append(out, m[1])
		}
	}

	return out
}

func handleType(d *data.Declaration) *data.Type {
	if len(d.Returns) == 0 || d.Returns[0] == nil {
		return nil
	}

	t := d.Returns[0]
	if t.IsPointer() && t.BaseType() != nil {
		t = t.BaseType()
	}

	if len(t.FunctionNames()) == 0 {
		return nil
	}

	return t
}

// program for one call (+ follow-ups on a returned handle)
func program(pkg string, d *data.Declaration, pos int, fill map[int]string, deco string) (func(string) string, string) {
	// validate once with a dummy path
	if _, ok, why := callText(pkg, d, pos, `"p"`, fill, "c", "call"); !ok {
		return nil, why
	}

	follow := ""

	if ht := handleType(d); ht != nil && !netDeny[pkg] {
		names := methodNames(ht)
		sort.Slice(names, func(i, j int) bool {
			ci, cj := names[i] == "Close", names[j] == "Close"
			if ci != cj {
				return cj
			}

			return names[i] < names[j]
		})

		for i, m := range names {
			mf := ht.FunctionByName(m)
			if mf == nil || mf.Declaration == nil {
				continue
			}

			md := mf.Declaration

			txt, ok, _ := callText("cr0", md, -1, "", nil, fmt.Sprintf("m%d", i), "method "+m)
			if !ok {
				continue
			}

			follow += "try {\n" + txt + "} catch (e) { fmt.Println(\"@@ME\", \"" + m + "\", e) }\n"
		}
	}

	// the path reaches the program through the variable verifPath (set in the symbol table of each run), so
	// that one compilation serves every case
	pathExpr := "verifPath"
	if deco != "" {
		pathExpr = strconv.Quote(deco) + " + verifPath"
	}

	txt, _, _ := callText(pkg, d, pos, pathExpr, fill, "c", "call")
	src := needImport[pkg] + "try {\n" + txt + follow + "} catch (e) { fmt.Println(\"@@E\", e) }\n"

	return func(path string) string { return src }, ""
}

// ---------------------------------------------------------------- inventory (derived)

type hint struct {
	Slow      bool     `json:"slow"`      // expensive (key derivation): called on every 8th case only
	Recursive bool     `json:"recursive"` // walks directories recursively: not called on layouts with a directory cycle
	Values    []string `json:"values"`    // alternative values of a NON-path string parameter
	Deco      []string `json:"deco"`      // prefixes put before the path when it is in this position
}

func inventory(repo string, console *symbols.SymbolTable, hints map[string]hint, report *[]string) []callSpec {
	ents, err := os.ReadDir(filepath.Join(repo, "internal", "runtime"))
	if err != nil {
		panic(err)
	}

	out := []callSpec{}

	for _, e := range ents {
		if !e.IsDir() {
			continue
		}

		pkgName := e.Name()

		p := egoruntime.AddPackage(pkgName)
		if p == nil {
			*report = append(*report, "PKG "+pkgName+" not registered")

			continue
		}

		if _, found := console.Get(pkgName); !found {
			needImport[pkgName] = "import \"" + pkgName + "\"\n"
		}

		keys := p.Keys()
		sort.Strings(keys)

		for _, k := range keys {
			v, _ := p.Get(k)

			f, ok := v.(data.Function)
			if !ok || f.Declaration == nil {
				continue
			}

			d := f.Declaration
			np := len(d.Parameters)

			for i := 0; i < np; i++ {
				ts := d.Parameters[i].Type.String()
				if d.Variadic && i == np-1 {
					ts = strings.TrimPrefix(ts, "...")
				}

				if ts != "string" {
					continue
				}

				base := fmt.Sprintf("%s.%s#%d", pkgName, k, i)
				// combinations of hinted values for the other string parameters
				combos := []map[int]string{{}}

				for j := 0; j < np; j++ {
					if j == i {
						continue
					}

					h, ok := hints[fmt.Sprintf("%s.%s#%d", pkgName, k, j)]
					if !ok || len(h.Values) == 0 {
						continue
					}

					next := []map[int]string{}

					for _, c := range combos {
						for _, val := range h.Values {
							m := map[int]string{}
							for a, b := range c {
								m[a] = b
							}

							m[j] = val
							next = append(next, m)
						}
					}

					combos = next
				}

				decos := []string{""}
				if h, ok := hints[base]; ok && len(h.Deco) > 0 {
					decos = h.Deco
				}

				n := 0

				for _, c := range combos {
					for _, dc := range decos {
						id := base
						if len(combos)*len(decos) > 1 {
							id = fmt.Sprintf("%s@%d", base, n)
						}

						n++

						src, why := program(pkgName, d, i, c, dc)
						cs := callSpec{ID: id, Base: base, Src: src, Skipped: why}
						out = append(out, cs)

						if why != "" {
							*report = append(*report, "SKIP "+id+": "+why)
						}
					}
				}
			}
		}
	}

	return out
}

// ---------------------------------------------------------------- the universe

var (
	reContent = regexp.MustCompile(`C(\d\d)xxx`)
	reSize    = regexp.MustCompile(`(?:^|[^0-9])13(\d\d)(?:$|[^0-9])`)
	reTime    = regexp.MustCompile(`2001-02-03 04:05:(\d\d)`)
	reHidden  = regexp.MustCompile(`zq(\d\d)`)
)

type universe struct {
	nodes []node // sorted: parents first
}

func newUniverse(ns []node) *universe {
	u := &universe{nodes: append([]node{}, ns...)}
	sort.SliceStable(u.nodes, func(i, j int) bool {
		if len(u.nodes[i].P) != len(u.nodes[j].P) {
			return len(u.nodes[i].P) < len(u.nodes[j].P)
		}

		return pathOf(u.nodes[i].P) < pathOf(u.nodes[j].P)
	})

	return u
}

func clearDir(dir string) {
	ents, _ := os.ReadDir(dir)
	for _, e := range ents {
		p := filepath.Join(dir, e.Name())
		_ = os.Chmod(p, 0o700)
		_ = os.RemoveAll(p)
	}
}

func (u *universe) build() {
	clearDir("/")

	base := time.Date(2001, 2, 3, 4, 5, 0, 0, time.UTC)
	plain := time.Date(2001, 1, 1, 0, 0, 0, 0, time.UTC)

	for i, n := range u.nodes {
		p := pathOf(n.P)

		switch n.K {
		case "dir":
			if len(n.P) > 0 {
				if err := os.Mkdir(p, 0o755); err != nil {
					panic(err)
				}
			}

			_ = os.Chmod(p, 0o755)
			h := filepath.Join(p, fmt.Sprintf("zq%02d", i))

			if err := os.WriteFile(h, []byte("h"), 0o644); err != nil {
				panic(err)
			}

			_ = os.Chtimes(h, plain, plain)
		case "file":
			body := fmt.Sprintf("\"C%02d", i)
			body += strings.Repeat("x", 1300+i-len(body)-1) + "\""

			if err := os.WriteFile(p, []byte(body), 0o644); err != nil {
				panic(err)
			}
		case "link":
			t := strings.Join(n.TC, "/")
			if n.TA {
				t = "/" + t
			}

			if err := os.Symlink(t, p); err != nil {
				panic(err)
			}
		}
	}
	// times last (creating children touches the parents), deepest first
	for i := len(u.nodes) - 1; i >= 0; i-- {
		n := u.nodes[i]
		if n.K == "link" {
			continue
		}

		t := base.Add(time.Duration(i) * time.Second)
		_ = os.Chtimes(pathOf(n.P), t, t)
	}
}

// cheap change detector: lstat of every node the universe was built with (directories included, so that a
// creation or removal anywhere shows as a changed directory time).  Only when a signature differs is the
// full snapshot taken and compared.
type sig struct {
	mode  os.FileMode
	size  int64
	mtime int64
	uid   uint32
	gid   uint32
	ino   uint64
	ok    bool
}

func sigOf(p string) sig {
	fi, err := os.Lstat(p)
	if err != nil {
		return sig{}
	}

	g := sig{mode: fi.Mode(), size: fi.Size(), mtime: fi.ModTime().UnixNano(), ok: true}
	if st, ok := fi.Sys().(*syscall.Stat_t); ok {
		g.uid, g.gid, g.ino = st.Uid, st.Gid, st.Ino
	}

	if fi.IsDir() {
		g.size = 0
	}

	return g
}

func (u *universe) paths() []string {
	out := []string{}

	for i, n := range u.nodes {
		out = append(out, pathOf(n.P))
		if n.K == "dir" {
			out = append(out, filepath.Join(pathOf(n.P), fmt.Sprintf("zq%02d", i)))
		}
	}

	return out
}

func sigsOf(paths []string) []sig {
	out := make([]sig, len(paths))
	for i, p := range paths {
		out[i] = sigOf(p)
	}

	return out
}

func sameSigs(a, b []sig) bool {
	for i := range a {
		if a[i] != b[i] {
			return false
		}
	}

	return true
}

type entry struct {
	kind    string
	mode    os.FileMode
	uid     uint32
	gid     uint32
	content string
}

func snapshot() map[string]entry {
	m := map[string]entry{}

	var walk func(p string)

	walk = func(p string) {
		fi, err := os.Lstat(p)
		if err != nil {
			return
		}

		e := entry{mode: fi.Mode().Perm()}
		if st, ok := fi.Sys().(*syscall.Stat_t); ok {
			e.uid, e.gid = st.Uid, st.Gid
		}

		switch {
		case fi.Mode()&os.ModeSymlink != 0:
			e.kind = "link"
			e.content, _ = os.Readlink(p)
			e.mode = 0
		case fi.IsDir():
			e.kind = "dir"
		default:
			e.kind = "file"
			if fi.Mode().IsRegular() {
				b, _ := os.ReadFile(p)
				e.content = string(b)
			}
		}

		m[p] = e

		if e.kind == "dir" {
			ents, _ := os.ReadDir(p)
			for _, c := range ents {
				walk(filepath.Join(p, c.Name()))
			}
		}
	}

	walk("/")

	return m
}

func splitLoc(p string) []string {
	out := []string{}

	for _, c := range strings.Split(p, "/") {
		if c != "" {
			out = append(out, c)
		}
	}

	return out
}

func diff(a, b map[string]entry) []eff {
	out := []eff{}

	for p, eb := range b {
		ea, ok := a[p]
		if !ok {
			out = append(out, eff{"create", splitLoc(p)})

			continue
		}

		if ea.kind != eb.kind || ea.content != eb.content {
			out = append(out, eff{"modify", splitLoc(p)})
		} else if ea.mode != eb.mode || ea.uid != eb.uid || ea.gid != eb.gid {
			out = append(out, eff{"chmod", splitLoc(p)})
		}
	}

	for p := range a {
		if _, ok := b[p]; !ok {
			out = append(out, eff{"delete", splitLoc(p)})
		}
	}

	return out
}

// marked values in what the program printed -> which node's content / listing / metadata it saw
func (u *universe) observed(out string) []eff {
	res := []eff{}
	seen := map[string]bool{}
	add := func(k string, idx string, hidden bool) {
		i, _ := strconv.Atoi(idx)
		if i < 0 || i >= len(u.nodes) {
			return
		}

		key := k + "#" + idx
		if seen[key] {
			return
		}

		seen[key] = true
		n := u.nodes[i]

		if hidden {
			if n.K == "dir" {
				res = append(res, eff{k, append([]string{}, n.P...)})
			}

			return
		}

		res = append(res, eff{k, append([]string{}, n.P...)})
	}

	for _, m := range reContent.FindAllStringSubmatch(out, -1) {
		add("read", m[1], false)
	}

	for _, m := range reHidden.FindAllStringSubmatch(out, -1) {
		add("list", m[1], true)
	}

	for _, m := range reSize.FindAllStringSubmatch(out, -1) {
		i, _ := strconv.Atoi(m[1])
		if i < len(u.nodes) && u.nodes[i].K == "file" {
			add("stat", m[1], false)
		}
	}

	for _, m := range reTime.FindAllStringSubmatch(out, -1) {
		add("stat", m[1], false)
	}

	return res
}

func normEffs(es []eff) []eff {
	seen := map[string]bool{}
	out := []eff{}

	for _, e := range es {
		k := e.K + " " + pathOf(e.Loc)
		if !seen[k] {
			seen[k] = true
			out = append(out, e)
		}
	}

	sort.Slice(out, func(i, j int) bool {
		a, b := out[i].K+" "+pathOf(out[i].Loc), out[j].K+" "+pathOf(out[j].Loc)

		return a < b
	})

	return out
}

func effKey(es []eff) string {
	b, _ := json.Marshal(es)

	return string(b)
}

// ---------------------------------------------------------------- the driver

func TestVerifSandbox(t *testing.T) {
	in, outp := os.Getenv("VERIF_IN"), os.Getenv("VERIF_OUT")
	if in == "" || outp == "" {
		t.Skip("VERIF_IN / VERIF_OUT not set")
	}

	runtime.LockOSThread()
	debug.SetMaxStack(64 << 20) // runaway recursion in interpreted code dies quickly instead of eating the machine

	mode := os.Getenv("VERIF_MODE") // sand | plain
	g := os.Getenv("VERIF_G")
	repo := os.Getenv("VERIF_REPO_DIR")
	marks := os.Getenv("VERIF_STRACE") != ""

	hints := map[string]hint{}
	if h := os.Getenv("VERIF_HINTS"); h != "" {
		if err := json.Unmarshal([]byte(h), &hints); err != nil {
			t.Fatal(err)
		}
	}

	var want []string
	if f := os.Getenv("VERIF_FNS"); f != "" && f != "*" {
		if err := json.Unmarshal([]byte(f), &want); err != nil {
			t.Fatal(err)
		}
	}

	coreSet := map[string]bool{}
	if f := os.Getenv("VERIF_CORE"); f != "" {
		var cs []string
		if err := json.Unmarshal([]byte(f), &cs); err != nil {
			t.Fatal(err)
		}

		for _, c := range cs {
			coreSet[c] = true
		}
	}

	// the interpreter, set up the way the dashboard "run code" endpoint does it
	root := symbols.NewRootSymbolTable("c26")
	console := symbols.NewChildSymbolTable("console", root)
	compiler.AddStandard(root)

	comp := compiler.New("c26").SetExtensionsEnabled(true).SetRoot(console)
	if err := comp.AutoImport(true, console); err != nil {
		t.Fatal(err)
	}

	if mode == "sand" {
		settings.SetDefault(defs.SandboxPathSetting, "/a/w/root")
	} else {
		settings.SetDefault(defs.SandboxPathSetting, "")
	}

	report := []string{}
	inv := inventory(repo, console, hints, &report)

	sel := []callSpec{}

	for _, c := range inv {
		if c.Src == nil {
			continue
		}

		if want != nil {
			ok := false

			for _, w := range want {
				if c.Base == w || strings.HasPrefix(c.Base, w+"#") {
					ok = true
				}
			}

			if !ok {
				continue
			}
		}

		sel = append(sel, c)
	}

	if io := os.Getenv("VERIF_INV_OUT"); io != "" {
		ids := []string{}
		for _, c := range inv {
			ids = append(ids, c.ID)
		}

		sids := []string{}
		for _, c := range sel {
			sids = append(sids, c.ID)
		}

		b, _ := json.Marshal(map[string]any{"all": ids, "selected": sids, "report": report})
		_ = os.WriteFile(io, b, 0o644)
	}

	// input and output are opened BEFORE the chroot
	inf, err := os.Open(in)
	if err != nil {
		t.Fatal(err)
	}

	cases := []kase{}
	sc := bufio.NewScanner(inf)
	sc.Buffer(make([]byte, 1<<20), 1<<26)

	for sc.Scan() {
		if len(strings.TrimSpace(sc.Text())) == 0 {
			continue
		}

		var k kase
		if err := json.Unmarshal(sc.Bytes(), &k); err != nil {
			t.Fatal(err)
		}

		cases = append(cases, k)
	}

	inf.Close()

	of, err := os.Create(outp)
	if err != nil {
		t.Fatal(err)
	}

	w := bufio.NewWriter(of)
	hang, _ := os.Create(outp + ".hang")

	if err := syscall.Chroot(g); err != nil {
		t.Fatalf("chroot %s: %v (the harness must run as root)", g, err)
	}

	if err := os.Chdir("/"); err != nil {
		t.Fatal(err)
	}

	current := ""
	tick := time.Now()

	go func() {
		for {
			time.Sleep(2 * time.Second)

			if current != "" && time.Since(tick) > 150*time.Second {
				fmt.Fprintln(hang, current)
				hang.Sync()
				w.Flush()
				os.Exit(3)
			}
		}
	}()

	var tRun, tObs time.Duration

	perFn := map[string]time.Duration{}

	defer func() {
		fmt.Printf("TIMING run=%v observe=%v\n", tRun, tObs)

		ks := []string{}
		for k := range perFn {
			ks = append(ks, k)
		}

		sort.Slice(ks, func(i, j int) bool { return perFn[ks[i]] > perFn[ks[j]] })

		for i, k := range ks {
			if i < 12 {
				fmt.Printf("TIMING %s %v\n", k, perFn[k])
			}
		}
	}()

	for ci, k := range cases {
		u := newUniverse(k.Nodes)
		u.build()

		before := snapshot()
		paths := u.paths()
		sigs := sigsOf(paths)
		path := textOf(k.Sp)
		rec := outRec{ID: k.ID, M: mode}
		byEff := map[string]*group{}
		order := []string{}

		for fi, c := range sel {
			fh := hints[strings.SplitN(c.Base, "#", 2)[0]]
			if (k.Loopy && fh.Recursive) || (fh.Slow && ci%8 != 0) {
				rec.Skipped++

				continue
			}

			src := c.Src(path)
			_ = os.Chdir("/a/w/root")
			current, tick = c.ID, time.Now()

			var (
				output string
				runErr error
			)

			t0 := time.Now()

			func() {
				defer func() {
					if r := recover(); r != nil {
						runErr = fmt.Errorf("panic: %v", r)
					}
				}()

				cp := &sel[fi]
				if cp.bc == nil && cp.bcErr == nil {
					cp.bc, cp.bcErr = compiler.CompileString("c26", src, true)
					if cp.bcErr == nil {
						cp.bc.Emit(bytecode.Stop)
					}
				}

				if cp.bcErr != nil {
					runErr = fmt.Errorf("compile: %v", cp.bcErr)

					return
				}

				bc := cp.bc
				st := symbols.NewChildSymbolTable("case", console)
				st.SetAlways("verifPath", path)
				ctx := bytecode.NewContext(st, bc).Sandboxed(mode == "sand").EnableConsoleOutput(false)

				if marks {
					_ = syscall.Access(fmt.Sprintf("/@@B/%d/%d", ci, fi), 0)

					defer func() { _ = syscall.Access(fmt.Sprintf("/@@E/%d/%d", ci, fi), 0) }()
				}

				runErr = ctx.Run()

				output = ctx.GetOutput()
			}()

			current = ""
			_ = os.Chdir("/")
			rec.Calls++
			tRun += time.Since(t0)
			perFn[c.Base] += time.Since(t0)
			t1 := time.Now()

			if runErr != nil {
				rec.Errs++
				output += "\n" + runErr.Error()

				if ci == 0 && strings.HasPrefix(runErr.Error(), "compile:") {
					fmt.Fprintln(hang, "COMPILE "+c.ID+": "+runErr.Error())
				}
			}

			if os.Getenv("VERIF_DEBUG") != "" {
				fmt.Printf("---- %s %q\n%s\n%s\n", c.ID, path, src, output)
			}

			effs := u.observed(output)

			if !sameSigs(sigs, sigsOf(paths)) {
				effs = append(effs, diff(before, snapshot())...)

				u.build()

				before = snapshot()
				sigs = sigsOf(paths)
			}

			effs = normEffs(effs)

			tObs += time.Since(t1)

			if coreSet[c.Base] {
				rec.Core = append(rec.Core, coreRec{Fn: c.Base, E: effs})
			}

			if len(effs) > 0 {
				key := effKey(effs)
				gp, ok := byEff[key]

				if !ok {
					gp = &group{E: effs}
					byEff[key] = gp
					order = append(order, key)
				}

				dup := false

				for _, f := range gp.Fns {
					dup = dup || f == c.Base
				}

				if !dup {
					gp.Fns = append(gp.Fns, c.Base)
				}
			}
		}

		for _, key := range order {
			rec.Groups = append(rec.Groups, *byEff[key])
		}

		if rec.Groups == nil {
			rec.Groups = []group{}
		}

		if rec.Core == nil {
			rec.Core = []coreRec{}
		}

		b, _ := json.Marshal(rec)
		w.Write(b)
		w.WriteString("\n")
	}

	w.Flush()
	of.Close()
}

package c27

// Binding F for spec/CryptoEnvelope (property C27).
//
// The harness only DRIVES the real code and LOGS what it did:
//   - it seals the plaintexts / passphrases that TLC enumerated (CryptoEnvelope_Gen)
//     with the real util.Encrypt, settings.Encrypt and tokens.New (and, for the
//     formats the code can only read, with the wire format given by the spec's
//     layout constants),
//   - it offers every edit of every sealed text (every offset, every length,
//     extensions, magic/prefix swaps, other keys, seeded garbage) to the real
//     util.Decrypt, settings.Decrypt, tokens.Unwrap and tokens.Validate,
//   - it writes the input bytes and the (text, error) that came back.
// Whether a reply is right is decided by TLC (CryptoEnvelope_Trace); TLC also
// checks that each logged input really is the edit it claims to be and that no
// offset / length of the quantifier was skipped.

import (
	"crypto/aes"
	"crypto/cipher"
	"crypto/md5"
	crand "crypto/rand"
	"crypto/sha256"
	"encoding/base64"
	"encoding/hex"
	"encoding/json"
	"fmt"
	"io"
	mrand "math/rand"
	"os"
	"strings"
	"sync"
	"testing"

	"golang.org/x/crypto/pbkdf2"

	"github.com/tucats/ego/internal/cli/settings"
	"github.com/tucats/ego/internal/language/tokens"
	"github.com/tucats/ego/internal/util"
)

type c27Layout struct {
	Magic3 []int `json:"magic3"`
	Magic2 []int `json:"magic2"`
	Salt   int   `json:"salt"`
	Nonce  int   `json:"nonce"`
	Tag    int   `json:"tag"`
}

type c27Request struct {
	Fmt    string   `json:"fmt"`
	Pt     []int    `json:"pt"`
	Pass   string   `json:"pass"`
	Others []string `json:"others"`
}

type c27Plan struct {
	Layout   c27Layout    `json:"layout"`
	Requests []c27Request `json:"requests"`
}

type c27Seal struct {
	ID   int    `json:"id"`
	API  string `json:"api"`
	Fmt  string `json:"fmt"`
	Pass string `json:"pass"`
	Pt   []int  `json:"pt"`
	Text []int  `json:"text"`
}

type c27Case struct {
	Seal int    `json:"seal"`
	API  string `json:"api"`
	Kind string `json:"kind"`
	Off  int    `json:"off"`
	N    int    `json:"n"`
	Arg  string `json:"arg"`
	Inp  []int  `json:"inp"`
	Pass string `json:"pass"`
	Ok   bool   `json:"ok"`
	Err  bool   `json:"err"`
	Got  []int  `json:"got"`
	// not logged
	inp []byte
}

func c27Ints(b []byte) []int {
	out := make([]int, len(b))
	for i, c := range b {
		out[i] = int(c)
	}
	return out
}

func c27Bytes(v []int) []byte {
	out := make([]byte, len(v))
	for i, c := range v {
		out[i] = byte(c)
	}
	return out
}

func c27Rand(n int) []byte {
	b := make([]byte, n)
	if _, err := io.ReadFull(crand.Reader, b); err != nil {
		panic(err)
	}
	return b
}

// c27GcmSeal: [nonce][ciphertext+tag] under a raw 32-byte key (the wire format
// shared by every version; the nonce length comes from the spec's layout).
func c27GcmSeal(key, pt []byte, lay c27Layout) ([]byte, error) {
	block, err := aes.NewCipher(key)
	if err != nil {
		return nil, err
	}
	gcm, err := cipher.NewGCM(block)
	if err != nil {
		return nil, err
	}
	if gcm.NonceSize() != lay.Nonce || gcm.Overhead() != lay.Tag {
		return nil, fmt.Errorf("layout of the spec (nonce %d, tag %d) is not AES-GCM's (%d, %d)", lay.Nonce, lay.Tag, gcm.NonceSize(), gcm.Overhead())
	}
	var nonce []byte
	for {
		nonce = c27Rand(lay.Nonce)
		if nonce[0] != 0xFF { // a legacy envelope must not look like a magic (documented 2^-32 ambiguity)
			break
		}
	}
	return gcm.Seal(nonce, nonce, pt, nil), nil
}

func c27MD5Key(pass string) []byte {
	h := md5.Sum([]byte(pass))
	return []byte(hex.EncodeToString(h[:]))
}

const c27UUID = "aaaaaaaa-aaaa-aaaa-aaaa-aaaaaaaaaaaa"

var c27TokenMu sync.Mutex // EGO_SERVER_TOKEN_KEY is process-global

// c27DoSeal produces the sealed text of one request with the real code where the
// real code can write the format, otherwise from the documented wire format.
func c27DoSeal(rq c27Request, lay c27Layout) (api string, text []byte, err error) {
	pt := c27Bytes(rq.Pt)
	switch rq.Fmt {
	case "u3":
		s, e := util.Encrypt(string(pt), rq.Pass)
		return "util", []byte(s), e
	case "u2":
		salt := c27Rand(lay.Salt)
		ct, e := c27GcmSeal(pbkdf2.Key([]byte(rq.Pass), salt, 100_000, 32, sha256.New), pt, lay)
		out := append(append(c27Bytes(lay.Magic2), salt...), ct...)
		return "util", out, e
	case "u0":
		ct, e := c27GcmSeal(c27MD5Key(rq.Pass), pt, lay)
		return "util", ct, e
	case "s3":
		s, e := settings.Encrypt(string(pt), rq.Pass)
		return "settings", []byte(s), e
	case "s2":
		k := sha256.Sum256([]byte(rq.Pass))
		ct, e := c27GcmSeal(k[:], pt, lay)
		return "settings", []byte("v2:" + base64.StdEncoding.EncodeToString(ct)), e
	case "s0":
		ct, e := c27GcmSeal(c27MD5Key(rq.Pass), pt, lay)
		return "settings", []byte(base64.StdEncoding.EncodeToString(ct)), e
	case "tok":
		// plaintext "name|data"
		name, data, _ := strings.Cut(string(pt), "|")
		c27TokenMu.Lock()
		defer c27TokenMu.Unlock()
		os.Setenv("EGO_SERVER_TOKEN_KEY", rq.Pass)
		// long-lived: expiry is not C27's business, and a run on a heavily loaded machine can last hours
		s, e := tokens.New(name, data, "720h", c27UUID, 0)
		return "token", []byte(s), e
	}
	return "", nil, fmt.Errorf("unknown format %q", rq.Fmt)
}

// c27Exec calls the real entry point.
func c27Exec(c *c27Case) {
	var (
		got string
		err error
		ok  bool
	)
	switch c.API {
	case "util":
		got, err = util.Decrypt(string(c.inp), c.Pass)
		ok = err == nil
	case "settings":
		got, err = settings.Decrypt(string(c.inp), c.Pass)
		ok = err == nil
	case "unwrap":
		var t *tokens.Token
		t, err = tokens.Unwrap(string(c.inp), 0)
		ok = t != nil
		if t != nil {
			got = t.Name + "|" + t.Data
		}
	case "validate":
		ok, err = tokens.Validate(string(c.inp), 0)
	}
	c.Ok, c.Err, c.Got = ok, err != nil, c27Ints([]byte(got))
}

const c27B64 = "ABCDEFGHIJKLMNOPQRSTUVWXYZabcdefghijklmnopqrstuvwxyz0123456789+/"
const c27Hex = "0123456789abcdef"

func c27Next(alphabet string, ch byte) byte {
	i := strings.IndexByte(alphabet, ch)
	if i < 0 {
		return alphabet[0]
	}
	return alphabet[(i+1)%len(alphabet)]
}

// c27Edits enumerates every edit of one sealed text.
func c27Edits(s c27Seal, rq c27Request, lay c27Layout, rng *mrand.Rand, thorough bool) []*c27Case {
	text := c27Bytes(s.Text)
	L := len(text)
	var out []*c27Case
	apis := []string{s.API}
	if s.API == "token" {
		apis = []string{"unwrap", "validate"}
	}
	phase := rng.Intn(8)
	for _, api := range apis {
		add := func(kind string, off, n int, arg string, inp []byte, pass string) {
			cp := append([]byte{}, inp...)
			out = append(out, &c27Case{Seal: s.ID, API: api, Kind: kind, Off: off, N: n, Arg: arg, Inp: c27Ints(cp), Pass: pass, inp: cp})
		}
		add("none", 0, 0, "", text, s.Pass)
		for _, o := range rq.Others {
			add("otherkey", 0, 0, "", text, o)
		}
		// single-byte edits at EVERY offset
		for off := 1; off <= L; off++ {
			if api == "validate" && !thorough && off%8 != phase {
				continue // quick tier: Validate sees every 8th offset (Unwrap sees all); TLC knows (see Complete)
			}
			old := text[off-1]
			type rep struct {
				arg string
				b   byte
			}
			var reps []rep
			switch s.API {
			case "util":
				reps = []rep{{"xor01", old ^ 0x01}, {"xorR", old ^ byte(1+rng.Intn(255))}}
				if thorough {
					reps = append(reps, rep{"xor80", old ^ 0x80})
				}
			case "settings":
				reps = []rep{{"next", c27Next(c27B64, old)}, {"bang", '!'}}
				if thorough {
					reps = append(reps, rep{"rand", c27B64[rng.Intn(64)]}, rep{"nl", '\n'})
				}
			case "token":
				reps = []rep{{"next", c27Next(c27Hex, old)}}
				if (thorough && off%4 == phase%4) || off%8 == phase {
					reps = append(reps, rep{"case", strings.ToUpper(string(old))[0]}, rep{"bad", 'g'})
				}
			}
			for _, r := range reps {
				if r.b == old {
					continue
				}
				e := append([]byte{}, text...)
				e[off-1] = r.b
				add("flip", off, 0, r.arg, e, s.Pass)
			}
		}
		// truncation to EVERY length
		// (quick tier, token layer only: every length up to the end of the shortest
		// possible envelope and across the tag, every 8th in between; util.Decrypt
		// underneath sees every length in both tiers; TLC knows, see Complete)
		head := 2*(len(lay.Magic3)+lay.Salt+lay.Nonce+lay.Tag) + 8
		tail := 2*lay.Tag + 2
		for n := 0; n < L; n++ {
			if s.API == "token" && !thorough && n > head && n < L-tail && n%8 != phase {
				continue
			}
			add("trunc", 0, n, "", text[:n], s.Pass)
		}
		// extensions
		var tails, heads [][]byte
		switch s.API {
		case "util":
			tails = [][]byte{{0}, make([]byte, 16), c27Rand(1), []byte("\n"), []byte(" ")}
			heads = [][]byte{{0}, {0xFF}, []byte(" ")}
		case "settings":
			tails = [][]byte{[]byte("A"), []byte("AAAA"), []byte("="), []byte("\n"), []byte("\r\n"), []byte(" ")}
			heads = [][]byte{[]byte("A"), []byte("\n"), []byte(" ")}
		case "token":
			tails = [][]byte{[]byte("0"), []byte("00"), []byte("\n"), []byte(" ")}
			heads = [][]byte{[]byte("0"), []byte("00"), []byte(" ")}
		}
		for _, t := range tails {
			add("extend", 0, len(t), "tail", append(append([]byte{}, text...), t...), s.Pass)
		}
		for _, h := range heads {
			add("extend", 0, len(h), "head", append(append([]byte{}, h...), text...), s.Pass)
		}
		// another version's magic / prefix on the same body
		m3, m2 := c27Bytes(lay.Magic3), c27Bytes(lay.Magic2)
		var re [][]byte
		rawRetag := func(raw []byte, f string) [][]byte {
			switch f {
			case "u3", "tok":
				return [][]byte{append(append([]byte{}, m2...), raw[len(m3):]...), raw[len(m3):]}
			case "u2":
				return [][]byte{append(append([]byte{}, m3...), raw[len(m2):]...), raw[len(m2):]}
			default:
				return [][]byte{append(append([]byte{}, m3...), raw...), append(append([]byte{}, m2...), raw...)}
			}
		}
		switch s.Fmt {
		case "u3", "u2", "u0":
			re = rawRetag(text, s.Fmt)
		case "tok":
			raw, _ := hex.DecodeString(string(text))
			for _, r := range rawRetag(raw, "tok") {
				re = append(re, []byte(hex.EncodeToString(r)))
			}
		case "s3":
			re = [][]byte{append([]byte("v2:"), text[3:]...), text[3:], append([]byte("V3:"), text[3:]...)}
		case "s2":
			re = [][]byte{append([]byte("v3:"), text[3:]...), text[3:]}
		case "s0":
			re = [][]byte{append([]byte("v3:"), text...), append([]byte("v2:"), text...)}
		}
		for i, r := range re {
			add("retag", 0, i, "", r, s.Pass)
		}
		// seeded garbage of every short length (unrelated to anything sealed)
		maxg := 40
		if thorough {
			maxg = 72
		}
		for n := 0; n <= maxg; n++ {
			g := make([]byte, n)
			rng.Read(g)
			switch s.Fmt {
			case "u3", "u2":
				// keep the version's magic so that the version's own parser is reached
				m := m3
				if s.Fmt == "u2" {
					m = m2
				}
				copy(g, m)
				add("garbage", 0, n, "", g, s.Pass)
			case "u0":
				if n > 0 && g[0] == 0xFF {
					g[0] = 0x7F
				}
				add("garbage", 0, n, "", g, s.Pass)
			case "s3", "s2", "s0":
				pre := map[string]string{"s3": "v3:", "s2": "v2:", "s0": ""}[s.Fmt]
				add("garbage", 0, n, "", []byte(pre+base64.StdEncoding.EncodeToString(g)), s.Pass)
			case "tok":
				if n <= 40 {
					copy(g, m3)
					add("garbage", 0, n, "", []byte(hex.EncodeToString(g)), s.Pass)
				}
			}
		}
	}
	return out
}

func TestVerifC27Envelope(t *testing.T) {
	in, outDir := os.Getenv("VERIF_IN"), os.Getenv("VERIF_OUT")
	if in == "" || outDir == "" {
		t.Skip("VERIF_IN / VERIF_OUT not set")
	}
	raw, err := os.ReadFile(in)
	if err != nil {
		t.Fatal(err)
	}
	var plan c27Plan
	if err := json.Unmarshal(raw, &plan); err != nil {
		t.Fatal(err)
	}
	thorough := os.Getenv("VERIF_TIER") == "thorough"
	workers := vkEnvInt("VERIF_WORKERS", 6)
	rng := mrand.New(mrand.NewSource(int64(vkEnvInt("VERIF_SEED", 1))))
	os.Setenv("EGO_SERVER_TOKEN_KEY", "unset-key")
	os.MkdirAll(outDir+"/home", 0o700)
	os.Setenv("HOME", outDir+"/home") // nothing here may touch the user's profile

	// 1. seal
	var seals []c27Seal
	var cases []*c27Case
	for i, rq := range plan.Requests {
		api, text, err := c27DoSeal(rq, plan.Layout)
		if err != nil {
			t.Fatalf("sealing request %d (%s): %v", i, rq.Fmt, err)
		}
		s := c27Seal{ID: i + 1, API: api, Fmt: rq.Fmt, Pass: rq.Pass, Pt: append([]int{}, rq.Pt...), Text: c27Ints(text)}
		seals = append(seals, s)
		cases = append(cases, c27Edits(s, rq, plan.Layout, rng, thorough)...)
	}
	// 2. execute: util/settings calls are independent; token calls depend on the
	//    process-global key, so they run grouped by key.
	run := func(batch []*c27Case) {
		var wg sync.WaitGroup
		ch := make(chan *c27Case, 256)
		for w := 0; w < workers; w++ {
			wg.Add(1)
			go func() {
				defer wg.Done()
				for c := range ch {
					c27Exec(c)
				}
			}()
		}
		for _, c := range batch {
			ch <- c
		}
		close(ch)
		wg.Wait()
	}
	var free []*c27Case
	byKey := map[string][]*c27Case{}
	var keys []string
	for _, c := range cases {
		if c.API == "unwrap" || c.API == "validate" {
			if _, ok := byKey[c.Pass]; !ok {
				keys = append(keys, c.Pass)
			}
			byKey[c.Pass] = append(byKey[c.Pass], c)
		} else {
			free = append(free, c)
		}
	}
	run(free)
	for _, k := range keys {
		os.Setenv("EGO_SERVER_TOKEN_KEY", k)
		run(byKey[k])
	}
	// 3. log
	sw, err := vkNewTrace(outDir + "/seals.ndjson")
	if err != nil {
		t.Fatal(err)
	}
	for _, s := range seals {
		sw.Emit(s)
	}
	sw.Close()
	cw, err := vkNewTrace(outDir + "/io.ndjson")
	if err != nil {
		t.Fatal(err)
	}
	for _, c := range cases {
		cw.Emit(c)
	}
	cw.Close()
	t.Logf("c27: %d seals, %d calls", len(seals), len(cases))
}

// TestVerifC27Replay re-executes the calls of a replay file (seals + calls as
// logged earlier) against the tree under test and logs the fresh replies.
func TestVerifC27Replay(t *testing.T) {
	in, outDir := os.Getenv("VERIF_IN"), os.Getenv("VERIF_OUT")
	if in == "" || outDir == "" {
		t.Skip("VERIF_IN / VERIF_OUT not set")
	}
	os.MkdirAll(outDir+"/home", 0o700)
	os.Setenv("HOME", outDir+"/home")
	cw, err := vkNewTrace(outDir + "/io.ndjson")
	if err != nil {
		t.Fatal(err)
	}
	defer cw.Close()
	err = vkLoadLines(in, func(b []byte) error {
		var c c27Case
		if err := json.Unmarshal(b, &c); err != nil {
			return err
		}
		c.inp = c27Bytes(c.Inp)
		os.Setenv("EGO_SERVER_TOKEN_KEY", c.Pass)
		c27Exec(&c)
		cw.Emit(&c)
		return nil
	})
	if err != nil {
		t.Fatal(err)
	}
}

//go:build verif

package caches

// C21 harness support (overlaid at build time, never part of tucats/ego):
// read-only views of a cache that do not refresh expiry times, and a way to let
// one entry's lifetime run out and have the real sweeper remove it.

import "time"

// VerifC21Park makes background sweepers of caches created from now on sleep
// practically forever and gives entries a practically unlimited lifetime: an
// entry expires only when the harness says so (VerifC21Expire), never because a
// slow machine let the real 60 s default run out in the middle of a behaviour.
func VerifC21Park() {
	scanTime = "100000h"
	expireTime = "100000h"
}

func VerifC21Peek(id int, key any) (any, bool) {
	cacheLock.Lock()
	defer cacheLock.Unlock()

	if c, ok := cacheList[id]; ok {
		if it, ok := c.Items[key]; ok {
			return it.Data, true
		}
	}

	return nil, false
}

func VerifC21Keys(id int) []any {
	cacheLock.Lock()
	defer cacheLock.Unlock()

	keys := []any{}

	if c, ok := cacheList[id]; ok {
		for k := range c.Items {
			keys = append(keys, k)
		}
	}

	return keys
}

// VerifC21Expire: the lifetime of one entry runs out and the sweeper passes.
// Returns whether the entry existed.
func VerifC21Expire(id int, key any) bool {
	cacheLock.Lock()

	found := false

	if c, ok := cacheList[id]; ok {
		if it, ok := c.Items[key]; ok {
			it.Expires = time.Now().Add(-time.Hour)
			c.Items[key] = it
			found = true
		}
	}

	cacheLock.Unlock()
	sweepExpired(id)

	return found
}

//go:build verif

package tokens

// C21 harness support (overlaid at build time, never part of tucats/ego).

// VerifC21ListedIDs reads the revocation table WITHOUT taking the package mutex,
// so the harness can project the table while it holds an administrative
// operation at a gate inside the mutex.
func VerifC21ListedIDs() ([]string, error) {
	ids := []string{}

	if handle == nil {
		return ids, nil
	}

	items, err := handle.Read(nil)
	if err != nil {
		return nil, err
	}

	for _, i := range items {
		if item, ok := i.(*BlackListItem); ok && item.Active {
			ids = append(ids, item.ID)
		}
	}

	return ids, nil
}

package c21

// Binding F for spec/TokenAuth_Mut: every single-byte mutation of a real token
// string (class of replacement chosen per position) is presented to the router,
// cipher.Validate and cipher.Extract while the genuine token sits in the
// TokenCache.  The outcomes are only logged; the TLA+ contract judges them.

import (
	"fmt"
	"math/rand"
	"net/http"
	"sync"
	"testing"

	"github.com/tucats/ego/internal/caches"
	"github.com/tucats/ego/internal/language/data"
	"github.com/tucats/ego/internal/language/symbols"
	"github.com/tucats/ego/internal/router"
	"github.com/tucats/ego/internal/runtime/cipher"
)

type vkMutRec struct {
	I        int    `json:"i"`   // 1-based position in the token string
	N        int    `json:"n"`   // length of the token string
	Orig     string `json:"orig"`
	Repl     string `json:"repl"`
	Class    string `json:"class"` // how the harness chose repl (informative; the contract classifies itself)
	Router   bool   `json:"router"`
	Validate bool   `json:"validate"`
	Extract  bool   `json:"extract"`
	Cached   bool   `json:"cached"` // the mutated string became a TokenCache key
}

func vkAuth(id int, s string) (bool, string) {
	req, _ := http.NewRequest(http.MethodGet, "/c21", nil)
	req.Header.Set("Authorization", "Bearer "+s)

	session := &router.Session{ID: id}
	session.Authenticate(req)

	return session.Authenticated, session.User
}

func TestVerifC21Mutations(t *testing.T) {
	out := vkEnv("VERIF_OUT", "")
	if out == "" {
		t.Skip("VERIF_OUT not set")
	}

	if err := vkSetup(t.TempDir()); err != nil {
		t.Fatal(err)
	}

	rng := rand.New(rand.NewSource(int64(vkEnvInt("VERIF_SEED", 1))))
	all := vkEnv("VERIF_CLASSES", "one") == "all"
	par := vkEnvInt("VERIF_PAR", 6)
	stride := vkEnvInt("VERIF_STRIDE", 1)

	w, err := vkNewWorld(map[string]string{"t1": "long"}, 0)
	if err != nil {
		t.Fatal(err)
	}

	tok := w.toks["t1"]

	// the genuine token is accepted and cached: mutations are judged "whatever the cache contents"
	if ok, user := vkAuth(1, tok.str); !ok || user != tok.user {
		t.Fatalf("genuine token not accepted (%v %q)", ok, user)
	}


	const hexd = "0123456789abcdef"
	const other = "gzGZ -%_:xX"

	type job struct {
		i           int
		repl, class string
	}

	jobs := []job{}
	off := rng.Intn(stride)

	for i := 0; i < len(tok.str); i++ {
		c := tok.str[i]
		cands := []job{}
		// another hexadecimal digit (another value)
		for {
			r := hexd[rng.Intn(16)]
			if r != c {
				cands = append(cands, job{i, string(r), "hex"})

				break
			}
		}
		// not a hexadecimal digit
		cands = append(cands, job{i, string(other[rng.Intn(len(other))]), "nonhex"})
		// the same digit in the other case
		if c >= 'a' && c <= 'f' {
			cands = append(cands, job{i, string(c - 32), "case"})
		}

		if all {
			jobs = append(jobs, cands...)
		} else if i%stride == off {
			jobs = append(jobs, cands[rng.Intn(len(cands))])
		}
	}

	recs := make([]vkMutRec, len(jobs))

	var wg sync.WaitGroup

	ch := make(chan int)

	for k := 0; k < par; k++ {
		wg.Add(1)

		go func() {
			defer wg.Done()

			for j := range ch {
				jb := jobs[j]
				s := tok.str[:jb.i] + jb.repl + tok.str[jb.i+1:]
				r := vkMutRec{I: jb.i + 1, N: len(tok.str), Orig: string(tok.str[jb.i]), Repl: jb.repl, Class: jb.class}
				r.Router, _ = vkAuth(100+j, s)
				_, r.Cached = caches.VerifC21Peek(caches.TokenCache, s)
				st := symbols.NewSymbolTable("c21")
				v, _ := cipher.Validate(st, data.NewList(s))
				r.Validate, _ = v.(bool)
				_, e := cipher.Extract(st, data.NewList(s))
				r.Extract = e == nil
				recs[j] = r
			}
		}()
	}

	for j := range jobs {
		ch <- j
	}

	close(ch)
	wg.Wait()

	tw, err := vkNewTrace(out)
	if err != nil {
		t.Fatal(err)
	}

	for _, r := range recs {
		tw.Emit(r)
	}

	tw.Close()
	fmt.Println("mutations:", len(recs))
}

package main

// C35 harness, stage 1 (overlaid into tools/langlint as an in-package test;
// never committed to tucats/ego).  For every file TLC enumerated it builds the
// text, lets the REAL lintFile format it in place (twice), and logs what the
// path held afterwards, projected back to character tokens.  It computes no
// expected value: the contract is evaluated by TLC (spec/LangFile).

import (
	"bufio"
	"encoding/json"
	"os"
	"path/filepath"
	"regexp"
	"strconv"
	"strings"
	"sync"
	"testing"
)

type vlfIn struct {
	Alphabet [][]string `json:"alphabet"`
	Lines    []int      `json:"lines"` // a file as indices into the alphabet ...
	Toks     [][]string `json:"toks"`  // ... or (long-section family) as token lines
}

type vlfRec struct {
	ID        int        `json:"id"`
	Lines     []int      `json:"lines"`
	Long      bool       `json:"long"`
	Toks      [][]string `json:"toks"`
	LintOk    bool       `json:"lintOk"`
	Err       string     `json:"err,omitempty"`
	After     [][]string `json:"after"`
	Lint2Ok   bool       `json:"lint2Ok"`
	After2    [][]string `json:"after2"`
	Dups      [][]int    `json:"dups"`
	NWarn     int        `json:"nwarn"`
	TextIn    string     `json:"textIn"`
	TextAfter string     `json:"textAfter"`
}

// one token = one character; blanks and tabs are the white-space token
func vlfTokens(text string) [][]string {
	out := [][]string{}

	for _, line := range strings.Split(text, "\n") {
		toks := []string{}

		for _, r := range line {
			switch r {
			case ' ', '\t':
				toks = append(toks, "S")
			case '\r':
				toks = append(toks, "R")
			default:
				toks = append(toks, string(r))
			}
		}

		out = append(out, toks)
	}

	return out
}

func vlfText(lines [][]string, ws string) string {
	var b strings.Builder

	for n, toks := range lines {
		if n > 0 {
			b.WriteString("\n")
		}

		for _, t := range toks {
			switch t {
			case "S":
				b.WriteString(ws)
			case "R":
				b.WriteString("\r")
			default:
				b.WriteString(t)
			}
		}
	}

	return b.String()
}

var vlfDupRe = regexp.MustCompile(`^duplicate key ".*" defined on lines \[([0-9 ]+)\]$`)

func TestVerifLangFileLint(t *testing.T) {
	in, out, dir := os.Getenv("VERIF_IN"), os.Getenv("VERIF_OUT"), os.Getenv("VERIF_DIR")
	if in == "" || out == "" || dir == "" {
		t.Skip("VERIF_IN/VERIF_OUT/VERIF_DIR not set")
	}

	ws := " "
	if os.Getenv("VERIF_WS") == "tab" {
		ws = "\t"
	}

	f, err := os.Open(in)
	if err != nil {
		t.Fatal(err)
	}
	defer f.Close()

	var (
		alphabet [][]string
		files    []vlfIn
	)

	sc := bufio.NewScanner(f)
	sc.Buffer(make([]byte, 1<<20), 1<<28)

	for sc.Scan() {
		if len(strings.TrimSpace(sc.Text())) == 0 {
			continue
		}

		var rec vlfIn
		if err := json.Unmarshal(sc.Bytes(), &rec); err != nil {
			t.Fatal(err)
		}

		if rec.Alphabet != nil {
			alphabet = rec.Alphabet
		} else {
			files = append(files, rec)
		}
	}

	if alphabet == nil {
		t.Fatal("no alphabet record")
	}

	recs := make([]vlfRec, len(files))
	workers := 8

	if n, err := strconv.Atoi(os.Getenv("VERIF_WORKERS")); err == nil && n > 0 {
		workers = n
	}

	var wg sync.WaitGroup

	for w := 0; w < workers; w++ {
		wg.Add(1)

		go func(w int) {
			defer wg.Done()

			wdir := filepath.Join(dir, "w"+strconv.Itoa(w))
			if err := os.MkdirAll(wdir, 0o755); err != nil {
				t.Error(err)

				return
			}

			path := filepath.Join(wdir, "messages_xx.txt")

			for id := w; id < len(files); id += workers {
				rec := vlfRec{ID: id + 1, Lines: files[id].Lines, Toks: files[id].Toks, Dups: [][]int{}}
				lines := files[id].Toks

				if lines == nil {
					rec.Toks = [][]string{}
					lines = make([][]string, len(rec.Lines))

					for n, idx := range rec.Lines {
						lines[n] = alphabet[idx-1]
					}
				} else {
					rec.Long = true
					rec.Lines = []int{}
				}

				text := vlfText(lines, ws)
				rec.TextIn = text

				if err := os.WriteFile(path, []byte(text), 0o644); err != nil {
					t.Error(err)

					return
				}

				res, err := lintFile(path, false)
				rec.LintOk = err == nil

				if err != nil {
					rec.Err = err.Error()
				}

				after, rerr := os.ReadFile(path)
				if rerr != nil {
					// the path vanished: logged as an empty projection that no contract clause accepts
					rec.After = [][]string{{"<unreadable>"}}
				} else {
					rec.After = vlfTokens(string(after))
					rec.TextAfter = string(after)
				}

				rec.NWarn = len(res.warnings)

				for _, wtext := range res.warnings {
					if m := vlfDupRe.FindStringSubmatch(wtext); m != nil {
						lines := []int{}

						for _, s := range strings.Fields(m[1]) {
							n, _ := strconv.Atoi(s)
							lines = append(lines, n)
						}

						rec.Dups = append(rec.Dups, lines)
					}
				}

				rec.After2 = [][]string{}

				if rec.LintOk {
					_, err2 := lintFile(path, false)
					rec.Lint2Ok = err2 == nil

					if after2, rerr := os.ReadFile(path); rerr == nil {
						rec.After2 = vlfTokens(string(after2))
					} else {
						rec.After2 = [][]string{{"<unreadable>"}}
					}
				}

				recs[id] = rec
			}
		}(w)
	}

	wg.Wait()

	o, err := os.Create(out)
	if err != nil {
		t.Fatal(err)
	}

	bw := bufio.NewWriterSize(o, 1<<20)
	enc := json.NewEncoder(bw)
	enc.SetEscapeHTML(false)

	for i := range recs {
		if err := enc.Encode(&recs[i]); err != nil {
			t.Fatal(err)
		}
	}

	bw.Flush()
	o.Close()
}

package main

// C35 harness, stage 2 (overlaid into tools/lang as an in-package test; never
// committed to tucats/ego).  For every record of stage 1 it lets the REAL
// compileFile build the message table from the original text and from the
// text langlint left behind, and logs both tables projected to character
// tokens.  It computes no expected value and compares nothing.

import (
	"bufio"
	"encoding/json"
	"os"
	"path/filepath"
	"sort"
	"strings"
	"testing"
)

type vlcEntry struct {
	K []string `json:"k"`
	V []string `json:"v"`
}

type vlcTable struct {
	Ok  bool       `json:"ok"`
	Tab []vlcEntry `json:"tab"`
}

func vlcTokens(s string) []string {
	toks := []string{}

	for _, r := range s {
		switch r {
		case ' ', '\t':
			toks = append(toks, "S")
		case '\r':
			toks = append(toks, "R")
		default:
			toks = append(toks, string(r))
		}
	}

	return toks
}

func vlcCompile(path, text string) (res vlcTable) {
	res = vlcTable{Tab: []vlcEntry{}}

	if err := os.WriteFile(path, []byte(text), 0o644); err != nil {
		panic(err)
	}

	messages := map[string]map[string]string{}

	defer func() {
		if r := recover(); r != nil {
			res = vlcTable{Ok: false, Tab: []vlcEntry{}}
		}
	}()

	compileFile(path, "xx", messages)

	keys := make([]string, 0, len(messages))
	for k := range messages {
		keys = append(keys, k)
	}

	sort.Strings(keys)

	for _, k := range keys {
		if v, ok := messages[k]["xx"]; ok {
			res.Tab = append(res.Tab, vlcEntry{K: vlcTokens(k), V: vlcTokens(v)})
		}
	}

	res.Ok = true

	return res
}

func TestVerifLangFileCompile(t *testing.T) {
	in, out, dir := os.Getenv("VERIF_IN"), os.Getenv("VERIF_OUT"), os.Getenv("VERIF_DIR")
	if in == "" || out == "" || dir == "" {
		t.Skip("VERIF_IN/VERIF_OUT/VERIF_DIR not set")
	}

	initDigest()

	// compileFile reports duplicates and unmatched braces on stdout
	devnull, err := os.OpenFile(os.DevNull, os.O_WRONLY, 0)
	if err != nil {
		t.Fatal(err)
	}

	saved := os.Stdout
	os.Stdout = devnull

	defer func() { os.Stdout = saved }()

	f, err := os.Open(in)
	if err != nil {
		t.Fatal(err)
	}
	defer f.Close()

	o, err := os.Create(out)
	if err != nil {
		t.Fatal(err)
	}

	bw := bufio.NewWriterSize(o, 1<<20)
	enc := json.NewEncoder(bw)
	enc.SetEscapeHTML(false)

	if err := os.MkdirAll(dir, 0o755); err != nil {
		t.Fatal(err)
	}

	path := filepath.Join(dir, "messages_xx.txt")
	sc := bufio.NewScanner(f)
	sc.Buffer(make([]byte, 1<<20), 1<<28)

	for sc.Scan() {
		if len(strings.TrimSpace(sc.Text())) == 0 {
			continue
		}

		var rec map[string]any
		if err := json.Unmarshal(sc.Bytes(), &rec); err != nil {
			t.Fatal(err)
		}

		textIn, _ := rec["textIn"].(string)
		textAfter, _ := rec["textAfter"].(string)
		lintOk, _ := rec["lintOk"].(bool)

		rec["tin"] = vlcCompile(path, textIn)

		if lintOk {
			rec["tout"] = vlcCompile(path, textAfter)
		} else {
			rec["tout"] = vlcTable{Ok: false, Tab: []vlcEntry{}}
		}

		delete(rec, "textIn")
		delete(rec, "textAfter")
		delete(rec, "err")

		if err := enc.Encode(rec); err != nil {
			t.Fatal(err)
		}
	}

	bw.Flush()
	o.Close()
}

package c22

// Binding R for spec/JwtAuth (property C22).
//
// A real OAuth resource server is assembled in this process: an httptest identity
// provider publishes a discovery document and a JWKS (k1 RSA first, k2 EC), the real
// oauth.Initialize() fetches both, the revocation table is a real SQLite blacklist,
// the authorization-server package is registered with k2 as its signing key so that
// revocation goes through the real POST /oauth2/revoke handler.  The harness mints a
// JWT for every attribute vector TLC chose, replays TLC's behaviours
// (Present / Revoke / Evict / BExpire / Tick) and, after every Present, compares the
// real outcome with the set of outcomes TLC computed as allowed by the statement
// (step.allowed).  Nothing here decides what is right: membership in a TLC-computed
// set and equality with TLC-computed projections are the only judgements.
//
// Time: the only clock-dependent thing in the model is "tokens with exp = soon expire
// at the Tick".  Behaviours are run in lock-step rounds: a round fixes one real
// deadline D (a few seconds ahead), every "soon" token of the round carries exp = D,
// the steps before the Tick must be over a safe margin before D (otherwise the
// behaviour is re-run in a later round), the steps after the Tick run after D.

import (
	"crypto"
	"crypto/ecdsa"
	"crypto/elliptic"
	"crypto/hmac"
	"crypto/rand"
	"crypto/rsa"
	"crypto/sha256"
	"crypto/x509"
	"encoding/base64"
	"encoding/json"
	"encoding/pem"
	"fmt"
	"math/big"
	"net/http"
	"net/http/httptest"
	"net/url"
	"os"
	"path/filepath"
	"sort"
	"strconv"
	"strings"
	"testing"
	"time"

	"github.com/tucats/ego/internal/caches"
	"github.com/tucats/ego/internal/cli/settings"
	"github.com/tucats/ego/internal/defs"
	"github.com/tucats/ego/internal/language/tokens"
	"github.com/tucats/ego/internal/router"
	"github.com/tucats/ego/internal/server/oauth"
	"github.com/tucats/ego/internal/server/oauth/authserver"
)

type vAttrs struct {
	Alg   string `json:"alg"`
	Key   string `json:"key"`
	Sigok bool   `json:"sigok"`
	Kid   string `json:"kid"`
	Iss   string `json:"iss"`
	Aud   string `json:"aud"`
	Exp   string `json:"exp"`
	Jti   string `json:"jti"`
}

type vCall struct {
	Act   string `json:"act"`
	S     string `json:"s"`
	J     string `json:"j"`
	Reply string `json:"reply"`
	Path  string `json:"path"`
}

type vSt struct {
	Cached  []string          `json:"cached"`
	Bc      map[string]string `json:"bc"`
	Revoked []string          `json:"revoked"`
	Clock   int               `json:"clock"`
}

type vStep struct {
	Call         vCall    `json:"call"`
	Allowed      []string `json:"allowed"`
	Why          []string `json:"why"`
	CachedBefore bool     `json:"cachedBefore"`
	SeenBefore   bool     `json:"seenBefore"`
	St           vSt      `json:"st"`
}

type vBeh struct {
	Init struct {
		Tok    map[string]vAttrs `json:"tok"`
		Audcfg bool              `json:"audcfg"`
	} `json:"init"`
	Steps []vStep `json:"steps"`
}

type vViol struct {
	Behaviour int      `json:"behaviour"` // position in the input file
	Step      int      `json:"step"`
	Key       string   `json:"key"`
	What      string   `json:"what"`
	Attrs     vAttrs   `json:"attrs"`
	Audcfg    bool     `json:"audcfg"`
	Allowed   []string `json:"allowed"`
	Model     string   `json:"model_reply"`
	Got       string   `json:"got"`
	Via       string   `json:"via"`
	Calls     []vCall  `json:"calls"`
	Token     string   `json:"token"`
}

type vOut struct {
	Audcfg          bool           `json:"audcfg"`
	Behaviours      int            `json:"behaviours"`
	Steps           int            `json:"steps"`
	Presents        int            `json:"presents"`
	RealAccepts     int            `json:"real_accepts"`
	ModelAccepts    int            `json:"model_accepts"`
	BothAccept      int            `json:"both_accept"`
	CanonicalAccept int            `json:"canonical_accepts"`
	Distinct        int            `json:"distinct"`
	Violations      []vViol        `json:"violations"`
	NViolations     int            `json:"n_violations"`
	Drift           map[string]int `json:"drift"`
	Benign          map[string]int `json:"benign"`
	DriftSamples    []string       `json:"drift_samples"`
	ActCounts       map[string]int `json:"act_counts"`
	ViaCounts       map[string]int `json:"via_counts"`
	Rounds          int            `json:"rounds"`
	Retries         int            `json:"retries"`
	Waited          float64        `json:"waited_s"`
	Elapsed         float64        `json:"elapsed_s"`
	RevokeHTTP      int            `json:"revoke_handler_calls"`
	Samples         []any          `json:"samples"`
	Fatal           string         `json:"fatal,omitempty"`
}

const (
	vAudience = "ego-api"
	vClient   = "verif-c22"
	vUser     = "verif-user"
)

type vWorld struct {
	k1, x1 *rsa.PrivateKey
	k2, x2 *ecdsa.PrivateKey
	issuer string
	seq    int
	run    string // unique per process: token ids of one run can never meet those of another
}

func b64(b []byte) string { return base64.RawURLEncoding.EncodeToString(b) }

func (w *vWorld) jwks() []byte {
	n := w.k1.PublicKey.N.Bytes()
	e := big.NewInt(int64(w.k1.PublicKey.E)).Bytes()
	x := make([]byte, 32)
	y := make([]byte, 32)
	w.k2.PublicKey.X.FillBytes(x)
	w.k2.PublicKey.Y.FillBytes(y)
	doc := map[string]any{"keys": []any{
		map[string]any{"kty": "RSA", "use": "sig", "alg": "RS256", "kid": "k1", "n": b64(n), "e": b64(e)},
		map[string]any{"kty": "EC", "use": "sig", "alg": "ES256", "kid": "k2", "crv": "P-256", "x": b64(x), "y": b64(y)},
	}}
	b, _ := json.Marshal(doc)
	return b
}

func pubPEM(pub any) []byte {
	der, _ := x509.MarshalPKIXPublicKey(pub)
	return pem.EncodeToMemory(&pem.Block{Type: "PUBLIC KEY", Bytes: der})
}

func (w *vWorld) sign(alg, key, input string) (string, error) {
	h := sha256.Sum256([]byte(input))
	var rk *rsa.PrivateKey
	var ek *ecdsa.PrivateKey
	var pub any
	switch key {
	case "k1":
		rk, pub = w.k1, &w.k1.PublicKey
	case "x1":
		rk, pub = w.x1, &w.x1.PublicKey
	case "k2":
		ek, pub = w.k2, &w.k2.PublicKey
	case "x2":
		ek, pub = w.x2, &w.x2.PublicKey
	}
	switch alg {
	case "RS256":
		if rk == nil {
			return "", fmt.Errorf("RS256 needs an RSA key, got %s", key)
		}
		s, err := rsa.SignPKCS1v15(rand.Reader, rk, crypto.SHA256, h[:])
		return b64(s), err
	case "PS256":
		if rk == nil {
			return "", fmt.Errorf("PS256 needs an RSA key, got %s", key)
		}
		s, err := rsa.SignPSS(rand.Reader, rk, crypto.SHA256, h[:], &rsa.PSSOptions{SaltLength: rsa.PSSSaltLengthEqualsHash})
		return b64(s), err
	case "ES256":
		if ek == nil {
			return "", fmt.Errorf("ES256 needs an EC key, got %s", key)
		}
		r, s, err := ecdsa.Sign(rand.Reader, ek, h[:])
		if err != nil {
			return "", err
		}
		out := make([]byte, 64)
		r.FillBytes(out[:32])
		s.FillBytes(out[32:])
		return b64(out), nil
	case "HS256": // algorithm confusion: HMAC keyed with the public key's PEM text
		m := hmac.New(sha256.New, pubPEM(pub))
		m.Write([]byte(input))
		return b64(m.Sum(nil)), nil
	case "none":
		return "", nil
	}
	return "", fmt.Errorf("unknown alg %s", alg)
}

// mint builds the compact JWT for an attribute vector.  jti is the concrete token id
// ("" = none), soon the deadline of this round's short-lived tokens.
func (w *vWorld) mint(a vAttrs, nonce, jti string, soon time.Time) (string, error) {
	hdr := map[string]any{"alg": a.Alg, "typ": "JWT"}
	switch a.Kid {
	case "k1", "k2":
		hdr["kid"] = a.Kid
	case "unknown":
		hdr["kid"] = "no-such-key"
	}
	cl := map[string]any{"sub": vUser, "scope": "ego.logon", "nonce": nonce}
	// near misses are string relations to the configured value (see Isss / Auds in JwtAuth.tla)
	near := func(c, class string) (string, bool) {
		switch class {
		case "match":
			return c, true
		case "prefix":
			return c[:len(c)-1], true
		case "extpath":
			return c + "/partner", true
		case "exthost":
			return c + ".attacker.example/", true
		case "slash":
			return c + "/", true
		case "case":
			i := strings.LastIndex(c, "/") + 1 // letters after the last slash change case (host and port stay as they are)
			if up := c[:i] + strings.ToUpper(c[i:]); up != c {
				return up, true
			}
			return c[:i] + strings.ToLower(c[i:]), true
		case "other":
			return "https://other-idp.example/tenant", true
		}
		return "", false
	}
	if v, ok := near(w.issuer, a.Iss); ok {
		cl["iss"] = v
	}
	if a.Aud == "multi" {
		cl["aud"] = []string{"someone-else", vAudience}
	} else if v, ok := near(vAudience, a.Aud); ok {
		if a.Aud == "other" {
			v = "someone-else"
		}
		cl["aud"] = v
	}
	now := time.Now()
	switch a.Exp {
	case "past":
		cl["exp"] = now.Add(-time.Hour).Unix()
	case "soon":
		cl["exp"] = soon.Unix()
	case "far":
		cl["exp"] = now.Add(24 * time.Hour).Unix()
	}
	if jti != "" {
		cl["jti"] = jti
	}
	hb, _ := json.Marshal(hdr)
	cb, _ := json.Marshal(cl)
	input := b64(hb) + "." + b64(cb)
	sig, err := w.sign(a.Alg, a.Key, input)
	if err != nil {
		return "", err
	}
	if !a.Sigok { // tampered after signing: the payload now names another subject
		cl["sub"] = "admin"
		cb, _ = json.Marshal(cl)
		input = b64(hb) + "." + b64(cb)
	}
	return input + "." + sig, nil
}

func newWorld(dir string, audcfg bool) (*vWorld, error) {
	w := &vWorld{}
	var err error
	rb := make([]byte, 6)
	rand.Read(rb)
	w.run = fmt.Sprintf("p%d%x", os.Getpid(), rb)
	os.Remove(filepath.Join(dir, "blacklist.db"))
	if w.k1, err = rsa.GenerateKey(rand.Reader, 2048); err != nil {
		return nil, err
	}
	if w.x1, err = rsa.GenerateKey(rand.Reader, 2048); err != nil {
		return nil, err
	}
	if w.k2, err = ecdsa.GenerateKey(elliptic.P256(), rand.Reader); err != nil {
		return nil, err
	}
	if w.x2, err = ecdsa.GenerateKey(elliptic.P256(), rand.Reader); err != nil {
		return nil, err
	}
	mux := http.NewServeMux()
	srv := httptest.NewServer(mux)
	w.issuer = srv.URL + "/oauth2/default" // an issuer with a path, as real IdP tenants have
	mux.HandleFunc("/oauth2/default/.well-known/openid-configuration", func(rw http.ResponseWriter, _ *http.Request) {
		rw.Header().Set("Content-Type", "application/json")
		json.NewEncoder(rw).Encode(map[string]any{"issuer": w.issuer, "jwks_uri": w.issuer + "/jwks",
			"token_endpoint": w.issuer + "/token", "authorization_endpoint": w.issuer + "/authorize"})
	})
	mux.HandleFunc("/oauth2/default/jwks", func(rw http.ResponseWriter, _ *http.Request) {
		rw.Header().Set("Content-Type", "application/json")
		rw.Write(w.jwks())
	})
	// files of the authorization-server role: k2 is its signing key, one public client
	od := filepath.Join(dir, "lib", "oauth")
	if err = os.MkdirAll(od, 0o700); err != nil {
		return nil, err
	}
	der, err := x509.MarshalECPrivateKey(w.k2)
	if err != nil {
		return nil, err
	}
	keyFile := filepath.Join(od, "signing.pem")
	if err = os.WriteFile(keyFile, pem.EncodeToMemory(&pem.Block{Type: "EC PRIVATE KEY", Bytes: der}), 0o600); err != nil {
		return nil, err
	}
	clientFile := filepath.Join(od, "clients.json")
	cj, _ := json.Marshal([]map[string]any{{"client_id": vClient, "redirect_uris": []string{}, "grant_types": []string{"client_credentials"}, "scopes": []string{"ego.logon"}}})
	if err = os.WriteFile(clientFile, cj, 0o600); err != nil {
		return nil, err
	}
	settings.Set(defs.EgoPathSetting, dir)
	settings.Set(defs.OAuthProviderSetting, w.issuer)
	if audcfg {
		settings.Set(defs.OAuthAudienceSetting, vAudience)
	} else {
		settings.Set(defs.OAuthAudienceSetting, "")
	}
	settings.Set(defs.OAuthASIssuerSetting, w.issuer)
	settings.Set(defs.OAuthASKeyFileSetting, keyFile)
	settings.Set(defs.OAuthASClientFileSetting, clientFile)
	caches.MaxCacheSize = 1 << 22
	if err = tokens.SetDatabasePath("sqlite3://" + filepath.Join(dir, "blacklist.db") + "?_pragma=synchronous(OFF)"); err != nil {
		return nil, fmt.Errorf("blacklist database: %v", err)
	}
	if err = oauth.Initialize(); err != nil {
		return nil, fmt.Errorf("oauth.Initialize: %v", err)
	}
	if !oauth.IsEnabled() {
		return nil, fmt.Errorf("resource-server role not enabled")
	}
	if err = authserver.RegisterRoutes(router.NewRouter("verif-c22")); err != nil {
		return nil, fmt.Errorf("authserver.RegisterRoutes: %v", err)
	}
	return w, nil
}

// present makes one request carrying the token; via selects the entry point.
func (w *vWorld) present(tok, via string) (string, string) {
	w.seq++
	if via == "direct" {
		user, _, err := oauth.ValidateJWT(w.seq, tok)
		if err == nil {
			return "accept", user
		}
		return "reject", ""
	}
	req := httptest.NewRequest(http.MethodGet, "/services/verif", nil)
	req.Header.Set("Authorization", "Bearer "+tok)
	s := (&router.Session{ID: w.seq}).Authenticate(req)
	if s.Authenticated {
		return "accept", s.User
	}
	return "reject", ""
}

// revoke posts a (valid, k2-signed) token carrying jti to the real revocation endpoint.
func (w *vWorld) revoke(jti string) error {
	cl := map[string]any{"sub": vUser, "jti": jti, "iss": w.issuer, "exp": time.Now().Add(time.Hour).Unix(), "client_id": vClient}
	hb, _ := json.Marshal(map[string]any{"alg": "ES256", "typ": "JWT"})
	cb, _ := json.Marshal(cl)
	input := b64(hb) + "." + b64(cb)
	sig, err := w.sign("ES256", "k2", input)
	if err != nil {
		return err
	}
	form := url.Values{"client_id": {vClient}, "token": {input + "." + sig}}
	req := httptest.NewRequest(http.MethodPost, defs.OAuthRevokePath, strings.NewReader(form.Encode()))
	req.Header.Set("Content-Type", "application/x-www-form-urlencoded")
	rec := httptest.NewRecorder()
	w.seq++
	if st := authserver.RevokeHandler(&router.Session{ID: w.seq}, rec, req); st != http.StatusOK {
		return fmt.Errorf("revoke endpoint answered %d: %s", st, rec.Body.String())
	}
	return nil
}

type vInst struct {
	b     *vBeh
	idx   int
	toks  map[string]string
	jtis  map[string]string
	soon  bool // some slot carries a short-lived token
	split int  // index of the first step after the Tick (len(steps) if none)
	calls []vCall
	bad   bool
}

func sortedKeys[M ~map[string]V, V any](m M) []string {
	ks := make([]string, 0, len(m))
	for k := range m {
		ks = append(ks, k)
	}
	sort.Strings(ks)
	return ks
}

func inList(l []string, s string) bool {
	for _, x := range l {
		if x == s {
			return true
		}
	}
	return false
}

func TestVerifC22Replay(t *testing.T) {
	in, out := vkEnv("VERIF_IN", ""), vkEnv("VERIF_OUT", "")
	if in == "" || out == "" {
		t.Skip("VERIF_IN/VERIF_OUT not set")
	}
	audcfg := vkEnv("VERIF_AUDCFG", "1") == "1"
	seed := vkEnvInt("VERIF_SEED", 1)
	shard, nshard := 0, 1
	if s := vkEnv("VERIF_SHARD", ""); s != "" {
		p := strings.Split(s, "/")
		shard, _ = strconv.Atoi(p[0])
		nshard, _ = strconv.Atoi(p[1])
	}
	window := time.Duration(vkEnvInt("VERIF_WINDOW_MS", 4000)) * time.Millisecond
	margin := time.Duration(vkEnvInt("VERIF_MARGIN_MS", 1200)) * time.Millisecond
	res := vOut{Audcfg: audcfg, Drift: map[string]int{}, Benign: map[string]int{}, ActCounts: map[string]int{}, ViaCounts: map[string]int{}}
	t0 := time.Now()
	finish := func(fatal string) {
		res.Fatal = fatal
		res.Elapsed = time.Since(t0).Seconds()
		res.NViolations = len(res.Violations)
		if len(res.Violations) > 200 {
			res.Violations = res.Violations[:200]
		}
		if err := vkWriteResult(out, res); err != nil {
			t.Fatal(err)
		}
		if fatal != "" {
			t.Fatal(fatal)
		}
	}
	dir := vkEnv("VERIF_TMP", "")
	if dir == "" {
		dir = t.TempDir()
	} else {
		dir = filepath.Join(dir, fmt.Sprintf("w-%v-%d", audcfg, shard))
		os.MkdirAll(dir, 0o700)
	}
	w, err := newWorld(dir, audcfg)
	if err != nil {
		finish("setup: " + err.Error())
		return
	}
	var behs []*vBeh
	var lines []int // position of each behaviour in the input file
	n, ln := 0, -1
	err = vkLoadLines(in, func(line []byte) error {
		var b vBeh
		ln++
		if err := json.Unmarshal(line, &b); err != nil {
			return err
		}
		if b.Init.Audcfg != audcfg {
			return nil
		}
		if n%nshard == shard {
			behs = append(behs, &b)
			lines = append(lines, ln)
		}
		n++
		return nil
	})
	if err != nil {
		finish("load: " + err.Error())
		return
	}
	distinct := map[string]bool{}
	driftNote := func(kind string, in *vInst, si int, want, got string) {
		res.Drift[kind]++
		if len(res.DriftSamples) < 12 {
			res.DriftSamples = append(res.DriftSamples, fmt.Sprintf("%s behaviour=%d step=%d model=%s real=%s calls=%s", kind, in.idx, si, want, got, vkJSON(in.calls)))
		}
	}
	// run executes steps [from,to) of an instance
	run := func(in *vInst, from, to int) error {
		for si := from; si < to; si++ {
			st := &in.b.Steps[si]
			c := st.Call
			in.calls = append(in.calls, c)
			res.Steps++
			res.ActCounts[c.Act]++
			switch c.Act {
			case "Present":
				via := "router"
				if (in.idx+si+seed)%2 == 0 {
					via = "direct"
				}
				a := in.b.Init.Tok[c.S]
				tokStr := in.toks[c.S]
				if via == "router" && !oauth.IsJWT(tokStr) {
					via = "direct" // not JWT-shaped (alg none: empty signature): the router would not take the JWT branch
				}
				got, user := w.present(tokStr, via)
				res.Presents++
				res.ViaCounts[via]++
				if got == "accept" {
					res.RealAccepts++
					if user != vUser && !(a.Sigok == false && user == "admin") {
						driftNote("user", in, si, vUser, user)
					}
				}
				if c.Reply == "accept" {
					res.ModelAccepts++
					if got == "accept" {
						res.BothAccept++
						if a.Alg == "RS256" && a.Key == "k1" && a.Kid == "k1" {
							res.CanonicalAccept++
						}
					}
				}
				distinct[fmt.Sprintf("%v|%v|%v|%v|%v|%s", a, audcfg, st.Why, st.CachedBefore, st.SeenBefore, c.Reply)] = true
				if !inList(st.Allowed, got) {
					why := append([]string{}, st.Why...)
					sort.Strings(why)
					cs := "uncached"
					if st.CachedBefore {
						cs = "cached"
					}
					sn := "unseen"
					if st.SeenBefore {
						sn = "seen"
					}
					key := fmt.Sprintf("%s/%s/%s/%s", got, strings.Join(why, "+"), cs, sn)
					res.Violations = append(res.Violations, vViol{Behaviour: lines[in.idx], Step: si, Key: key,
						What:  fmt.Sprintf("request with a token failing {%s} was answered %q; the statement allows %v", strings.Join(why, ","), got, st.Allowed),
						Attrs: a, Audcfg: audcfg, Allowed: st.Allowed, Model: c.Reply, Got: got, Via: via,
						Calls: append([]vCall{}, in.calls...), Token: tokStr})
					in.bad = true
				} else if got != c.Reply {
					if got == "reject" {
						driftNote("reply-stricter-than-model", in, si, c.Reply, got)
					} else {
						driftNote("reply-laxer-than-model-but-allowed", in, si, c.Reply, got)
					}
				}
			case "Revoke":
				if err := w.revoke(in.jtis[c.J]); err != nil {
					return err
				}
				res.RevokeHTTP++
			case "Evict":
				if !caches.VerifC22Expire(caches.OAuthJWTCache, in.toks[c.S]) {
					driftNote("evict-nothing-cached", in, si, "cached", "absent")
				}
			case "BExpire":
				if !caches.VerifC22Expire(caches.BlacklistCache, in.jtis[c.J]) {
					res.Benign["blacklist-cache-entry-expired-early"]++ // see below
				}
			case "Tick":
				// time is handled by the round structure
			default:
				return fmt.Errorf("unknown action %q", c.Act)
			}
			if in.bad {
				continue // after a violation the real state legitimately differs from the model's
			}
			// projected state: which tokens have a cached result, what the blacklist cache says
			var cached []string
			for _, s := range sortedKeys(in.toks) {
				if _, ok := caches.VerifC22Peek(caches.OAuthJWTCache, in.toks[s]); ok {
					cached = append(cached, s)
				}
			}
			want := append([]string{}, st.St.Cached...)
			sort.Strings(want)
			if strings.Join(want, ",") != strings.Join(cached, ",") {
				driftNote("cached-set", in, si, strings.Join(want, ","), strings.Join(cached, ","))
			}
			for _, j := range sortedKeys(st.St.Bc) {
				g := "none"
				if v, ok := caches.VerifC22Peek(caches.BlacklistCache, in.jtis[j]); ok {
					g = "inactive"
					if it, ok := v.(*tokens.BlackListItem); ok && it.Active {
						g = "active"
					}
				}
				if g == "none" && st.St.Bc[j] != "none" {
					// the entry went early: every revocation purges the whole BlacklistCache, also the entries of
					// the other behaviours in flight in this round - the model's BExpire, taken by the environment
					res.Benign["blacklist-cache-entry-expired-early"]++
				} else if g != st.St.Bc[j] {
					driftNote("blacklist-cache", in, si, j+"="+st.St.Bc[j], j+"="+g)
				}
			}
		}
		return nil
	}
	cleanup := func(in *vInst) {
		for _, tk := range in.toks {
			caches.Delete(caches.OAuthJWTCache, tk)
		}
	}
	newInst := func(idx int, b *vBeh, round int, soon time.Time) (*vInst, error) {
		in := &vInst{b: b, idx: idx, toks: map[string]string{}, jtis: map[string]string{}, split: len(b.Steps)}
		nonce := fmt.Sprintf("%s-b%d-r%d", w.run, idx, round)
		if len(b.Steps) > 0 {
			for j := range b.Steps[0].St.Bc {
				in.jtis[j] = j + "-" + nonce
			}
		}
		for s, a := range b.Init.Tok {
			if a.Jti != "none" && in.jtis[a.Jti] == "" {
				in.jtis[a.Jti] = a.Jti + "-" + nonce
			}
			if a.Exp == "soon" {
				in.soon = true
			}
			tk, err := w.mint(a, s+"-"+nonce, in.jtis[a.Jti], soon)
			if err != nil {
				return nil, err
			}
			in.toks[s] = tk
		}
		for i, s := range b.Steps {
			if s.Call.Act == "Tick" {
				in.split = i + 1
				break
			}
		}
		if !in.soon {
			in.split = len(b.Steps) // the Tick changes nothing the real code can see
		}
		return in, nil
	}

	pending := make([]int, len(behs))
	for i := range pending {
		pending[i] = i
	}
	tries := map[int]int{}
	for len(pending) > 0 {
		res.Rounds++
		if res.Rounds > 1 {
			if _, err := tokens.Flush(); err != nil { // keep the revocation table small; no behaviour is in flight
				finish("flush: " + err.Error())
				return
			}
		}
		start := time.Now()
		deadline := start.Truncate(time.Second).Add(window + time.Second)
		var waiting []*vInst
		var next []int
		for pi, idx := range pending {
			if time.Now().After(deadline.Add(-margin - 300*time.Millisecond)) {
				next = append(next, pending[pi:]...)
				break
			}
			in, err := newInst(idx, behs[idx], res.Rounds, deadline)
			if err != nil {
				finish("mint: " + err.Error())
				return
			}
			saved, nv := res, len(res.Violations)
			if err := run(in, 0, in.split); err != nil {
				finish(err.Error())
				return
			}
			if in.soon && time.Now().After(deadline.Add(-margin)) {
				// too close to the deadline to know on which side of it the requests fell:
				// forget this run (counters of scalar kind are rolled back) and run it again later
				res = saved
				res.Violations = res.Violations[:nv]
				res.Retries++
				tries[idx]++
				cleanup(in)
				if tries[idx] > 5 {
					finish(fmt.Sprintf("behaviour %d could not be run clear of the deadline in 5 rounds (machine too slow)", idx))
					return
				}
				next = append(next, idx)
				continue
			}
			if in.split < len(in.b.Steps) {
				waiting = append(waiting, in)
			} else {
				res.Behaviours++
				cleanup(in)
			}
		}
		if len(waiting) > 0 {
			d := time.Until(deadline.Add(1100 * time.Millisecond)) // exp has whole-second resolution
			if d > 0 {
				res.Waited += d.Seconds()
				time.Sleep(d)
			}
			for _, in := range waiting {
				if err := run(in, in.split, len(in.b.Steps)); err != nil {
					finish(err.Error())
					return
				}
				res.Behaviours++
				cleanup(in)
			}
		}
		pending = next
	}
	res.Distinct = len(distinct)
	if len(behs) > 0 {
		b := behs[0]
		var calls []vCall
		for _, s := range b.Steps {
			calls = append(calls, s.Call)
		}
		res.Samples = append(res.Samples, map[string]any{"tokens": b.Init.Tok, "audience_configured": audcfg, "calls": calls})
	}
	finish("")
}

//go:build verif

package caches

// Harness helper for check C22 (overlaid at build time, never part of tucats/ego).
// The OAuth harness lives outside this package, so the two things it cannot do
// through the public API are provided here:
//   VerifC22Expire - let ONE entry reach its deadline and run the real sweeper
//                    (sweepExpired) so that it is removed the way expiry removes it
//   VerifC22Peek   - look at an entry without refreshing its deadline (Find refreshes)

import "time"

func VerifC22Expire(id int, key any) bool {
	cacheLock.Lock()
	c, ok := cacheList[id]
	if ok {
		it, found := c.Items[key]
		if !found {
			ok = false
		} else {
			it.Expires = time.Now().Add(-time.Hour)
			c.Items[key] = it
		}
	}
	cacheLock.Unlock()
	if !ok {
		return false
	}
	sweepExpired(id)
	_, still := VerifC22Peek(id, key)
	return !still
}

func VerifC22Peek(id int, key any) (any, bool) {
	cacheLock.RLock()
	defer cacheLock.RUnlock()
	if c, ok := cacheList[id]; ok {
		if it, found := c.Items[key]; found {
			return it.Data, true
		}
	}
	return nil, false
}

package main

// C07 in-process driver (overlaid as /repo/zz_verif_c07_test.go, package main).
//
// It repeats, inside one process, exactly what main() does for `ego run <file>`: the application object of
// main.go with commands.RunAction as the default action, app.Run(grammar, {"ego","run",file}).  Nothing of the
// compile/run path is re-implemented here.  Around every case there is a recover(): a Go panic that reaches it
// is one that no code of `ego run` recovers, i.e. it would have ended the process.  The driver only records what
// happened (T-style outcome log); the TLA+ contract EgoCrash_Trace judges the log.
//
// Protocol: VERIF_IN  ndjson {"id":..,"src":..} (VERIF_LATIN1: one code point per byte of the text)      VERIF_OUT ndjson, two lines per case:
//   {"id":..,"ev":"start"}  (flushed before the case runs: a process that dies names the case that killed it)
//   {"id":..,"ev":"end","panic":bool,"msg":..,"site":..,"kind":..,"timeout":bool,"stopped":bool,"err":bool,"ms":..}
// A case that does not finish within VERIF_CASE_MS is interrupted (SIGINT is what stops a running Ego context, see
// bytecode.RunFromAddress); if that does not end it the goroutine is abandoned (blocked on a channel / WaitGroup)
// and after VERIF_MAX_ABANDONED of those the process exits with status 3 so that the driver starts a fresh one.

import (
	"bufio"
	"encoding/json"
	"fmt"
	"os"
	"os/signal"
	"path/filepath"
	"regexp"
	"runtime/debug"
	"strconv"
	"strings"
	"syscall"
	"testing"
	"time"

	"github.com/tucats/ego/internal/cli/app"
	"github.com/tucats/ego/internal/commands"
	"github.com/tucats/ego/internal/grammar/class"
	"github.com/tucats/ego/internal/i18n"
)

type c07Case struct {
	ID  int    `json:"id"`
	Src string `json:"src"`
}

type c07End struct {
	ID      int    `json:"id"`
	Ev      string `json:"ev"`
	Panic   bool   `json:"panic"`
	Msg     string `json:"msg"`
	Site    string `json:"site"`
	Kind    string `json:"kind"`
	Timeout bool   `json:"timeout"`
	Stopped bool   `json:"stopped"`
	Err     bool   `json:"err"`
	Ms      int64  `json:"ms"`
}

var c07Frame = regexp.MustCompile(`(?m)^(github\.com/tucats/ego/[^\s(]+(?:\([^)]*\))?[^\s(]*)\(`)

// c07Site: first frame of the panicking goroutine that belongs to tucats/ego and is not this driver (projection of
// the stack to a function name; used only as the identity of a finding).
func c07Site(stack string) string {
	for _, m := range c07Frame.FindAllStringSubmatch(stack, -1) {
		f := strings.TrimPrefix(m[1], "github.com/tucats/ego/")
		if strings.HasPrefix(f, "c07") || strings.Contains(f, "TestVerifC07") || strings.HasPrefix(f, "main.") {
			continue
		}
		return f
	}
	return "?"
}

func c07Kind(msg string) string {
	switch {
	case strings.Contains(msg, "index out of range"):
		return "index"
	case strings.Contains(msg, "slice bounds out of range"):
		return "slicebounds"
	case strings.Contains(msg, "nil pointer dereference"):
		return "nilptr"
	case strings.Contains(msg, "interface conversion"):
		return "ifaceconv"
	case strings.Contains(msg, "nil map"):
		return "nilmap"
	case strings.Contains(msg, "makeslice") || strings.Contains(msg, "makechan") || strings.Contains(msg, "out of range"):
		return "range"
	case strings.Contains(msg, "divide by zero"):
		return "divzero"
	case strings.Contains(msg, "reflect"):
		return "reflect"
	case strings.Contains(msg, "closed channel") || strings.Contains(msg, "close of"):
		return "channel"
	}
	return "other"
}

func c07RunOne(file string) (res c07End) {
	defer func() {
		if r := recover(); r != nil {
			st := string(debug.Stack())
			res.Panic = true
			res.Msg = fmt.Sprint(r)
			if len(res.Msg) > 300 {
				res.Msg = res.Msg[:300]
			}
			res.Site = c07Site(st)
			res.Kind = c07Kind(res.Msg)
		}
	}()
	a := app.New("ego: " + i18n.T("ego")).
		SetVersion(parseVersion(BuildVersion)).
		SetCopyright(Copyright).
		SetDefaultAction(commands.RunAction).
		SetProfileDirectory(".ego").
		SetBuildTime(BuildTime)
	err := a.Run(class.MainGrammar, []string{"ego", "run", file})
	res.Err = err != nil
	return res
}

func TestVerifC07(t *testing.T) {
	in, out := os.Getenv("VERIF_IN"), os.Getenv("VERIF_OUT")
	if in == "" || out == "" {
		t.Skip("VERIF_IN/VERIF_OUT not set")
	}
	caseMs, _ := strconv.Atoi(os.Getenv("VERIF_CASE_MS"))
	if caseMs <= 0 {
		caseMs = 3000
	}
	maxAb, _ := strconv.Atoi(os.Getenv("VERIF_MAX_ABANDONED"))
	if maxAb <= 0 {
		maxAb = 8
	}
	latin1 := os.Getenv("VERIF_LATIN1") != ""
	if err := app.SetEnvironment(".ego"); err != nil {
		t.Fatal(err)
	}
	// SIGINT must never kill this process: keep one subscription alive for its whole life.
	keep := make(chan os.Signal, 16)
	signal.Notify(keep, os.Interrupt)
	go func() {
		for range keep {
		}
	}()
	fi, err := os.Open(in)
	if err != nil {
		t.Fatal(err)
	}
	fo, err := os.OpenFile(out, os.O_CREATE|os.O_WRONLY|os.O_APPEND, 0o644)
	if err != nil {
		t.Fatal(err)
	}
	w := bufio.NewWriter(fo)
	emit := func(v any) {
		b, _ := json.Marshal(v)
		w.Write(b)
		w.WriteByte('\n')
		w.Flush()
	}
	dir := filepath.Dir(out)
	sc := bufio.NewScanner(fi)
	sc.Buffer(make([]byte, 1<<20), 1<<24)
	abandoned := 0
	for sc.Scan() {
		var c c07Case
		if json.Unmarshal(sc.Bytes(), &c) != nil {
			continue
		}
		file := filepath.Join(dir, fmt.Sprintf("case-%d-%d.ego", os.Getpid(), c.ID))
		text := []byte(c.Src)
		if latin1 { // every byte of the text travels as one code point
			text = text[:0]
			for _, r := range c.Src {
				text = append(text, byte(r))
			}
		}
		if os.WriteFile(file, text, 0o644) != nil {
			t.Fatal("cannot write case file")
		}
		emit(map[string]any{"id": c.ID, "ev": "start"})
		t0 := time.Now()
		done := make(chan c07End, 1)
		go func() { done <- c07RunOne(file) }()
		var res c07End
		select {
		case res = <-done:
		case <-time.After(time.Duration(caseMs) * time.Millisecond):
			res.Timeout = true
			_ = syscall.Kill(os.Getpid(), syscall.SIGINT)
			select {
			case r2 := <-done:
				res.Stopped = true
				res.Panic, res.Msg, res.Site, res.Kind = r2.Panic, r2.Msg, r2.Site, r2.Kind
			case <-time.After(600 * time.Millisecond):
				abandoned++
			}
		}
		res.ID, res.Ev, res.Ms = c.ID, "end", time.Since(t0).Milliseconds()
		emit(res)
		os.Remove(file)
		if abandoned >= maxAb {
			w.Flush()
			fo.Close()
			os.Exit(3)
		}
	}
	w.Flush()
	fo.Close()
}

package commands

// C40 harness (overlaid into internal/commands as an in-package test).
//
// TestVerifC40Routes  builds the server's route table exactly the way `ego server run` does
//                     (setupServerRouter) and writes, for every route, the attributes the route
//                     dump in the server log does not carry: the declared query parameters and
//                     their kinds, the body validations, media types and flags.  Unexported fields
//                     are only READ (reflection); nothing is compared or judged here.
// TestVerifC40Canary  serves the real router (real ServeHTTP, real reportRequestPanic, real net/http
//                     server) carrying handlers that crash in the ways the NILPTR/INDEX audits name,
//                     next to handlers that answer normally, until the driver tells it to stop.
//                     The driver sends its requests through the same observation pipeline it uses
//                     for the real server; the TLA+ contract must reject exactly the crashing ones.

import (
	"encoding/json"
	"fmt"
	"net"
	"net/http"
	"os"
	"path/filepath"
	"reflect"
	"sort"
	"testing"
	"time"

	"github.com/tucats/ego/internal/cli/settings"
	"github.com/tucats/ego/internal/cli/ui"
	"github.com/tucats/ego/internal/defs"
	"github.com/tucats/ego/internal/router"
	"github.com/tucats/ego/internal/util"
)

type verifC40Route struct {
	Method      string              `json:"method"`
	Endpoint    string              `json:"endpoint"`
	Parameters  map[string]string   `json:"parameters"`
	Validations []string            `json:"validations"`
	Accept      []string            `json:"accept"`
	Content     []string            `json:"content"`
	Perms       []string            `json:"perms"`
	Disallow    map[string][]string `json:"disallow"`
	MustAuth    bool                `json:"mustauth"`
	CanAuth     bool                `json:"canauth"`
	Lightweight bool                `json:"lightweight"`
	Redirect    string              `json:"redirect"`
	Filename    string              `json:"filename"`
}

func verifC40Strings(v reflect.Value) []string {
	out := []string{}
	for i := 0; i < v.Len(); i++ {
		out = append(out, v.Index(i).String())
	}

	return out
}

func verifC40Table(r *router.Router) []verifC40Route {
	out := []verifC40Route{}
	routes := reflect.ValueOf(r).Elem().FieldByName("routes")

	for it := routes.MapRange(); it.Next(); {
		rt := it.Value().Elem()
		e := verifC40Route{
			Method:      rt.FieldByName("method").String(),
			Endpoint:    rt.FieldByName("endpoint").String(),
			Parameters:  map[string]string{},
			Disallow:    map[string][]string{},
			Validations: verifC40Strings(rt.FieldByName("validations")),
			Accept:      verifC40Strings(rt.FieldByName("acceptMediaTypes")),
			Content:     verifC40Strings(rt.FieldByName("contentMediaTypes")),
			Perms:       verifC40Strings(rt.FieldByName("requiredPermissions")),
			MustAuth:    rt.FieldByName("mustAuthenticate").Bool(),
			CanAuth:     rt.FieldByName("canAuthenticate").Bool(),
			Lightweight: rt.FieldByName("lightweight").Bool(),
			Redirect:    rt.FieldByName("redirect").String(),
			Filename:    rt.FieldByName("filename").String(),
		}

		if p := rt.FieldByName("parameters"); p.Kind() == reflect.Map {
			for pi := p.MapRange(); pi.Next(); {
				e.Parameters[pi.Key().String()] = pi.Value().String()
			}
		}

		if p := rt.FieldByName("disallow"); p.Kind() == reflect.Map {
			for pi := p.MapRange(); pi.Next(); {
				e.Disallow[pi.Key().String()] = verifC40Strings(pi.Value())
			}
		}

		out = append(out, e)
	}

	sort.Slice(out, func(i, j int) bool {
		if out[i].Endpoint != out[j].Endpoint {
			return out[i].Endpoint < out[j].Endpoint
		}

		return out[i].Method < out[j].Method
	})

	return out
}

func TestVerifC40Routes(t *testing.T) {
	out := os.Getenv("VERIF_OUT")
	if out == "" || os.Getenv("VERIF_C40") != "routes" {
		t.Skip("driven by checks/C40.py")
	}

	egoPath := os.Getenv("EGO_PATH")
	settings.SetDefault(defs.EgoPathSetting, egoPath)
	router.PathRoot = filepath.Join(egoPath, defs.LibPathName)

	if dir := os.Getenv("VERIF_C40_OAUTH"); dir != "" {
		settings.SetDefault(defs.OAuthASEnabledSetting, "true")
		settings.SetDefault("ego.server.oauth.as.issuer", "http://127.0.0.1:1")
		settings.SetDefault("ego.server.oauth.as.key.file", filepath.Join(dir, "signing.pem"))
		settings.SetDefault("ego.server.oauth.as.clients", filepath.Join(dir, "clients.json"))
	}

	r, err := setupServerRouter(nil, "")
	if err != nil {
		t.Fatalf("setupServerRouter: %v", err)
	}

	b, _ := json.Marshal(verifC40Table(r))
	if err := os.WriteFile(out, b, 0o600); err != nil {
		t.Fatal(err)
	}
}

// ------------------------------------------------------------------ canary

func verifC40OK(session *router.Session, w http.ResponseWriter, r *http.Request) int {
	w.Header().Set("Content-Type", "application/json")
	w.WriteHeader(http.StatusOK)
	_, _ = w.Write([]byte(`{"ok":true}`))

	return http.StatusOK
}

func verifC40Err(session *router.Session, w http.ResponseWriter, r *http.Request) int {
	return util.ErrorResponse(w, session.ID, "a handler's own error response", http.StatusBadRequest)
}

// a handler-made 500 is an ordinary error response, not a crash
func verifC40Own500(session *router.Session, w http.ResponseWriter, r *http.Request) int {
	return util.ErrorResponse(w, session.ID, "a handler's own 500", http.StatusInternalServerError)
}

func verifC40Index(session *router.Session, w http.ResponseWriter, r *http.Request) int {
	parts := []string{"bytes"}
	n := len(session.Parameters) + 1 // 1 for a request without query parameters

	_, _ = w.Write([]byte(parts[n]))

	return http.StatusOK
}

func verifC40NilMap(session *router.Session, w http.ResponseWriter, r *http.Request) int {
	var m map[string]string
	if session.ID < 0 {
		m = map[string]string{}
	}

	m["k"] = "v"

	return http.StatusOK
}

func verifC40Assert(session *router.Session, w http.ResponseWriter, r *http.Request) int {
	var v any = session.URLParts

	_, _ = w.Write([]byte(v.(string)))

	return http.StatusOK
}

// begins its own 200 response, then crashes: the client sees a 200
func verifC40Late(session *router.Session, w http.ResponseWriter, r *http.Request) int {
	w.Header().Set("Content-Type", "application/json")
	w.WriteHeader(http.StatusOK)
	_, _ = w.Write([]byte(`{"partial":`))

	if f, ok := w.(http.Flusher); ok {
		f.Flush()
	}

	var p *router.Session
	if session.ID < 0 {
		p = session
	}

	return p.ID
}

func TestVerifC40Canary(t *testing.T) {
	out := os.Getenv("VERIF_OUT")
	if out == "" || os.Getenv("VERIF_C40") != "canary" {
		t.Skip("driven by checks/C40.py")
	}

	dir := filepath.Dir(out)
	logFile := filepath.Join(dir, "server_canary.log")
	ui.LogFormat = ui.JSONFormat

	if err := ui.OpenLogFile(logFile, false); err != nil {
		t.Fatal(err)
	}

	ui.Active(ui.ServerLogger, true)
	ui.Active(ui.InternalLogger, true)
	ui.Active(ui.RouteLogger, true)

	stop := make(chan struct{})

	m := router.NewRouter("verif-c40-canary")
	m.New("/verif-canary/ok", verifC40OK, http.MethodGet).Authentication(false)
	m.New("/verif-canary/err", verifC40Err, http.MethodGet).Authentication(false)
	m.New("/verif-canary/own500", verifC40Own500, http.MethodGet).Authentication(false)
	m.New("/verif-canary/index", verifC40Index, http.MethodGet).Authentication(false)
	m.New("/verif-canary/nilmap", verifC40NilMap, http.MethodGet).Authentication(false)
	m.New("/verif-canary/assert", verifC40Assert, http.MethodGet).Authentication(false)
	m.New("/verif-canary/late", verifC40Late, http.MethodGet).Authentication(false)
	m.New("/verif-canary/recovery/{{state}}", func(session *router.Session, w http.ResponseWriter, r *http.Request) int {
		settings.SetDefault(defs.ServerPanicRecoverySetting, data2bool(session.URLParts["state"]))

		return verifC40OK(session, w, r)
	}, http.MethodGet).Authentication(false)
	m.New("/verif-canary/stop", func(session *router.Session, w http.ResponseWriter, r *http.Request) int {
		defer close(stop)

		return verifC40OK(session, w, r)
	}, http.MethodGet).Authentication(false)

	ln, err := net.Listen("tcp", "127.0.0.1:0")
	if err != nil {
		t.Fatal(err)
	}

	srv := makeHTTPServer(ln.Addr().String(), m) // the server object `ego server run` uses

	go func() { _ = srv.Serve(ln) }()

	info, _ := json.Marshal(map[string]any{"port": ln.Addr().(*net.TCPAddr).Port, "log": ui.CurrentLogFile()})
	if err := os.WriteFile(out+".tmp", info, 0o600); err != nil {
		t.Fatal(err)
	}

	_ = os.Rename(out+".tmp", out)

	select {
	case <-stop:
	case <-time.After(10 * time.Minute):
		fmt.Println("verif canary: no stop request within 10 minutes")
	}

	time.Sleep(100 * time.Millisecond)
	_ = srv.Close()
}

func data2bool(v any) string {
	if s, ok := v.(string); ok && s == "off" {
		return defs.False
	}

	return defs.True
}

package commands

// C32 harness (binding F): drives the real router.Router.New / FindRoute and logs what it returned.
// It decides nothing: every record is judged by the TLA+ contract RouteResolve_Trace.
//
// VERIF_MODE=table : build the server's real route table (setupServerRouter: static routes, lib/services,
//                    native admin handlers, redirects) and write its projection to VERIF_OUT (side.json).
// VERIF_MODE=run   : VERIF_IN = cases (ndjson {"t":[routes],"q":request}; "t":[] = the real table of VERIF_SIDE).
//                    For every case: the table is registered in a fresh router in every insertion order
//                    (<= 4 routes; seeded shuffles above), FindRoute is called VERIF_REPS times on each, and the
//                    set of distinct results is logged, together with the result on each one-route table.
//
// A text is projected to the segments that follow each "/" ("/a/" = ["a",""]); rendering is the inverse and the
// harness checks the round trip on every endpoint of the real table.

import (
	"bufio"
	"encoding/json"
	"fmt"
	"math/rand"
	"os"
	"path/filepath"
	"reflect"
	"sort"
	"strconv"
	"strings"
	"testing"

	"github.com/tucats/ego/internal/router"
)

type c32Route struct {
	M string   `json:"m"`
	E []string `json:"e"`
}

type c32Req struct {
	M string   `json:"m"`
	P []string `json:"p"`
}

type c32Obs struct {
	St int `json:"st"`
	R  int `json:"r"`
}

type c32Case struct {
	T    []c32Route `json:"t"`
	Q    c32Req     `json:"q"`
	Solo []int      `json:"solo"`
	Obs  []c32Obs   `json:"obs"`
	N    int        `json:"calls"`
}

type c32Side struct {
	Table []c32Route     `json:"table"`
	Vars  []string       `json:"vars"`
	Globs []string       `json:"globs"`
	Rank  map[string]int `json:"rank"`
}

func c32Text(segs []string) string {
	return "/" + strings.Join(segs, "/")
}

func c32Segs(text string) ([]string, error) {
	if !strings.HasPrefix(text, "/") {
		return nil, fmt.Errorf("endpoint %q does not start with /", text)
	}

	return strings.Split(text[1:], "/"), nil
}

func c32Env(name string, def int) int {
	if n, err := strconv.Atoi(os.Getenv(name)); err == nil {
		return n
	}

	return def
}

// the (endpoint, method) of a route of the real router (unexported fields, read-only reflection)
func c32Ident(r *router.Route) (string, string) {
	v := reflect.ValueOf(r).Elem()

	return v.FieldByName("endpoint").String(), v.FieldByName("method").String()
}

func c32RealRouter(t *testing.T) *router.Router {
	r, err := setupServerRouter(nil, "")
	if err != nil {
		t.Fatalf("setupServerRouter: %v", err)
	}

	return r
}

func c32Prepare() {
	// isolated HOME (no user profile), library below the tree under test
	os.Setenv("HOME", os.Getenv("VERIF_HOME"))
	router.PathRoot = filepath.Join(os.Getenv("EGO_PATH"), "lib")
}

func TestVerifC32(t *testing.T) {
	mode := os.Getenv("VERIF_MODE")
	if mode == "" {
		t.Skip("VERIF_MODE not set")
	}

	c32Prepare()

	switch mode {
	case "table":
		c32DumpTable(t)
	case "run":
		c32Run(t)
	default:
		t.Fatalf("unknown VERIF_MODE %q", mode)
	}
}

func c32DumpTable(t *testing.T) {
	r := c32RealRouter(t)
	side := c32Side{Rank: map[string]int{}}
	vars, globs, toks := map[string]bool{}, map[string]bool{}, map[string]bool{}

	it := reflect.ValueOf(r).Elem().FieldByName("routes").MapRange()
	for it.Next() {
		endpoint, method := it.Key().FieldByName("endpoint").String(), it.Key().FieldByName("method").String()

		segs, err := c32Segs(endpoint)
		if err != nil || c32Text(segs) != endpoint {
			t.Fatalf("projection of endpoint %q is not invertible: %v", endpoint, err)
		}

		for _, s := range segs {
			toks[s] = true

			switch {
			case strings.HasPrefix(s, "{{") && strings.HasSuffix(s, "...}}"):
				globs[s] = true
			case strings.HasPrefix(s, "{{"):
				vars[s] = true
			case strings.Contains(s, "{{") || strings.Contains(s, "}}"):
				t.Fatalf("endpoint %q has a literal segment containing braces: outside the contract's domain", endpoint)
			}
		}

		side.Table = append(side.Table, c32Route{M: method, E: segs})
	}

	sort.Slice(side.Table, func(i, j int) bool {
		a, b := c32Text(side.Table[i].E)+" "+side.Table[i].M, c32Text(side.Table[j].E)+" "+side.Table[j].M

		return a < b
	})

	side.Vars, side.Globs = c32Keys(vars), c32Keys(globs)
	for i, s := range c32Keys(toks) {
		side.Rank[s] = i
	}

	b, _ := json.Marshal(side)
	if err := os.WriteFile(os.Getenv("VERIF_OUT"), b, 0o644); err != nil {
		t.Fatal(err)
	}
}

func c32Keys(m map[string]bool) []string {
	out := []string{}
	for k := range m {
		out = append(out, k)
	}

	sort.Strings(out)

	return out
}

// one synthetic router holding the given routes, registered in the given order
type c32Built struct {
	r      *router.Router
	routes map[*router.Route]int // route -> 1-based index in the case's table
}

func c32Build(table []c32Route, order []int) c32Built {
	b := c32Built{r: router.NewRouter("c32"), routes: map[*router.Route]int{}}
	for _, k := range order {
		b.routes[b.r.New(c32Text(table[k].E), nil, table[k].M)] = k + 1
	}

	return b
}

func (b c32Built) find(q c32Req) c32Obs {
	route, status := b.r.FindRoute(q.M, c32Text(q.P), false)
	if route == nil {
		return c32Obs{St: status, R: 0}
	}

	k, ok := b.routes[route]
	if !ok {
		panic("FindRoute returned a route that was never registered in this router")
	}

	return c32Obs{St: status, R: k}
}

// c32IterOrder is the order in which one `range` over the router's map delivers the routes right now
// (the same runtime iteration FindRoute uses).  Only used to show that repetition explores the orders.
func c32IterOrder(r *router.Router, limit int) string {
	var sb strings.Builder

	it := reflect.ValueOf(r).Elem().FieldByName("routes").MapRange()
	for n := 0; it.Next() && n < limit; n++ {
		sb.WriteString(it.Key().FieldByName("endpoint").String() + " " + it.Key().FieldByName("method").String() + ";")
	}

	return sb.String()
}

func c32Perms(n int) [][]int {
	if n == 0 {
		return [][]int{{}}
	}

	out := [][]int{}
	for _, p := range c32Perms(n - 1) {
		for pos := 0; pos <= len(p); pos++ {
			q := append(append(append([]int{}, p[:pos]...), n-1), p[pos:]...)
			out = append(out, q)
		}
	}

	return out
}

func c32Run(t *testing.T) {
	reps := c32Env("VERIF_REPS", 12)
	rebuilds := c32Env("VERIF_REBUILDS", 6)
	shuffles := c32Env("VERIF_SHUFFLES", 6)
	rng := rand.New(rand.NewSource(int64(c32Env("VERIF_SEED", 1))))

	var side c32Side

	if p := os.Getenv("VERIF_SIDE"); p != "" {
		b, err := os.ReadFile(p)
		if err != nil {
			t.Fatal(err)
		}

		if err := json.Unmarshal(b, &side); err != nil {
			t.Fatal(err)
		}
	}

	// routers for the real table: the real object rebuilt (fresh map, fresh hash seed) and the same routes
	// registered in shuffled orders
	var (
		realObjs  []*router.Router
		realIndex = map[string]int{}
		realSynth []c32Built
		realSolo  []c32Built
	)

	realReady := false
	prepareReal := func() {
		if realReady {
			return
		}

		realReady = true

		for k, rt := range side.Table {
			realIndex[c32Text(rt.E)+" "+rt.M] = k + 1
		}

		for n := 0; n < rebuilds; n++ {
			realObjs = append(realObjs, c32RealRouter(t))
		}

		order := make([]int, len(side.Table))
		for k := range order {
			order[k] = k
		}

		for n := 0; n < shuffles; n++ {
			rng.Shuffle(len(order), func(i, j int) { order[i], order[j] = order[j], order[i] })
			realSynth = append(realSynth, c32Build(side.Table, order))
		}

		for k := range side.Table {
			realSolo = append(realSolo, c32Build(side.Table, []int{k}))
		}
	}

	in, err := os.Open(os.Getenv("VERIF_IN"))
	if err != nil {
		t.Fatal(err)
	}
	defer in.Close()

	outf, err := os.Create(os.Getenv("VERIF_OUT"))
	if err != nil {
		t.Fatal(err)
	}
	defer outf.Close()

	w := bufio.NewWriterSize(outf, 1<<20)
	defer w.Flush()

	soloCache := map[string]c32Built{}
	permCache := map[int][][]int{}

	sc := bufio.NewScanner(in)
	sc.Buffer(make([]byte, 1<<20), 1<<26)

	for sc.Scan() {
		if len(strings.TrimSpace(sc.Text())) == 0 {
			continue
		}

		var c c32Case
		if err := json.Unmarshal(sc.Bytes(), &c); err != nil {
			t.Fatalf("bad case %q: %v", sc.Text(), err)
		}

		seen := map[c32Obs]bool{}
		c.Solo, c.Obs, c.N = []int{}, []c32Obs{}, 0

		note := func(o c32Obs) {
			c.N++

			if !seen[o] {
				seen[o] = true
				c.Obs = append(c.Obs, o)
			}
		}

		if len(c.T) == 0 {
			// the server's real table
			prepareReal()

			for _, r := range realObjs {
				for n := 0; n < reps; n++ {
					route, status := r.FindRoute(c.Q.M, c32Text(c.Q.P), false)
					o := c32Obs{St: status}

					if route != nil {
						e, m := c32Ident(route)
						if o.R = realIndex[e+" "+m]; o.R == 0 {
							t.Fatalf("the rebuilt real router returned %s %s, which is not in the dumped table", m, e)
						}
					}

					note(o)
				}
			}

			for _, b := range realSynth {
				for n := 0; n < reps; n++ {
					note(b.find(c.Q))
				}
			}

			for _, b := range realSolo {
				c.Solo = append(c.Solo, b.find(c.Q).St)
			}
		} else {
			n := len(c.T)

			var orders [][]int

			if n <= 4 {
				if permCache[n] == nil {
					permCache[n] = c32Perms(n)
				}

				orders = permCache[n]
			} else {
				for k := 0; k < 24; k++ {
					orders = append(orders, rng.Perm(n))
				}
			}

			for _, order := range orders {
				b := c32Build(c.T, order)
				for k := 0; k < reps; k++ {
					note(b.find(c.Q))
				}
			}

			for _, rt := range c.T {
				key := c32Text(rt.E) + " " + rt.M

				b, ok := soloCache[key]
				if !ok {
					b = c32Build([]c32Route{rt}, []int{0})
					soloCache[key] = b
				}

				c.Solo = append(c.Solo, b.find(c.Q).St)
			}
		}

		sort.Slice(c.Obs, func(i, j int) bool {
			if c.Obs[i].R != c.Obs[j].R {
				return c.Obs[i].R < c.Obs[j].R
			}

			return c.Obs[i].St < c.Obs[j].St
		})

		b, _ := json.Marshal(c)
		w.Write(b)
		w.WriteByte('\n')
	}

	if err := sc.Err(); err != nil {
		t.Fatal(err)
	}

	// exploration probe (not a verdict): how many of the 6 orders of a 3-route table does iteration show over
	// every insertion order and `reps` iterations, and how many different first routes on the big routers
	probe := map[string]int{}
	three := []c32Route{{M: "GET", E: []string{"a"}}, {M: "GET", E: []string{"b"}}, {M: "GET", E: []string{"c"}}}
	orders := map[string]bool{}

	for _, order := range c32Perms(3) {
		b := c32Build(three, order)
		for k := 0; k < reps; k++ {
			orders[c32IterOrder(b.r, 3)] = true
		}
	}

	probe["orders_of_3"] = len(orders)

	firsts := map[string]bool{}
	for _, r := range realObjs {
		for k := 0; k < reps; k++ {
			firsts[c32IterOrder(r, 1)] = true
		}
	}

	for _, b := range realSynth {
		for k := 0; k < reps; k++ {
			firsts[c32IterOrder(b.r, 1)] = true
		}
	}

	probe["real_first_routes"] = len(firsts)
	probe["real_routers"] = len(realObjs) + len(realSynth)

	if p := os.Getenv("VERIF_PROBE"); p != "" {
		pb, _ := json.Marshal(probe)
		os.WriteFile(p, pb, 0o644)
	}
}
